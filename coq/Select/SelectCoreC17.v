(* C17, second half (F2): every keyword, in any letter case, is accepted as a column name after a
   dot, as a column alias after AS and as a table alias after AS, and appears with the user's
   spelling in the EXPLAIN output -- over the SELECT-core model (SelectParseModel / SelectPrintModel).

   Structure
   * [name_tok_ok k]: the decidable side condition -- exactly the tests the model makes on the token
     kind at the three naming positions.  [probes_generic]: for ANY token kind k with
     name_tok_ok k = true and ANY value sp, the three probe statements parse without error and
     print the expected EXPLAIN lines with sp copied (the only condition on sp is the printer
     fragment's: identifier bytes 1..127, for the dotted probe).
   * [keywords_name_tok_ok]: forallb name_tok_ok over the keywords of the GENERATED table, by
     vm_compute.  A keyword that the parser treats specially at one of these positions has to be
     mirrored in the model (else the exhaustive c17 correspondence stream disagrees), and then either
     this obligation or [probes_generic] stops compiling.
   * lexer link: a source word of ASCII letters / digits / underscores whose upper-casing is a
     keyword spelling is lexed by read_identifier to that keyword token, Value = the user's spelling. *)
From Coq Require Import List NArith Arith Bool String Lia ZifyN ZifyNat ZifyBool.
From DC Require Import Base.Item Base.Utf8 Base.Unicode Base.UnicodeFacts Base.Stream Gen.TokenTable.
From DC Require Import Lexer.LexerModel Tree.LineTree.
From DC Require Lexer.LexerTotal.
From DC Require Import Select.SelectParseModel Select.SelectPrintModel.
Import ListNotations.
Local Open Scope string_scope.
Local Open Scope list_scope.
Local Open Scope N_scope.

(* ------------------------------------------------------------------------------------------ *)
(** * The keyword table *)

Definition kw_entries : list (N * list N * list N) :=
  filter (fun e => let '(i, _, _) := e in (keyword_beg <? i) && (i <? keyword_end)) token_table.

Definition kw_tokens : list N := map (fun e => let '(i, _, _) := e in i) kw_entries.

(* the tests of the model on the token kind in the three naming positions:
   dotted_loop (json = true): not CARET, not COLON, IDENT or keyword;
   parse_alias / parse_table_expression after AS: IDENT or keyword *)
Definition name_tok_ok (k : N) : bool :=
  ((k =? T_IDENT) || is_keyword k) && negb (k =? T_CARET) && negb (k =? T_COLON).

Lemma keywords_name_tok_ok : forallb name_tok_ok kw_tokens = true.
Proof. vm_compute. reflexivity. Qed.

(* the table half of the lexer link: Lookup of a keyword's spelling is the keyword *)
Lemma keywords_lookup : forallb (fun e => let '(i, _, sp) := e in lookup sp =? i) kw_entries = true.
Proof. vm_compute. reflexivity. Qed.

(* spellings: upper-case ASCII letters (or underscore / digit), at least two bytes *)
Definition kw_byte (b : N) : bool := ((65 <=? b) && (b <=? 90)) || (b =? 95) || ((48 <=? b) && (b <=? 57)).

Lemma keywords_spelling_shape :
  forallb (fun e => let '(_, _, sp) := e in forallb kw_byte sp && Nat.leb 2 (List.length sp) &&
                    negb (match sp with b :: _ => (48 <=? b) && (b <=? 57) | [] => true end)) kw_entries = true.
Proof. vm_compute. reflexivity. Qed.

(* ------------------------------------------------------------------------------------------ *)
(** * The probes *)

Definition p0 : pos := {| p_off := 0; p_line := 0; p_col := 0 |}.
Definition tk (t : N) (v : list N) : item := {| it_tok := t; it_val := v; it_pos := p0; it_quoted := false |}.

Definition s_t : list N := [116].                    (* "t" *)

(* SELECT t.<sp> FROM t *)
Definition probe_dot (k : N) (sp : list N) : list item :=
  [tk T_SELECT (B "SELECT"); tk T_IDENT s_t; tk T_DOT [46]; tk k sp; tk T_FROM (B "FROM"); tk T_IDENT s_t].
(* SELECT 1 AS <sp> *)
Definition probe_alias (k : N) (sp : list N) : list item :=
  [tk T_SELECT (B "SELECT"); tk T_NUMBER [49]; tk T_AS (B "AS"); tk k sp].
(* SELECT 1 FROM t AS <sp> *)
Definition probe_talias (k : N) (sp : list N) : list item :=
  [tk T_SELECT (B "SELECT"); tk T_NUMBER [49]; tk T_FROM (B "FROM"); tk T_IDENT s_t; tk T_AS (B "AS"); tk k sp].

(* parser + printer: (EXPLAIN lines, unconsumed tokens, p.errors) *)
Definition run (ts : list item) : res (list line * list item * list err) :=
  bind (parse_model ts) (fun '(q, rest, es) =>
  bind (print_model q) (fun ls => Ok (ls, rest, es))).

Definition ln (d : nat) (l : list N) (k : option nat) : line := mkLine d l k.

(* the whole expected EXPLAIN text, line by line *)
Definition explain_dot (sp : list N) : list line :=
  [ ln 0 (B "SelectWithUnionQuery") (Some 1%nat)
  ; ln 1 (B "ExpressionList") (Some 1%nat)
  ; ln 2 (B "SelectQuery") (Some 2%nat)
  ; ln 3 (B "ExpressionList") (Some 1%nat)
  ; ln 4 (B "Identifier t." ++ sp) None
  ; ln 3 (B "TablesInSelectQuery") (Some 1%nat)
  ; ln 4 (B "TablesInSelectQueryElement") (Some 1%nat)
  ; ln 5 (B "TableExpression") (Some 1%nat)
  ; ln 6 (B "TableIdentifier t") None ].

Definition explain_alias (sp : list N) : list line :=
  [ ln 0 (B "SelectWithUnionQuery") (Some 1%nat)
  ; ln 1 (B "ExpressionList") (Some 1%nat)
  ; ln 2 (B "SelectQuery") (Some 1%nat)
  ; ln 3 (B "ExpressionList") (Some 1%nat)
  ; ln 4 (B "Literal UInt64_1 (alias " ++ sp ++ B ")") None ].

Definition explain_talias (sp : list N) : list line :=
  [ ln 0 (B "SelectWithUnionQuery") (Some 1%nat)
  ; ln 1 (B "ExpressionList") (Some 1%nat)
  ; ln 2 (B "SelectQuery") (Some 2%nat)
  ; ln 3 (B "ExpressionList") (Some 1%nat)
  ; ln 4 (B "Literal UInt64_1") None
  ; ln 3 (B "TablesInSelectQuery") (Some 1%nat)
  ; ln 4 (B "TablesInSelectQueryElement") (Some 1%nat)
  ; ln 5 (B "TableExpression") (Some 1%nat)
  ; ln 6 (B "TableIdentifier t (alias " ++ sp ++ B ")") None ].

(* ------------------------------------------------------------------------------------------ *)
(** * Evaluation of the model on the probes, token kind by token kind, value abstract *)

(* the statement the raw parser builds for the dotted probe *)
Definition q_dot (sp : list N) : query :=
  Query [Some (Select false [EIdent [s_t; sp] [] false]
                      (Some [TableElem (Some (TSIdent [] s_t)) []]) None [] None [] None None)] [] false.

(* in the shape the model computes the labels (before tidying up with app_nil_r / escape_quotes) *)
Definition explain_dot_raw (sp : list N) : list line :=
  [ ln 0 (B "SelectWithUnionQuery") (Some 1%nat)
  ; ln 1 (B "ExpressionList") (Some 1%nat)
  ; ln 2 (B "SelectQuery") (Some 2%nat)
  ; ln 3 (B "ExpressionList") (Some 1%nat)
  ; ln 4 (B "Identifier t." ++ escape_quotes sp ++ []) None
  ; ln 3 (B "TablesInSelectQuery") (Some 1%nat)
  ; ln 4 (B "TablesInSelectQueryElement") (Some 1%nat)
  ; ln 5 (B "TableExpression") (Some 1%nat)
  ; ln 6 (B "TableIdentifier t") None ].

Definition explain_alias_raw (sp : list N) : list line :=
  [ ln 0 (B "SelectWithUnionQuery") (Some 1%nat)
  ; ln 1 (B "ExpressionList") (Some 1%nat)
  ; ln 2 (B "SelectQuery") (Some 1%nat)
  ; ln 3 (B "ExpressionList") (Some 1%nat)
  ; ln 4 (B "Literal UInt64_1 (alias " ++ escape_quotes sp ++ B ")") None ].

(* the table alias is printed `if n.Alias != ""` *)
Definition explain_talias_raw (sp : list N) : list line :=
  [ ln 0 (B "SelectWithUnionQuery") (Some 1%nat)
  ; ln 1 (B "ExpressionList") (Some 1%nat)
  ; ln 2 (B "SelectQuery") (Some 2%nat)
  ; ln 3 (B "ExpressionList") (Some 1%nat)
  ; ln 4 (B "Literal UInt64_1") None
  ; ln 3 (B "TablesInSelectQuery") (Some 1%nat)
  ; ln 4 (B "TablesInSelectQueryElement") (Some 1%nat)
  ; ln 5 (B "TableExpression") (Some 1%nat)
  ; ln 6 (B "TableIdentifier t" ++ opt_alias_sfx sp) None ].

Definition per_kind (k : N) : Prop :=
  name_tok_ok k = true ->
  forall sp,
    parse_statement_raw (fuel_for (probe_dot k sp)) (mkSt (probe_dot k sp) []) = Ok (Some (q_dot sp), mkSt [] [])
    /\ run (probe_alias k sp) = Ok (explain_alias_raw sp, [], [])
    /\ run (probe_talias k sp) = Ok (explain_talias_raw sp, [], []).

Ltac per_kind_tac :=
  intros Hc sp;
  first [ solve [vm_compute in Hc; discriminate Hc]
        | clear Hc; split; [|split]; vm_compute; reflexivity ].

(* every token number below keyword_end (all others fail name_tok_ok) *)
Definition kinds_below_end : list N := map N.of_nat (seq 0 (N.to_nat T_keyword_end)).

Lemma per_kind_all : Forall per_kind kinds_below_end.
Proof.
  let l := eval vm_compute in kinds_below_end in change kinds_below_end with l.
  repeat (apply Forall_cons; [per_kind_tac|]). apply Forall_nil.
Qed.

Lemma name_tok_ok_below : forall k, name_tok_ok k = true -> In k kinds_below_end.
Proof.
  intros k H. unfold kinds_below_end. apply in_map_iff. exists (N.to_nat k). split.
  - apply Nnat.N2Nat.id.
  - apply in_seq. unfold name_tok_ok, is_keyword, T_IDENT, T_keyword_beg, T_keyword_end in *. lia.
Qed.

Lemma per_kind_generic : forall k, per_kind k.
Proof.
  intros k H. exact (proj1 (Forall_forall _ _) per_kind_all k (name_tok_ok_below k H) H).
Qed.

(* the printer side of the dotted probe: sp enters the printer fragment's identifier test *)
Lemma printable_q_dot : forall sp, later_part_ok sp = true -> printable_query false (q_dot sp) = true.
Proof.
  intros sp H. unfold q_dot.
  cbn [printable_query printable_select printable_expr printable_table parts_ok forallb would_group
       is_nil andb negb length Nat.ltb Nat.leb orb has_mode_transition].
  rewrite H. reflexivity.
Qed.

Lemma print_q_dot : forall sp,
  later_part_ok sp = true -> print_model (Some (q_dot sp)) = Ok (explain_dot_raw sp).
Proof.
  intros sp H. unfold print_model, print_query. rewrite (printable_q_dot sp H).
  vm_compute. reflexivity.
Qed.

Lemma run_probe_dot : forall k sp,
  name_tok_ok k = true -> later_part_ok sp = true ->
  run (probe_dot k sp) = Ok (explain_dot_raw sp, [], []).
Proof.
  intros k sp Hk Hsp. destruct (per_kind_generic k Hk sp) as [Hraw _].
  unfold run, parse_model, parse_model_fuel, parse_statement. rewrite Hraw.
  cbn [bind printer_check errs toks is_nil andb].
  rewrite (printable_q_dot sp Hsp). cbn [negb bind toks errs].
  rewrite (print_q_dot sp Hsp). reflexivity.
Qed.

(* ------------------------------------------------------------------------------------------ *)
(** * Spellings *)

(* no quote, no backslash: escapeAlias is the identity *)
Lemma escape_quotes_id : forall s,
  forallb (fun b => negb (b =? 92) && negb (b =? 39)) s = true -> escape_quotes s = s.
Proof.
  induction s as [|b s IH]; intros H; [reflexivity|].
  cbn [forallb] in H. apply andb_prop in H. destruct H as [Hb Hs].
  apply andb_prop in Hb. destruct Hb as [H1 H2].
  unfold escape_quotes in *. cbn [flat_map].
  destruct (b =? 92); [discriminate|]. destruct (b =? 39); [discriminate|].
  cbn [app]. f_equal. apply IH. exact Hs.
Qed.

(* a spelling sp of a keyword: ASCII upper-casing gives the table entry *)
Definition plain_byte (b : N) : bool :=
  (0 <? b) && (b <? 128) && negb (b =? 92) && negb (b =? 39) && negb (b =? 94).

Lemma spelling_bytes : forall sp spell,
  to_upper sp = spell -> forallb kw_byte spell = true -> forallb plain_byte sp = true.
Proof.
  induction sp as [|b sp IH]; intros spell Hu Hk; [reflexivity|].
  destruct spell as [|c spell]; [discriminate|].
  unfold to_upper in Hu. cbn [map] in Hu. injection Hu as Hc Hrest.
  cbn [forallb] in Hk. apply andb_prop in Hk. destruct Hk as [Hkc Hks].
  cbn [forallb]. rewrite (IH spell Hrest Hks), andb_true_r.
  unfold kw_byte in Hkc. unfold upper_byte in Hc. unfold plain_byte.
  destruct ((97 <=? b) && (b <=? 122)) eqn:E; lia.
Qed.

Lemma forallb_imp {A} (f g : A -> bool) l :
  (forall x, f x = true -> g x = true) -> forallb f l = true -> forallb g l = true.
Proof.
  intros H. induction l as [|a l IH]; [reflexivity|]. cbn [forallb]. intros Hl.
  apply andb_prop in Hl. destruct Hl as [Ha Hl]. rewrite (H a Ha), (IH Hl). reflexivity.
Qed.

Lemma caret_head : forall b (r : list N),
  (match b :: r with 94 :: _ => true | _ => false end) = (b =? 94).
Proof.
  intros b r. destruct (N.eqb_spec b 94) as [->|H]; [reflexivity|].
  destruct b as [|p]; [reflexivity|].
  repeat (destruct p as [p|p|]; try reflexivity).
  all: exfalso; apply H; reflexivity.
Qed.

Lemma plain_part_ok : forall sp, forallb plain_byte sp = true -> later_part_ok sp = true.
Proof.
  intros sp H. unfold later_part_ok, ident_part_ok.
  assert (Hr : forallb (fun b => (0 <? b) && (b <? 128)) sp = true).
  { revert H. apply forallb_imp. unfold plain_byte. intros. lia. }
  rewrite Hr. destruct sp as [|b sp]; [reflexivity|]. rewrite (caret_head b sp).
  cbn [forallb] in H. apply andb_prop in H. destruct H as [Hb _]. unfold plain_byte in Hb.
  cbn [andb]. destruct (b =? 94) eqn:E; [lia|reflexivity].
Qed.

Lemma plain_no_quotes : forall sp,
  forallb plain_byte sp = true -> forallb (fun b => negb (b =? 92) && negb (b =? 39)) sp = true.
Proof. intros sp. apply forallb_imp. unfold plain_byte. intros. lia. Qed.

(* ------------------------------------------------------------------------------------------ *)
(** * T1 (C17-F2) *)

Lemma kw_entry_facts : forall k name spell,
  In (k, name, spell) kw_entries ->
  name_tok_ok k = true /\ lookup spell = k /\ forallb kw_byte spell = true /\ (2 <= List.length spell)%nat.
Proof.
  intros k name spell Hin.
  pose proof (proj1 (forallb_forall _ _) keywords_name_tok_ok k) as H1.
  pose proof (proj1 (forallb_forall _ _) keywords_lookup _ Hin) as H2.
  pose proof (proj1 (forallb_forall _ _) keywords_spelling_shape _ Hin) as H3.
  cbn beta iota in H2, H3.
  repeat split.
  - apply H1. unfold kw_tokens. apply in_map_iff. exists (k, name, spell). split; [reflexivity|exact Hin].
  - apply N.eqb_eq. exact H2.
  - apply andb_prop in H3. destruct H3 as [H3 _]. apply andb_prop in H3. tauto.
  - apply andb_prop in H3. destruct H3 as [H3 _]. apply andb_prop in H3. destruct H3 as [_ H3].
    apply Nat.leb_le. exact H3.
Qed.

(* For every keyword k of the generated table and every spelling sp of it (ASCII upper-casing of sp is
   the table's spelling): the three probe statements, given as token lists, parse with no error, no
   token left, and print exactly the EXPLAIN text with sp as the user wrote it. *)
Theorem c17_keywords_as_names : forall k name spell,
  In (k, name, spell) kw_entries ->
  forall sp, to_upper sp = spell ->
    run (probe_dot k sp) = Ok (explain_dot sp, [], []) /\
    run (probe_alias k sp) = Ok (explain_alias sp, [], []) /\
    run (probe_talias k sp) = Ok (explain_talias sp, [], []).
Proof.
  intros k name spell Hin sp Hu.
  destruct (kw_entry_facts k name spell Hin) as [Hk [_ [Hb Hl]]].
  pose proof (spelling_bytes sp spell Hu Hb) as Hpl.
  pose proof (plain_part_ok sp Hpl) as Hp.
  pose proof (escape_quotes_id sp (plain_no_quotes sp Hpl)) as He.
  destruct (per_kind_generic k Hk sp) as [_ [Ha Ht]].
  split; [|split].
  - rewrite (run_probe_dot k sp Hk Hp). unfold explain_dot_raw, explain_dot.
    rewrite He, app_nil_r. reflexivity.
  - rewrite Ha. unfold explain_alias_raw, explain_alias. rewrite He. reflexivity.
  - rewrite Ht. unfold explain_talias_raw, explain_talias.
    destruct sp as [|b sp]; [|reflexivity].
    subst spell. cbn in Hl. lia.
Qed.

(* the generic form: any token kind passing the side condition, any value (the dotted probe needs the
   printer fragment's identifier bytes); the value is copied, escaped as escapeAlias does *)
Theorem name_positions_generic : forall k sp,
  name_tok_ok k = true ->
    (later_part_ok sp = true -> run (probe_dot k sp) = Ok (explain_dot_raw sp, [], [])) /\
    run (probe_alias k sp) = Ok (explain_alias_raw sp, [], []) /\
    run (probe_talias k sp) = Ok (explain_talias_raw sp, [], []).
Proof.
  intros k sp Hk. destruct (per_kind_generic k Hk sp) as [_ [Ha Ht]].
  split; [|split]; [intros Hp; apply run_probe_dot; assumption|exact Ha|exact Ht].
Qed.

(* ------------------------------------------------------------------------------------------ *)
(** * Lexer link: read_identifier on an ASCII word *)


Definition word_byte (b : N) : bool :=
  ((48 <=? b) && (b <=? 57)) || ((65 <=? b) && (b <=? 90)) || ((97 <=? b) && (b <=? 122)) || (b =? 95).
Definition start_byte (b : N) : bool :=
  ((65 <=? b) && (b <=? 90)) || ((97 <=? b) && (b <=? 122)) || (b =? 95).

Local Notation plex := (@lex (list N)).
Local Notation rc := (read_char pure_stream).

Lemma word_byte_lt : forall b, word_byte b = true -> b < 128.
Proof. unfold word_byte. intros. lia. Qed.

Lemma encode_ascii : forall b, b < 128 -> encode_rune b = [b].
Proof. intros b H. unfold encode_rune. destruct (N.ltb_spec b 128); [reflexivity|lia]. Qed.

Lemma word_byte_ident_char : forall b, word_byte b = true -> is_ident_char b = true.
Proof.
  intros b H. pose proof (word_byte_lt b H) as Hlt.
  unfold is_ident_char, Unicode.is_letter, Unicode.is_digit, rng. unfold word_byte in H.
  replace (b <? 128) with true by lia. cbv iota. lia.
Qed.

Lemma upper_ascii : forall b, b < 128 -> Unicode.to_upper b = upper_byte b.
Proof.
  intros b H. unfold Unicode.to_upper, upper_byte, rng. destruct (N.ltb_spec b 128); [reflexivity|lia].
Qed.

Lemma upper_byte_lt : forall b, b < 128 -> upper_byte b < 128.
Proof. intros b H. unfold upper_byte. destruct ((97 <=? b) && (b <=? 122)); lia. Qed.

Lemma flat_encode_ascii : forall w, forallb word_byte w = true -> flat_map encode_rune w = w.
Proof.
  induction w as [|b w IH]; intros H; [reflexivity|].
  cbn [forallb] in H. apply andb_prop in H. destruct H as [Hb Hw].
  cbn [flat_map]. rewrite (encode_ascii b (word_byte_lt b Hb)), (IH Hw). reflexivity.
Qed.

Lemma upper_bytes_ascii : forall w, forallb word_byte w = true -> upper_bytes w = to_upper w.
Proof.
  induction w as [|b w IH]; intros H; [reflexivity|].
  cbn [forallb] in H. apply andb_prop in H. destruct H as [Hb Hw].
  unfold upper_bytes, to_upper in *. cbn [flat_map map].
  pose proof (word_byte_lt b Hb) as Hlt.
  rewrite (upper_ascii b Hlt), (encode_ascii _ (upper_byte_lt b Hlt)), (IH Hw). reflexivity.
Qed.

(* readChar on the pure stream with an ASCII byte next *)
Lemma rc_ascii : forall (l : plex) b r,
  l_eof l = false -> l_src l = b :: r -> b < 128 ->
  l_src (rc l) = r /\ l_ch (rc l) = b /\ l_eof (rc l) = false.
Proof.
  intros l b r He Hs Hb. unfold read_char. rewrite He, Hs.
  cbn [s_read_rune pure_stream pure_read_rune]. unfold decode_rune.
  destruct (N.ltb_spec b 128) as [_|]; [|lia]. cbn [skipn]. repeat split.
Qed.

(* readChar at the end of the input *)
Lemma rc_end : forall (l : plex),
  l_eof l = false -> l_src l = [] -> l_ch (rc l) = 0 /\ l_eof (rc l) = true.
Proof.
  intros l He Hs. unfold read_char. rewrite He, Hs. cbn [s_read_rune pure_stream pure_read_rune]. split; reflexivity.
Qed.

(* what may follow the word: the end of the input or an ASCII byte that is no identifier character *)
Definition tail_stops (tail : list N) : Prop :=
  match tail with
  | [] => True
  | b :: _ => b < 128 /\ is_ident_char b = false
  end.

Lemma take_ident_word : forall w (l : plex) rs tail fuel,
  l_eof l = false -> is_ident_char (l_ch l) = true -> l_src l = w ++ tail ->
  forallb word_byte w = true -> tail_stops tail -> (List.length w + 2 <= fuel)%nat ->
  exists l', take_ident_runes pure_stream fuel (l, rs) = Some (l', rev w ++ l_ch l :: rs).
Proof.
  induction w as [|b w IH]; intros l rs tail fuel He Hc Hs Hw Ht Hf.
  - destruct fuel as [|[|f]]; [cbn in Hf; lia|cbn in Hf; lia|].
    unfold take_ident_runes. cbn [loop]. rewrite Hc.
    cbn [app] in Hs.
    destruct tail as [|b t].
    + destruct (rc_end l He Hs) as [H0 _]. rewrite H0.
      replace (is_ident_char 0) with false by (vm_compute; reflexivity).
      eexists. reflexivity.
    + destruct Ht as [Hb Hn]. destruct (rc_ascii l b t He Hs Hb) as [_ [Hch _]].
      rewrite Hch, Hn. eexists. reflexivity.
  - destruct fuel as [|f]; [cbn in Hf; lia|].
    cbn [forallb] in Hw. apply andb_prop in Hw. destruct Hw as [Hb Hw].
    unfold take_ident_runes. cbn [loop]. rewrite Hc.
    cbn [app] in Hs.
    destruct (rc_ascii l b (w ++ tail) He Hs (word_byte_lt b Hb)) as [Hs1 [Hch1 He1]].
    assert (Hf' : (List.length w + 2 <= f)%nat) by (cbn [List.length] in Hf; lia).
    destruct (IH (rc l) (l_ch l :: rs) tail f He1
                 ltac:(rewrite Hch1; apply word_byte_ident_char; exact Hb) Hs1 Hw Ht Hf') as [l' Hl'].
    unfold take_ident_runes in Hl'. rewrite Hl'. rewrite Hch1. exists l'.
    cbn [rev]. rewrite <- app_assoc. reflexivity.
Qed.

Lemma peek_char_ascii : forall (l : plex) b r,
  l_eof l = false -> l_src l = b :: r -> b < 128 -> fst (peek_char pure_stream l) = b.
Proof.
  intros l b r He Hs Hb. unfold peek_char. rewrite He, Hs.
  cbn [s_peek pure_stream pure_peek Nat.min bufio_size firstn]. unfold decode_rune.
  destruct (N.ltb_spec b 128) as [_|]; [reflexivity|lia].
Qed.

Lemma peek_char_same : forall (l : plex), snd (peek_char pure_stream l) = l.
Proof. exact LexerTotal.peek_char_st. Qed.

(* readIdentifier on a word of at least two ASCII word bytes (so that x'..' / b'..' literals are
   excluded by the second byte): kind = Lookup(ASCII upper-casing), Value = the word as written *)
Lemma read_identifier_ascii_word : forall c0 b1 w (l : plex) tail fuel,
  l_eof l = false -> l_ch l = c0 -> l_src l = (b1 :: w) ++ tail ->
  start_byte c0 = true -> forallb word_byte (b1 :: w) = true -> tail_stops tail ->
  (List.length w + 4 <= fuel)%nat ->
  exists l', read_identifier pure_stream fuel l =
             Some (mk_item (lookup (to_upper (c0 :: b1 :: w))) (c0 :: b1 :: w) (l_pos l) false, l').
Proof.
  intros c0 b1 w l tail fuel He Hc Hs H0 Hw Ht Hf.
  assert (Hw0 : word_byte c0 = true) by (unfold start_byte in H0; unfold word_byte; lia).
  assert (Hb1 : word_byte b1 = true).
  { cbn [forallb] in Hw. apply andb_prop in Hw. tauto. }
  assert (Hpk : fst (peek_char pure_stream l) = b1).
  { apply (peek_char_ascii l b1 (w ++ tail) He Hs (word_byte_lt b1 Hb1)). }
  assert (Hq : (b1 =? 39) = false) by (unfold word_byte in Hb1; lia).
  unfold read_identifier. rewrite Hc.
  assert (Hsel : (let '(pk, l0) := if (c0 =? 120) || (c0 =? 88) || (c0 =? 98) || (c0 =? 66)
                                   then peek_char pure_stream l else (0, l) in
                  (pk =? 39) = false /\ l0 = l)).
  { destruct ((c0 =? 120) || (c0 =? 88) || (c0 =? 98) || (c0 =? 66)).
    - rewrite (surjective_pairing (peek_char pure_stream l)), Hpk, peek_char_same. split; [exact Hq|reflexivity].
    - split; reflexivity. }
  destruct (if (c0 =? 120) || (c0 =? 88) || (c0 =? 98) || (c0 =? 66)
            then peek_char pure_stream l else (0, l)) as [pk l0].
  destruct Hsel as [Hpk39 ->]. rewrite Hpk39, !andb_false_r.
  destruct (take_ident_word (b1 :: w) l [] tail fuel He
              ltac:(rewrite Hc; apply word_byte_ident_char; exact Hw0) Hs Hw Ht
              ltac:(cbn [List.length]; lia)) as [l' Hl'].
  rewrite Hl'. cbn [LexerModel.bind]. exists l'.
  unfold frev. rewrite rev_append_rev, app_nil_r, rev_app_distr, rev_involutive, Hc. cbn [rev app].
  assert (Hall : forallb word_byte (c0 :: b1 :: w) = true) by (cbn [forallb] in *; rewrite Hw0; exact Hw).
  rewrite (flat_encode_ascii _ Hall), (upper_bytes_ascii _ Hall). reflexivity.
Qed.

Lemma kw_byte_word : forall b, kw_byte (upper_byte b) = true -> word_byte b = true.
Proof.
  intros b. unfold kw_byte, upper_byte, word_byte.
  destruct ((97 <=? b) && (b <=? 122)) eqn:E; lia.
Qed.

Lemma kw_bytes_word : forall sp, forallb kw_byte (to_upper sp) = true -> forallb word_byte sp = true.
Proof.
  induction sp as [|b sp IH]; [reflexivity|]. unfold to_upper in *. cbn [map forallb]. intros H.
  apply andb_prop in H. destruct H as [Hb Hs]. rewrite (kw_byte_word b Hb), (IH Hs). reflexivity.
Qed.

(* the lexer link of C17-F2: a source word whose ASCII upper-casing is the spelling of keyword k,
   followed by the end of the input or an ASCII non-identifier byte, is read by readIdentifier as the
   token k with Value = the user's spelling.  [l] is the lexer positioned on the first byte. *)
Theorem lexer_keyword_spelling : forall k name spell,
  In (k, name, spell) kw_entries ->
  forall c0 rest (l : plex) tail fuel,
    to_upper (c0 :: rest) = spell ->
    l_eof l = false -> l_ch l = c0 -> l_src l = rest ++ tail -> tail_stops tail ->
    (List.length rest + 3 <= fuel)%nat ->
    exists l', read_identifier pure_stream fuel l = Some (mk_item k (c0 :: rest) (l_pos l) false, l').
Proof.
  intros k name spell Hin c0 rest l tail fuel Hu He Hc Hs Ht Hf.
  destruct (kw_entry_facts k name spell Hin) as [_ [Hlk [Hb Hlen]]].
  pose proof (proj1 (forallb_forall _ _) keywords_spelling_shape _ Hin) as Hshape.
  cbn beta iota in Hshape. apply andb_prop in Hshape. destruct Hshape as [_ Hnd].
  subst spell.
  pose proof (kw_bytes_word _ Hb) as Hw.
  destruct rest as [|b1 w].
  { unfold to_upper in Hlen. cbn in Hlen. lia. }
  assert (H0 : start_byte c0 = true).
  { unfold to_upper in Hb, Hnd. cbn [map forallb] in Hb, Hnd. apply andb_prop in Hb. destruct Hb as [Hb0 _].
    unfold kw_byte in Hb0. unfold start_byte. unfold upper_byte in *.
    destruct ((97 <=? c0) && (c0 <=? 122)) eqn:E; lia. }
  cbn [forallb] in Hw. apply andb_prop in Hw. destruct Hw as [_ Hw].
  destruct (read_identifier_ascii_word c0 b1 w l tail fuel He Hc Hs H0 Hw Ht
              ltac:(cbn [List.length] in Hf; lia)) as [l' Hl'].
  exists l'. rewrite Hl', Hlk. reflexivity.
Qed.
