(* C07, fragment layer -- the SELECT-core query parser stops at a closing parenthesis exactly as at
   the end of input.

   Simulation of a run of the parser model on  toks ++ rest  (rest starts with an RPAREN token) by
   the run on  toks  alone (the end of the list is EOF), for parseSelectWithUnion and everything
   below it (all mutually recursive functions of Select/SelectParseModel.v).  It is the C06
   simulation (Select/SelectCoreDelim.v, rest starting with SEMICOLON) with a different invariant,
   because RPAREN is NOT treated like EOF everywhere:

   Invariant.  States are related by
       Strong s s'  :=  toks s' = toks s ++ rest  /\  errs s = []  /\  errs s' = []  /\  nt (toks s)
   and results by
       simres r r'  :=  when r = Ok (x, s):   errs s <> []            (the short run has failed: no claim)
                                           \/  r' = OutOfFuel
                                           \/  r' = Ok (x, s') with Strong s s'.
   The relation is only kept while the short run is error-free: `expect(RPAREN)` at the end of the
   short input fails in the short run and SUCCEEDS in the long run (it consumes the parenthesis
   that belongs to the embedding), so the runs diverge -- legitimately, since the short run is then
   not an accepted query.  That the short run cannot recover is SelectCoreErrs ([pers]: p.errors
   only grows); it discharges the third premise of [simres_bind].  Independent fuels as in C06.

   What happens at the end of the short list (case toks s = [], cur = EOF vs RPAREN):
     * isClauseKeyword lists both; the Pratt loop stops at EOF explicitly and at RPAREN because its
       precedence is LOWEST; parseExpressionList / parseFunctionArgumentList test both; the
       qualified-name loop, parseAlias, parseDotAccess, parseImplicitAlias, isKeywordForClause and
       every clause test of parseSelect name tokens that are neither.
     * `cur_is RPAREN` with a different continuation -- parseFunctionCall / parseKeywordAsFunction
       ("f(" at the end: argument list parsed vs skipped, both empty), parseGroupedOrTuple ("(" at
       the end: nil expression vs the empty tuple) -- and the peek tests `!peekIs(RPAREN)` after
       DISTINCT / ALL in a call ("f(ALL" at the end): in each case the short run goes on to fail its
       expect(RPAREN) ([short_run] cases).
     * THE EXCEPTION: isClauseKeyword (expression.go:208-235), standing on WHERE / GROUP / HAVING /
       ORDER / LIMIT (and INTO / SETTINGS / FORMAT), answers "not a clause keyword" when the NEXT
       token is RPAREN -- so that `f(a, limit)` works -- but "clause keyword" when the next token is
       EOF.  parseExpressionList asks it after a comma.  Hence  SELECT a, limit  alone is a query
       with ONE column and no LIMIT expression, accepted without error, and inside parentheses
       ( SELECT a, limit )  it has TWO columns.  The side condition [nt]: the token list does not end
       with a comma followed by one of these eight keywords.  Real (replayed on the Go code);
       witnesses in Select/SelectCoreEmbed.v. *)
From Coq Require Import List NArith Arith Bool String Lia ZifyN ZifyNat ZifyBool.
From DC Require Import Base.Item Gen.TokenTable.
From DC Require Import Select.SelectParseModel Select.SelectCoreFuel Select.SelectCoreErrs.
Import ListNotations.
Local Open Scope N_scope.

(* ------------------------------------------------------------------------------------------ *)
(** * The side condition *)

(* the clause keywords for which isClauseKeyword looks at the NEXT token *)
Definition clause_kws : list N :=
  [T_WHERE; T_GROUP; T_HAVING; T_ORDER; T_LIMIT; T_INTO; T_SETTINGS; T_FORMAT].

(* the token list ends with  , <clause keyword>  *)
Fixpoint comma_kw_tail (l : list item) : bool :=
  match l with
  | [] => false
  | c :: r =>
      match r with
      | [k] => (it_tok c =? T_COMMA) && tok_in (it_tok k) clause_kws
      | _ => comma_kw_tail r
      end
  end.

Definition nt (l : list item) : Prop := comma_kw_tail l = false.

Lemma nt_nil : nt [].
Proof. reflexivity. Qed.

Lemma nt_tl : forall x l, nt (x :: l) -> nt l.
Proof.
  intros x l H. destruct l as [|a [|b r]]; try reflexivity. exact H.
Qed.

Lemma nt_comma_kw : forall c k, nt [c; k] -> (it_tok c =? T_COMMA) = true ->
  tok_in (it_tok k) [T_WHERE; T_GROUP; T_HAVING; T_ORDER; T_LIMIT] = false /\
  tok_in (it_tok k) [T_INTO; T_SETTINGS; T_FORMAT] = false.
Proof.
  intros c k H Hc. unfold nt in H. cbn [comma_kw_tail] in H. rewrite Hc in H. cbn [andb] in H.
  unfold tok_in, clause_kws in *. cbn [existsb] in *.
  repeat match type of H with
         | (?a || _) = false => destruct a eqn:?; [discriminate H|cbn [orb] in H]
         end.
  split; reflexivity.
Qed.

Lemma dotted_loop_nt : forall json l parts, nt l ->
  match dotted_loop json parts l with
  | DParts _ r => nt r
  | DAsterisk _ r => nt r
  | DOof _ => True
  end.
Proof.
  intros json l.
  assert (H : forall n l parts, (List.length l <= n)%nat -> nt l ->
              match dotted_loop json parts l with
              | DParts _ r => nt r | DAsterisk _ r => nt r | DOof _ => True end).
  { induction n as [|n IH]; intros l0 parts Hn Hl.
    - destruct l0; [exact Hl|cbn in Hn; lia].
    - destruct l0 as [|d l1]; [exact Hl|]. cbn [dotted_loop].
      destruct (it_tok d =? T_DOT); [|exact Hl]. apply nt_tl in Hl. destruct l1 as [|x l2]; [exact Hl|].
      destruct (json && (it_tok x =? T_CARET)); [exact I|].
      destruct (json && (it_tok x =? T_COLON)); [exact I|].
      destruct ((it_tok x =? T_IDENT) || is_keyword (it_tok x)).
      + apply IH; [cbn [List.length] in Hn; lia|]. apply nt_tl in Hl. exact Hl.
      + destruct (it_tok x =? T_ASTERISK); [apply nt_tl in Hl; exact Hl|exact Hl]. }
  intros parts. apply (H (List.length l)). lia.
Qed.

(* ------------------------------------------------------------------------------------------ *)
(** * The simulation *)

Section Close.

  Variable rest : list item.
  Hypothesis Hrest : tok_at rest = T_RPAREN.

  (* related states: same position, no error on either side, the side condition on what is left *)
  Definition Strong (s s' : st) : Prop :=
    toks s' = toks s ++ rest /\ errs s = [] /\ errs s' = [] /\ nt (toks s).

  Definition simres {X} (r r' : res (X * st)) : Prop :=
    match r with
    | Ok (x, s) =>
        errs s <> [] \/
        match r' with
        | Ok (x', s') => x' = x /\ Strong s s'
        | OutOfFuel => True
        | _ => False
        end
    | _ => True
    end.

  Lemma simres_oof : forall X (r : res (X * st)), simres r OutOfFuel.
  Proof. intros X [[x s]|p|o|]; cbn; auto. Qed.

  Lemma simres_of_pers : forall X (r r' : res (X * st)), pers r -> simres r r'.
  Proof. intros X [[x s]|p|o|] r' H; cbn in *; auto. Qed.

  Lemma simres_bind {X Y} (r r' : res (X * st)) (k k' : X * st -> res (Y * st)) :
    simres r r' ->
    (forall x s s', Strong s s' -> simres (k (x, s)) (k' (x, s'))) ->
    (forall x s, errs s <> [] -> pers (k (x, s))) ->
    simres (bind r k) (bind r' k').
  Proof.
    destruct r as [[x s]|p|o|]; try (intros; exact I).
    cbn [simres bind]. intros [He|H] Hk Hp.
    - apply simres_of_pers. apply Hp. exact He.
    - destruct r' as [[x' s']|p'|o'|]; try contradiction.
      + destruct H as [-> H]. cbn [bind]. apply Hk. exact H.
      + apply simres_oof.
  Qed.

  Lemma ltb_zero : forall p : N, (p <? 0) = false.
  Proof. intros p. apply N.ltb_ge. lia. Qed.

  (* ---------------------------------------------------------------------------------------- *)
  (** symbolic execution of the two runs side by side *)

  Definition dext (r : dotted_result) : dotted_result :=
    match r with
    | DParts p r0 => DParts p (r0 ++ rest)
    | DAsterisk t r0 => DAsterisk t (r0 ++ rest)
    | DOof o => DOof o
    end.

  Ltac acc_cbn :=
    cbv beta zeta delta [cur_is peek_is peek2_is cur_kw cur_tok cur_val peek_tok peek2_tok next add_err];
    cbn [toks errs tok_at val_at tl app bind fst snd andb orb negb dext].

  Ltac expose1 :=
    match goal with
    | |- context[tok_at (?l ++ rest)] => is_var l; destruct l as [|? ?]
    | |- context[val_at (?l ++ rest)] => is_var l; destruct l as [|? ?]
    | |- context[tl (?l ++ rest)] => is_var l; destruct l as [|? ?]
    end.

  (* tests on the two end markers *)
  Ltac ev_closed :=
    repeat match goal with
           | |- context[N.eqb T_EOF ?b] =>
               let v := eval vm_compute in (N.eqb T_EOF b) in
               lazymatch v with true => idtac | false => idtac end; change (N.eqb T_EOF b) with v
           | |- context[N.eqb T_RPAREN ?b] =>
               let v := eval vm_compute in (N.eqb T_RPAREN b) in
               lazymatch v with true => idtac | false => idtac end; change (N.eqb T_RPAREN b) with v
           | |- context[tok_in T_EOF ?l] =>
               let v := eval vm_compute in (tok_in T_EOF l) in
               lazymatch v with true => idtac | false => idtac end; change (tok_in T_EOF l) with v
           | |- context[tok_in T_RPAREN ?l] =>
               let v := eval vm_compute in (tok_in T_RPAREN l) in
               lazymatch v with true => idtac | false => idtac end; change (tok_in T_RPAREN l) with v
           | |- context[is_keyword T_EOF] => change (is_keyword T_EOF) with false
           | |- context[is_keyword T_RPAREN] => change (is_keyword T_RPAREN) with false
           end.

  Ltac head_of t :=
    lazymatch t with
    | bind ?r _ => head_of r
    | (if ?c then _ else _) => head_of c
    | (match ?x with _ => _ end) => head_of x
    | _ => t
    end.

  Ltac expose_head :=
    lazymatch goal with
    | |- simres _ ?b =>
        let h := head_of b in
        match h with
        | context[tok_at (?l ++ rest)] => is_var l; destruct l as [|? ?]
        | context[val_at (?l ++ rest)] => is_var l; destruct l as [|? ?]
        | context[tl (?l ++ rest)] => is_var l; destruct l as [|? ?]
        end
    end.

  Ltac end_eval := repeat (progress (rewrite ?Hrest; ev_closed; acc_cbn)).

  Ltac norm :=
    cbv beta zeta; acc_cbn; end_eval;
    repeat (expose_head; acc_cbn; end_eval).

  Ltac cond_eq :=
    acc_cbn; end_eval; repeat (expose1; acc_cbn; end_eval); reflexivity.

  Lemma simres_if_oof {X} (c c' : bool) (o o' : oof) (B B' : res (X * st)) :
    c' = c -> simres B B' ->
    simres (if c then OutOfFragment o else B) (if c' then OutOfFragment o' else B').
  Proof. intros -> H. destruct c; [exact I|exact H]. Qed.

  Ltac nt_basic :=
    cbn [tl toks];
    repeat first [ assumption | exact nt_nil
                 | match goal with H : nt (_ :: _) |- _ => apply nt_tl in H end ].

  Ltac nt_solve :=
    first [ solve [nt_basic]
          | match goal with
            | Ed : dotted_loop ?j ?p ?l = _ |- nt _ =>
                let H := fresh in
                assert (H : nt l) by nt_basic; apply (dotted_loop_nt j l p) in H; rewrite Ed in H; exact H
            end ].

  Ltac strong_solve :=
    split; [cbn [toks]; reflexivity|split; [reflexivity|split; [reflexivity|cbn [toks]; nt_solve]]].

  Ltac destruct_pairs :=
    repeat match goal with
           | x : (_ * _)%type |- _ => destruct x
           end.

  Ltac intro_cont :=
    let x := fresh "x" in let s := fresh "s" in let s' := fresh "s" in let HR := fresh "HR" in
    let l := fresh "l" in let e := fresh "e" in let l' := fresh "l" in let e' := fresh "e" in
    let Hl := fresh "Hl" in let He := fresh "He" in let He' := fresh "He" in let Hnt := fresh "Hnt" in
    intros x s s' HR; destruct s as [l e], s' as [l' e'], HR as (Hl & He & He' & Hnt);
    cbn [toks errs] in Hl, He, He', Hnt; subst l' e e'; destruct_pairs.

  (* the third premise of simres_bind: the continuation keeps an error *)
  Ltac pers_cont :=
    let x := fresh "x" in let s := fresh "s" in let Hs := fresh "Hs" in
    intros x s Hs; destruct_pairs; solve [pers_auto].

  Ltac sim_call := fail.
  Ltac hyp_call :=
    match goal with
    | H : context[simres] |- simres _ _ => eapply H; solve [strong_solve | discriminate | eassumption]
    end.

  Ltac is_state_res r :=
    let t := type of r in
    let t' := eval cbv delta [R] beta in t in
    lazymatch t' with res (_ * st) => idtac end.

  Ltac expose_in c :=
    match c with
    | context[tok_at (?l ++ rest)] => is_var l; destruct l as [|? ?]
    | context[val_at (?l ++ rest)] => is_var l; destruct l as [|? ?]
    | context[tl (?l ++ rest)] => is_var l; destruct l as [|? ?]
    end.

  Ltac state_if :=
    lazymatch goal with
    | |- simres _ ?B =>
        match B with
        | context[if ?c then ?a else _] =>
            let t := type of a in lazymatch t with st => idtac end;
            first [expose_in c | destruct c eqn:?]
        end
    end.

  Ltac in_long h :=
    lazymatch goal with
    | |- simres _ ?b => lazymatch b with context[h] => idtac | _ => fail "the runs test different things" end
    end.

  (* the short run already has an error: nothing is claimed, provided it keeps it *)
  Ltac short_failed :=
    lazymatch goal with
    | |- simres (Ok (_, mkSt _ (_ :: _))) _ => left; discriminate
    | |- simres ?A _ =>
        let h := head_of A in
        lazymatch h with
        | context[mkSt _ (_ :: _)] => apply simres_of_pers; solve [pers_auto]
        end
    end.

  Ltac sim_step :=
    cbv beta zeta;
    first [ (lazymatch goal with
             | |- simres (if _ then OutOfFragment _ else _) (if _ then OutOfFragment _ else _) => idtac
             end; apply simres_if_oof; [solve [cond_eq]|]) | norm;
    first [ short_failed | state_if |
    lazymatch goal with
    | |- simres (Ok (_, mkSt _ [])) (Ok _) => right; split; [reflexivity | strong_solve]
    | |- simres (OutOfFragment _) _ => exact I
    | |- simres (Panic _) _ => exact I
    | |- simres OutOfFuel _ => exact I
    | |- simres (bind ?r _) (bind _ _) =>
        tryif is_state_res r
        then (apply simres_bind; [|intro_cont|pers_cont])
        else (let h := head_of r in in_long h; destruct h eqn:?)
    | |- simres ?a _ =>
        let h := head_of a in
        tryif constr_eq h a then first [hyp_call | sim_call] else (in_long h; destruct h eqn:?)
    end ] ].

  Ltac sim_auto := repeat sim_step.

  Ltac start :=
    let l := fresh "l" in let e := fresh "e" in let l' := fresh "l" in let e' := fresh "e" in
    let Hl := fresh "Hl" in let He := fresh "He" in let He' := fresh "He" in let Hnt := fresh "Hnt" in
    intros [l e] [l' e'] (Hl & He & He' & Hnt); cbn [toks errs] in Hl, He, He', Hnt; subst l' e e'.

  Notation PEsim pe pe' := (forall prec s s', Strong s s' -> simres (pe prec s) (pe' prec s')).
  Notation PSUsim psu psu' := (forall s s', Strong s s' -> simres (psu s) (psu' s')).
  (* parseExpression at the end of the short input returns nil and stays *)
  Notation PEnil pe :=
    (forall prec e, pe prec (mkSt [] e) = OutOfFuel \/ pe prec (mkSt [] e) = Ok (None, mkSt [] e)).

  Ltac nonempty l Hne := destruct l as [|? ?]; [exfalso; apply Hne; reflexivity|]; clear Hne.

  (* ---- helpers without recursion ---- *)

  Lemma parse_alias_sim : forall left s s', Strong s s' -> toks s <> [] ->
    simres (parse_alias left s) (parse_alias left s').
  Proof.
    intros left. start. intros Hne. nonempty l Hne.
    unfold parse_alias, set_alias, ret. sim_auto.
  Qed.

  Lemma parse_implicit_alias_sim : forall e s s', Strong s s' ->
    simres (parse_implicit_alias e s) (parse_implicit_alias e s').
  Proof.
    intros e0. start. unfold parse_implicit_alias, set_alias, ret. sim_auto.
  Qed.

  Ltac sim_call ::=
    first [ eapply parse_implicit_alias_sim; solve [strong_solve]
          | eapply parse_alias_sim; solve [strong_solve | discriminate] ].

  (* ---- the comma loops ---- *)

  (* isClauseKeyword on the LAST token of the short input looks at the token behind it: EOF in the
     short run, the closing parenthesis in the long run.  The side condition excludes it. *)
  Ltac clause_kw_peek :=
    match goal with
    | Hnt : nt (?c :: ?k :: ?l), Hc : (it_tok ?c =? T_COMMA) = true |- _ =>
        destruct l as [|? ?];
        [ exfalso; destruct (nt_comma_kw c k Hnt Hc) as [H1 H2]; congruence
        | sim_auto ]
    end.

  Lemma expr_list_loop_sim : forall pe pe', PEsim pe pe' -> PEpers pe ->
    forall fuel fuel' acc s s', Strong s s' ->
    simres (expr_list_loop pe fuel acc s) (expr_list_loop pe' fuel' acc s').
  Proof.
    intros pe pe' Hpe Hpp. induction fuel as [|f IH]; intros fuel' acc; [intros; exact I|].
    destruct fuel' as [|f']; [intros; apply simres_oof|]. start.
    cbn [expr_list_loop]. unfold is_clause_keyword, ret. sim_auto; clause_kw_peek.
  Qed.

  Lemma parse_expression_list_sim : forall pe pe', PEsim pe pe' -> PEpers pe ->
    forall fuel fuel' s s', Strong s s' ->
    simres (parse_expression_list pe fuel s) (parse_expression_list pe' fuel' s').
  Proof.
    intros pe pe' Hpe Hpp fuel fuel'. start. unfold parse_expression_list, ret.
    sim_auto; (eapply expr_list_loop_sim; [exact Hpe|exact Hpp|strong_solve]).
  Qed.

  Lemma arg_list_loop_sim : forall pe pe', PEsim pe pe' -> PEpers pe ->
    forall fuel fuel' acc s s', Strong s s' ->
    simres (arg_list_loop pe fuel acc s) (arg_list_loop pe' fuel' acc s').
  Proof.
    intros pe pe' Hpe Hpp. induction fuel as [|f IH]; intros fuel' acc; [intros; exact I|].
    destruct fuel' as [|f']; [intros; apply simres_oof|]. start.
    cbn [arg_list_loop]. unfold settings_clause, ret. sim_auto.
  Qed.

  Lemma parse_function_argument_list_sim : forall pe pe', PEsim pe pe' -> PEpers pe ->
    forall fuel fuel' s s', Strong s s' ->
    simres (parse_function_argument_list pe fuel s) (parse_function_argument_list pe' fuel' s').
  Proof.
    intros pe pe' Hpe Hpp fuel fuel'. start. unfold parse_function_argument_list, settings_clause, ret.
    sim_auto; (eapply arg_list_loop_sim; [exact Hpe|exact Hpp|strong_solve]).
  Qed.

  Ltac sim_call ::=
    first [ eapply parse_implicit_alias_sim; solve [strong_solve]
          | eapply parse_alias_sim; solve [strong_solve | discriminate]
          | eapply expr_list_loop_sim; [eassumption|eassumption|solve [strong_solve]]
          | eapply arg_list_loop_sim; [eassumption|eassumption|solve [strong_solve]]
          | eapply parse_expression_list_sim; [eassumption|eassumption|solve [strong_solve]]
          | eapply parse_function_argument_list_sim; [eassumption|eassumption|solve [strong_solve]] ].

  (* ---- function calls and prefix parsers ---- *)

  Lemma pfal_nil : forall pe fuel e,
    parse_function_argument_list pe fuel (mkSt [] e) = Ok ([], mkSt [] e).
  Proof. reflexivity. Qed.

  Lemma pel_nil : forall pe fuel e, parse_expression_list pe fuel (mkSt [] e) = Ok ([], mkSt [] e).
  Proof. reflexivity. Qed.

  (* the short run alone, at the end of its input: it runs into an error (or leaves the fragment) *)
  Ltac short_step :=
    norm;
    lazymatch goal with
    | |- simres (Ok (_, mkSt _ (_ :: _))) _ => left; discriminate
    | |- simres (OutOfFragment _) _ => exact I
    | |- simres (Panic _) _ => exact I
    | |- simres OutOfFuel _ => exact I
    | |- simres ?A _ =>
        let h := head_of A in
        lazymatch h with
        | context[mkSt _ (_ :: _)] => apply simres_of_pers; solve [pers_auto]
        | parse_function_argument_list _ _ (mkSt [] _) => rewrite pfal_nil
        | parse_expression_list _ _ (mkSt [] _) => rewrite pel_nil
        | ?pe ?prec (mkSt [] ?e) =>
            match goal with
            | Hn : forall p e0, pe p (mkSt [] e0) = OutOfFuel \/ _ |- _ => destruct (Hn prec e) as [-> | ->]
            end
        | _ => destruct h eqn:?
        end
    end.
  Ltac short_run := repeat short_step.

  Lemma parse_function_call_sim : forall pe pe', PEsim pe pe' -> PEpers pe ->
    forall fuel fuel' name s s', Strong s s' -> toks s <> [] ->
    simres (parse_function_call pe fuel name s) (parse_function_call pe' fuel' name s').
  Proof.
    intros pe pe' Hpe Hpp fuel fuel' name. start. intros Hne. nonempty l Hne.
    unfold parse_function_call, settings_clause, expect, ret.
    destruct l as [|x [|y l]].
    - short_run.
    - norm. destruct (it_tok x =? T_DISTINCT) eqn:Edis; [exact I|].
      destruct (it_tok x =? T_ALL) eqn:Eall.
      + short_run.
      + sim_auto.
    - sim_auto.
  Qed.

  Lemma rest_cons : exists rp r', rest = rp :: r' /\ it_tok rp = T_RPAREN.
  Proof.
    pose proof Hrest as H. destruct rest as [|rp r']; [discriminate H|]. exists rp, r'. split; [reflexivity|exact H].
  Qed.

  (* the qualified-name loop never steps over the closing parenthesis *)
  Lemma dotted_loop_ext : forall json l parts,
    dotted_loop json parts (l ++ rest) = dext (dotted_loop json parts l).
  Proof.
    intros json l. destruct rest_cons as (rp & r' & Er & Hrp).
    assert (H : forall n l parts, (List.length l <= n)%nat ->
                dotted_loop json parts (l ++ rest) = dext (dotted_loop json parts l)).
    { induction n as [|n IH]; intros l0 parts Hn.
      - destruct l0; [|cbn in Hn; lia].
        cbn [app dotted_loop dext]. rewrite Er. cbn [dotted_loop]. rewrite Hrp. reflexivity.
      - destruct l0 as [|d l1].
        + cbn [app dotted_loop dext]. rewrite Er. cbn [dotted_loop]. rewrite Hrp. reflexivity.
        + cbn [app dotted_loop]. destruct (it_tok d =? T_DOT); [|reflexivity]. destruct l1 as [|x l2].
          * cbn [app dext]. rewrite Er. rewrite Hrp. destruct json; reflexivity.
          * cbn [app].
            destruct (json && (it_tok x =? T_CARET)); [reflexivity|].
            destruct (json && (it_tok x =? T_COLON)); [reflexivity|].
            destruct ((it_tok x =? T_IDENT) || is_keyword (it_tok x)).
            -- apply IH. cbn [List.length] in Hn. lia.
            -- destruct (it_tok x =? T_ASTERISK); reflexivity. }
    intros parts. apply (H (List.length l)). lia.
  Qed.

  Ltac sim_call ::=
    first [ eapply parse_implicit_alias_sim; solve [strong_solve]
          | eapply parse_alias_sim; solve [strong_solve | discriminate]
          | eapply expr_list_loop_sim; [eassumption|eassumption|solve [strong_solve]]
          | eapply arg_list_loop_sim; [eassumption|eassumption|solve [strong_solve]]
          | eapply parse_expression_list_sim; [eassumption|eassumption|solve [strong_solve]]
          | eapply parse_function_argument_list_sim; [eassumption|eassumption|solve [strong_solve]]
          | eapply parse_function_call_sim; [eassumption|eassumption|solve [strong_solve]|discriminate] ].

  Lemma parse_identifier_or_function_sim : forall pe pe', PEsim pe pe' -> PEpers pe ->
    forall fuel fuel' s s', Strong s s' -> toks s <> [] ->
    simres (parse_identifier_or_function pe fuel s) (parse_identifier_or_function pe' fuel' s').
  Proof.
    intros pe pe' Hpe Hpp fuel fuel'. start. intros Hne. nonempty l Hne.
    unfold parse_identifier_or_function, ret. cbv beta zeta. cbn [next toks tl app].
    rewrite dotted_loop_ext. cbn [errs]. sim_auto.
  Qed.

  Lemma parse_keyword_as_identifier_sim : forall s s', Strong s s' -> toks s <> [] ->
    simres (parse_keyword_as_identifier s) (parse_keyword_as_identifier s').
  Proof.
    start. intros Hne. nonempty l Hne.
    unfold parse_keyword_as_identifier, ret. cbv beta zeta. cbn [next toks tl app].
    rewrite dotted_loop_ext. cbn [errs]. sim_auto.
  Qed.

  Lemma parse_keyword_as_function_sim : forall pe pe', PEsim pe pe' -> PEpers pe ->
    forall fuel fuel' s s', Strong s s' -> toks s <> [] ->
    simres (parse_keyword_as_function pe fuel s) (parse_keyword_as_function pe' fuel' s').
  Proof.
    intros pe pe' Hpe Hpp fuel fuel'. start. intros Hne. nonempty l Hne.
    unfold parse_keyword_as_function, expect, ret.
    destruct l as [|lp [|x [|y l]]].
    - short_run.
    - short_run.
    - norm. destruct (it_tok lp =? T_LPAREN) eqn:Elp; [|short_run].
      norm. destruct (it_tok x =? T_DISTINCT) eqn:Edis; [exact I|].
      destruct (it_tok x =? T_ALL) eqn:Eall.
      + short_run.
      + sim_auto.
    - sim_auto.
  Qed.

  Lemma parse_number_sim : forall s s', Strong s s' -> toks s <> [] ->
    simres (parse_number s) (parse_number s').
  Proof.
    start. intros Hne. nonempty l Hne. unfold parse_number, ret. sim_auto.
  Qed.

  Lemma parse_unary_minus_sim : forall pe pe', PEsim pe pe' -> PEpers pe ->
    forall s s', Strong s s' -> toks s <> [] -> simres (parse_unary_minus pe s) (parse_unary_minus pe' s').
  Proof.
    intros pe pe' Hpe Hpp. start. intros Hne. nonempty l Hne. unfold parse_unary_minus, ret. sim_auto.
  Qed.

  Lemma parse_unary_plus_sim : forall pe pe', PEsim pe pe' -> PEpers pe ->
    forall s s', Strong s s' -> toks s <> [] -> simres (parse_unary_plus pe s) (parse_unary_plus pe' s').
  Proof.
    intros pe pe' Hpe Hpp. start. intros Hne. nonempty l Hne. unfold parse_unary_plus, ret. sim_auto.
  Qed.

  Lemma parse_not_sim : forall pe pe', PEsim pe pe' -> PEpers pe ->
    forall s s', Strong s s' -> toks s <> [] -> simres (parse_not pe s) (parse_not pe' s').
  Proof.
    intros pe pe' Hpe Hpp. start. intros Hne. nonempty l Hne. unfold parse_not, ret. sim_auto.
  Qed.

  (* "(" as the last token of the short input: the short run fails its expect(RPAREN), the long run
     sees "()" *)
  Lemma parse_grouped_or_tuple_sim : forall pe pe' psu psu',
    PEsim pe pe' -> PEpers pe -> PEnil pe -> PSUsim psu psu' -> PSUpers psu ->
    forall s s', Strong s s' -> toks s <> [] ->
    simres (parse_grouped_or_tuple pe psu s) (parse_grouped_or_tuple pe' psu' s').
  Proof.
    intros pe pe' psu psu' Hpe Hpp Hnil Hpsu Hpsp. start. intros Hne. nonempty l Hne.
    unfold parse_grouped_or_tuple, expect, ret.
    destruct l as [|x l].
    - short_run.
    - sim_auto.
  Qed.

  Ltac sim_call ::=
    first [ eapply parse_implicit_alias_sim; solve [strong_solve]
          | eapply parse_alias_sim; solve [strong_solve | discriminate]
          | eapply parse_keyword_as_identifier_sim; solve [strong_solve | discriminate]
          | eapply parse_number_sim; solve [strong_solve | discriminate]
          | eapply expr_list_loop_sim; [eassumption|eassumption|solve [strong_solve]]
          | eapply arg_list_loop_sim; [eassumption|eassumption|solve [strong_solve]]
          | eapply parse_expression_list_sim; [eassumption|eassumption|solve [strong_solve]]
          | eapply parse_function_argument_list_sim; [eassumption|eassumption|solve [strong_solve]]
          | eapply parse_function_call_sim; [eassumption|eassumption|solve [strong_solve]|discriminate]
          | eapply parse_identifier_or_function_sim; [eassumption|eassumption|solve [strong_solve]|discriminate]
          | eapply parse_keyword_as_function_sim; [eassumption|eassumption|solve [strong_solve]|discriminate]
          | eapply parse_unary_minus_sim; [eassumption|eassumption|solve [strong_solve]|discriminate]
          | eapply parse_unary_plus_sim; [eassumption|eassumption|solve [strong_solve]|discriminate]
          | eapply parse_not_sim; [eassumption|eassumption|solve [strong_solve]|discriminate]
          | eapply parse_grouped_or_tuple_sim;
              [eassumption|eassumption|eassumption|eassumption|eassumption|solve [strong_solve]|discriminate] ].

  Lemma parse_prefix_sim : forall pe pe' psu psu',
    PEsim pe pe' -> PEpers pe -> PEnil pe -> PSUsim psu psu' -> PSUpers psu ->
    forall fuel fuel' s s', Strong s s' ->
    simres (parse_prefix pe psu fuel s) (parse_prefix pe' psu' fuel' s').
  Proof.
    intros pe pe' psu psu' Hpe Hpp Hnil Hpsu Hpsp fuel fuel'. start.
    unfold parse_prefix, ret. sim_auto.
  Qed.

  (* ---- infix parsers ---- *)

  Lemma parse_binary_sim : forall pe pe', PEsim pe pe' -> PEpers pe ->
    forall left s s', Strong s s' -> toks s <> [] ->
    simres (parse_binary pe left s) (parse_binary pe' left s').
  Proof.
    intros pe pe' Hpe Hpp left. start. intros Hne. nonempty l Hne. unfold parse_binary, ret. sim_auto.
  Qed.

  Lemma parse_dot_access_sim : forall pe pe', PEsim pe pe' -> PEpers pe ->
    forall fuel fuel' left s s', Strong s s' -> toks s <> [] ->
    simres (parse_dot_access pe fuel left s) (parse_dot_access pe' fuel' left s').
  Proof.
    intros pe pe' Hpe Hpp fuel fuel' left. start. intros Hne. nonempty l Hne.
    unfold parse_dot_access, ret. sim_auto.
  Qed.

  Ltac sim_call ::=
    first [ eapply parse_implicit_alias_sim; solve [strong_solve]
          | eapply parse_alias_sim; solve [strong_solve | discriminate]
          | eapply parse_keyword_as_identifier_sim; solve [strong_solve | discriminate]
          | eapply parse_number_sim; solve [strong_solve | discriminate]
          | eapply expr_list_loop_sim; [eassumption|eassumption|solve [strong_solve]]
          | eapply arg_list_loop_sim; [eassumption|eassumption|solve [strong_solve]]
          | eapply parse_expression_list_sim; [eassumption|eassumption|solve [strong_solve]]
          | eapply parse_function_argument_list_sim; [eassumption|eassumption|solve [strong_solve]]
          | eapply parse_function_call_sim; [eassumption|eassumption|solve [strong_solve]|discriminate]
          | eapply parse_identifier_or_function_sim; [eassumption|eassumption|solve [strong_solve]|discriminate]
          | eapply parse_keyword_as_function_sim; [eassumption|eassumption|solve [strong_solve]|discriminate]
          | eapply parse_unary_minus_sim; [eassumption|eassumption|solve [strong_solve]|discriminate]
          | eapply parse_unary_plus_sim; [eassumption|eassumption|solve [strong_solve]|discriminate]
          | eapply parse_not_sim; [eassumption|eassumption|solve [strong_solve]|discriminate]
          | eapply parse_grouped_or_tuple_sim;
              [eassumption|eassumption|eassumption|eassumption|eassumption|solve [strong_solve]|discriminate]
          | eapply parse_prefix_sim;
              [eassumption|eassumption|eassumption|eassumption|eassumption|solve [strong_solve]]
          | eapply parse_binary_sim; [eassumption|eassumption|solve [strong_solve]|discriminate]
          | eapply parse_dot_access_sim; [eassumption|eassumption|solve [strong_solve]|discriminate] ].

  Lemma parse_infix_sim : forall pe pe', PEsim pe pe' -> PEpers pe ->
    forall fuel fuel' left s s', Strong s s' -> toks s <> [] ->
    simres (parse_infix pe fuel left s) (parse_infix pe' fuel' left s').
  Proof.
    intros pe pe' Hpe Hpp fuel fuel' left. start. intros Hne. nonempty l Hne.
    unfold parse_infix, ret. sim_auto.
  Qed.

  Lemma order_by_loop_sim : forall pe pe', PEsim pe pe' -> PEpers pe ->
    forall fuel fuel' acc s s', Strong s s' ->
    simres (order_by_loop pe fuel acc s) (order_by_loop pe' fuel' acc s').
  Proof.
    intros pe pe' Hpe Hpp. induction fuel as [|f IH]; intros fuel' acc; [intros; exact I|].
    destruct fuel' as [|f']; [intros; apply simres_oof|]. start.
    cbn [order_by_loop]. unfold ret. sim_auto.
  Qed.

  (* ---- tables ---- *)

  Lemma parse_table_expression_sim : forall psu psu', PSUsim psu psu' -> PSUpers psu ->
    forall s s', Strong s s' -> simres (parse_table_expression psu s) (parse_table_expression psu' s').
  Proof.
    intros psu psu' Hpsu Hpsp. start.
    unfold parse_table_expression, parse_identifier_name, is_keyword_for_clause, expect, ret.
    sim_auto.
  Qed.

  Lemma parse_tables_in_select_sim : forall psu psu', PSUsim psu psu' -> PSUpers psu ->
    forall s s', Strong s s' -> simres (parse_tables_in_select psu s) (parse_tables_in_select psu' s').
  Proof.
    intros psu psu' Hpsu Hpsp. start. unfold parse_tables_in_select, is_join_keyword, ret.
    apply simres_bind; [eapply parse_table_expression_sim; [eassumption|eassumption|strong_solve]|intro_cont|pers_cont].
    sim_auto.
  Qed.

  (* ---- the recursive core ---- *)

  Ltac sim_call ::=
    first [ eapply parse_implicit_alias_sim; solve [strong_solve]
          | eapply parse_alias_sim; solve [strong_solve | discriminate]
          | eapply parse_keyword_as_identifier_sim; solve [strong_solve | discriminate]
          | eapply parse_number_sim; solve [strong_solve | discriminate]
          | eapply expr_list_loop_sim; [eassumption|eassumption|solve [strong_solve]]
          | eapply arg_list_loop_sim; [eassumption|eassumption|solve [strong_solve]]
          | eapply parse_expression_list_sim; [eassumption|eassumption|solve [strong_solve]]
          | eapply parse_function_argument_list_sim; [eassumption|eassumption|solve [strong_solve]]
          | eapply parse_function_call_sim; [eassumption|eassumption|solve [strong_solve]|discriminate]
          | eapply parse_identifier_or_function_sim; [eassumption|eassumption|solve [strong_solve]|discriminate]
          | eapply parse_keyword_as_function_sim; [eassumption|eassumption|solve [strong_solve]|discriminate]
          | eapply parse_unary_minus_sim; [eassumption|eassumption|solve [strong_solve]|discriminate]
          | eapply parse_unary_plus_sim; [eassumption|eassumption|solve [strong_solve]|discriminate]
          | eapply parse_not_sim; [eassumption|eassumption|solve [strong_solve]|discriminate]
          | eapply parse_grouped_or_tuple_sim;
              [eassumption|eassumption|eassumption|eassumption|eassumption|solve [strong_solve]|discriminate]
          | eapply parse_prefix_sim;
              [eassumption|eassumption|eassumption|eassumption|eassumption|solve [strong_solve]]
          | eapply parse_binary_sim; [eassumption|eassumption|solve [strong_solve]|discriminate]
          | eapply parse_dot_access_sim; [eassumption|eassumption|solve [strong_solve]|discriminate]
          | eapply parse_infix_sim; [eassumption|eassumption|solve [strong_solve]|discriminate]
          | eapply order_by_loop_sim; [eassumption|eassumption|solve [strong_solve]]
          | eapply parse_table_expression_sim; [eassumption|eassumption|solve [strong_solve]]
          | eapply parse_tables_in_select_sim; [eassumption|eassumption|solve [strong_solve]] ].

  (* parseExpression at the end of the short input returns nil and stays *)
  Lemma parse_expr_nil : forall f prec e,
    parse_expr f prec (mkSt [] e) = OutOfFuel \/ parse_expr f prec (mkSt [] e) = Ok (None, mkSt [] e).
  Proof. intros [|f] prec e; [left; reflexivity|right; reflexivity]. Qed.

  Lemma eqb_len_ext : forall A B a b : list item, A = a ++ rest -> B = b ++ rest ->
    Nat.eqb (List.length A) (List.length B) = Nat.eqb (List.length a) (List.length b).
  Proof.
    intros A B a b -> ->. rewrite !app_length.
    destruct (Nat.eqb (List.length a) (List.length b)) eqn:E.
    - apply Nat.eqb_eq in E. apply Nat.eqb_eq. lia.
    - apply Nat.eqb_neq in E. apply Nat.eqb_neq. lia.
  Qed.

  Lemma core_sim : forall f f',
    (forall prec s s', Strong s s' -> simres (parse_expr f prec s) (parse_expr f' prec s')) /\
    (forall prec left s s', Strong s s' -> simres (pratt_loop f prec left s) (pratt_loop f' prec left s')) /\
    (forall s s', Strong s s' -> simres (parse_select f s) (parse_select f' s')) /\
    (forall prefix sels modes all s s', Strong s s' ->
       simres (union_loop f prefix sels modes all s) (union_loop f' prefix sels modes all s')) /\
    (forall s s', Strong s s' -> simres (parse_select_with_union f s) (parse_select_with_union f' s')).
  Proof.
    induction f as [|f IH]; intros f'.
    - repeat split; intros; exact I.
    - destruct f' as [|f']; [repeat split; intros; apply simres_oof|].
      destruct (IH f') as (IHe & IHp & IHs & IHu & IHq). clear IH.
      pose proof (parse_expr_nil f) as Hnil.
      pose proof (parse_expr_pers f) as Pe. pose proof (pratt_loop_pers f) as Pp.
      pose proof (parse_select_pers f) as Ps. pose proof (union_loop_pers f) as Pu.
      pose proof (parse_select_with_union_pers f) as Pq.
      repeat split.
      + intros prec. start. cbn [parse_expr]. unfold ret. sim_auto.
      + intros prec left. start. cbn [pratt_loop]. unfold precedence_for_current, ret.
        destruct l as [|x l].
        * norm. change (precedence T_RPAREN) with 0. rewrite ltb_zero. sim_auto.
        * norm;
          (match goal with |- simres (if ?c then _ else _) _ => destruct c eqn:? end; [|sim_auto]);
          (apply simres_bind; [sim_call|intro_cont|pers_cont]);
          (destruct x0 as [l'|]; [|sim_auto]);
          unfold remaining; cbn [toks];
          lazymatch goal with
          | |- simres (if Nat.eqb (List.length ?a) (List.length ?b) then _ else _)
                      (if Nat.eqb (List.length ?A) (List.length ?B) then _ else _) =>
              rewrite (eqb_len_ext A B a b eq_refl eq_refl)
          end; sim_auto.
      + start. cbn [parse_select]. unfold expect, ret. sim_auto.
      + intros prefix sels modes all. start. cbn [union_loop]. unfold union_mode, ret. sim_auto.
      + start. cbn [parse_select_with_union]. unfold expect, ret. sim_auto.
  Qed.

  Lemma parse_select_with_union_sim : forall f f' s s', Strong s s' ->
    simres (parse_select_with_union f s) (parse_select_with_union f' s').
  Proof. intros f f'. exact (proj2 (proj2 (proj2 (proj2 (core_sim f f'))))). Qed.

  Lemma union_loop_sim : forall f f' prefix sels modes all s s', Strong s s' ->
    simres (union_loop f prefix sels modes all s) (union_loop f' prefix sels modes all s').
  Proof. intros f f'. exact (proj1 (proj2 (proj2 (proj2 (core_sim f f'))))). Qed.

  Lemma parse_expr_sim : forall f f' prec s s', Strong s s' ->
    simres (parse_expr f prec s) (parse_expr f' prec s').
  Proof. intros f f'. exact (proj1 (core_sim f f')). Qed.

  (* a query parsed alone, completely and without error (any fuel), followed by the closing
     parenthesis: every sufficient fuel *)
  Theorem parse_select_with_union_close : forall f f' q Q,
    parse_select_with_union f (mkSt q []) = Ok (Q, mkSt [] []) ->
    nt q ->
    (3 * List.length (q ++ rest) + 2 <= f')%nat ->
    parse_select_with_union f' (mkSt (q ++ rest) []) = Ok (Q, mkSt rest []).
  Proof.
    intros f f' q Q H Hnt Hf.
    pose proof (parse_select_with_union_sim f f' (mkSt q []) (mkSt (q ++ rest) [])) as S.
    specialize (S ltac:(split; [reflexivity|split; [reflexivity|split; [reflexivity|exact Hnt]]])).
    rewrite H in S.
    pose proof (parse_select_with_union_fin f' (mkSt (q ++ rest) []) Hf) as G.
    cbn [simres errs] in S. destruct S as [S|S]; [exfalso; apply S; reflexivity|].
    destruct (parse_select_with_union f' (mkSt (q ++ rest) [])) as [[Q' [l' e']]|p|o|]; cbn [fin] in G;
      try contradiction.
    destruct S as [-> (Hl & _ & He & _)]. cbn [toks errs app] in Hl, He. subst l' e'. reflexivity.
  Qed.

  (* the same for an expression (the Pratt loop stops at the closing parenthesis as at EOF) *)
  Theorem parse_expr_close : forall f f' prec ts e,
    parse_expr f prec (mkSt ts []) = Ok (e, mkSt [] []) ->
    nt ts ->
    (3 * List.length (ts ++ rest) + 2 <= f')%nat ->
    parse_expr f' prec (mkSt (ts ++ rest) []) = Ok (e, mkSt rest []).
  Proof.
    intros f f' prec ts e H Hnt Hf.
    pose proof (parse_expr_sim f f' prec (mkSt ts []) (mkSt (ts ++ rest) [])) as S.
    specialize (S ltac:(split; [reflexivity|split; [reflexivity|split; [reflexivity|exact Hnt]]])).
    rewrite H in S.
    pose proof (parse_expr_fin f' prec (mkSt (ts ++ rest) []) Hf) as G.
    cbn [simres errs] in S. destruct S as [S|S]; [exfalso; apply S; reflexivity|].
    destruct (parse_expr f' prec (mkSt (ts ++ rest) [])) as [[e1 [l' e']]|p|o|]; cbn [fin] in G;
      try contradiction.
    destruct S as [-> (Hl & _ & He & _)]. cbn [toks errs app] in Hl, He. subst l' e'. reflexivity.
  Qed.

End Close.
