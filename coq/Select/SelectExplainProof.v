(* C04 (part B) -- the SELECT printers' "(children N)" headers equal the number of children they
   emit, for every combination of optional clauses; hence their output is a well-formed tree
   (up to [norm_line]: a node without children may be printed with "(children 0)"). *)
From Coq Require Import List NArith Arith Bool Lia.
From DC Require Import Tree.LineTree Tree.LineTreeProof Select.SelectExplainModel.
Import ListNotations.


(* ---------------------------------------------------------------------------------------- *)
(** * The intended trees *)

Definition T_EL (ts : list rose) : rose := Node L_ExpressionList ts.
Definition T_leaf (l : list N) : rose := Node l [].
Definition opt_list (o : option rose) : list rose := match o with Some t => [t] | None => [] end.

Definition tables_tree (from : option (list rose)) (aj : option rose) : rose :=
  Node L_TablesInSelectQuery
       ((match from with Some ts => ts | None => [] end)
        ++ (match aj with Some a => [Node L_TablesInSelectQueryElement [a]] | None => [] end)).

(* the one tree a GROUP BY element is printed as (dummy for the element that prints nothing) *)
Definition group_elem_tree (grouping_sets : bool) (g : group_elem) : rose :=
  if grouping_sets then
    match g with
    | GE_tuple true (Some es) _ => T_EL [Node L_Function_tuple [T_EL es]]
    | GE_tuple true None _ => T_EL []
    | GE_tuple false (Some es) _ => T_EL es
    | GE_tuple false None self => T_EL [self]
    | GE_other self => T_EL [self]
    end
  else ge_self g.

Definition ge_ok (g : group_elem) : Prop := forall s, g <> GE_tuple true None s.

Definition limit_children (n : select_query) : list rose :=
  if is_some (sq_limit_by_limit n) then
    opt_list (sq_limit_by_offset n) ++ opt_list (sq_limit_by_limit n)
    ++ when (nonempty (sq_limit_by n)) [T_EL (sq_limit_by n)]
    ++ opt_list (sq_offset n) ++ opt_list (sq_limit n)
  else if nonempty (sq_limit_by n) then
    opt_list (sq_limit n) ++ [T_EL (sq_limit_by n)]
  else
    opt_list (sq_offset n) ++ opt_list (sq_limit n).

(* everything between the leading WITH / columns and the trailing inherited WITH *)
Definition select_middle (gs : bool) (n : select_query) : list rose :=
  when (is_some (sq_from n) || is_some (sq_array_join n)) [tables_tree (sq_from n) (sq_array_join n)]
  ++ opt_list (sq_prewhere n)
  ++ opt_list (sq_where n)
  ++ when (nonempty (sq_group_by n) && negb (sq_group_by_all n))
          [T_EL (map (group_elem_tree gs) (sq_group_by n))]
  ++ opt_list (sq_having n)
  ++ when (pos (sq_window n)) [T_EL (repeat (T_leaf L_WindowListElement) (sq_window n))]
  ++ opt_list (sq_qualify n)
  ++ when (nonempty (sq_order_by n)) [T_EL (sq_order_by n)]
  ++ when (pos (sq_settings n) && nonempty (sq_interpolate n) && negb (sq_settings_after_format n))
          [T_leaf L_Set]
  ++ when (nonempty (sq_interpolate n)) [T_EL (sq_interpolate n)]
  ++ limit_children n
  ++ when (pos (sq_settings n) && negb (nonempty (sq_interpolate n)) && negb (sq_settings_after_format n))
          [T_leaf L_Set]
  ++ opt_list (sq_top n)
  ++ when (nonempty (sq_distinct_on n)) [T_leaf L_Literal_UInt64_1; T_EL (sq_distinct_on n)].

(* the children explainSelectQuery emits *)
Definition select_children (n : select_query) : list rose :=
  when (nonempty (sq_with n)) [T_EL (sq_with n)]
  ++ [T_EL (sq_columns n)]
  ++ select_middle (sq_grouping_sets n) n.

(* the children explainSelectQueryWithInheritedWith emits for a SelectQuery without own WITH *)
Definition select_children_inherited (n : select_query) (iw : list rose) : list rose :=
  [T_EL (sq_columns n)] ++ select_middle false n ++ [T_EL iw].

Definition select_tree (n : select_query) : rose := Node L_SelectQuery (select_children n).

(* ---------------------------------------------------------------------------------------- *)
(** * Invariants the Go code relies on *)

(* needed for count = number of emitted children *)
Definition inv_limit (n : select_query) : Prop :=
  (sq_limit_by_limit n = None -> sq_limit_by_offset n = None) /\
  (sq_limit_by_limit n = None -> sq_limit_by n <> [] -> sq_offset n = None).

(* needed in addition so that every GROUP BY element prints a node (GROUPING SETS mode: a
   Parenthesized tuple literal whose Value is not []Expression prints nothing).  Empty lists
   (Columns, From.Tables, ...) need no invariant: they print "ExpressionList (children 0)",
   a correct count, which [norm_line] identifies with the suffix-less leaf. *)
Definition inv_shape (n : select_query) : Prop :=
  sq_grouping_sets n = true -> Forall ge_ok (sq_group_by n).

Definition inv_select (n : select_query) : Prop := inv_limit n /\ inv_shape n.

(* ---------------------------------------------------------------------------------------- *)
(** * Counting *)

Lemma length_when {A} b (l : list A) : length (when b l) = if b then length l else 0.
Proof. destruct b; reflexivity. Qed.

Lemma length_opt_list o : length (opt_list o) = b2n (is_some o).
Proof. destruct o; reflexivity. Qed.

Lemma length_limit_children n :
  inv_limit n <->
  length (limit_children n) =
  b2n (is_some (sq_limit_by_offset n)) + b2n (is_some (sq_limit_by_limit n))
  + b2n (is_some (sq_limit n)) + b2n (nonempty (sq_limit_by n)) + b2n (is_some (sq_offset n)).
Proof.
  unfold inv_limit, limit_children.
  destruct (sq_limit_by_limit n) as [lbl|], (sq_limit_by_offset n) as [lbo|],
           (sq_limit n) as [lim|], (sq_limit_by n) as [|lb0 lb], (sq_offset n) as [off|];
    cbn; (split; [intros [H1 H2]|intros H; split; intros]);
    try reflexivity; try congruence; try discriminate; exfalso;
    first [ specialize (H1 eq_refl); discriminate
          | assert (Hx : lb0 :: lb <> []) by discriminate; specialize (H2 eq_refl Hx); discriminate ].
Qed.

Lemma length_select_middle gs n :
  inv_limit n <->
  length (select_middle gs n) =
    b2n (is_some (sq_from n) || is_some (sq_array_join n))
    + b2n (is_some (sq_prewhere n))
    + b2n (is_some (sq_where n))
    + b2n (nonempty (sq_group_by n) && negb (sq_group_by_all n))
    + b2n (is_some (sq_having n))
    + b2n (is_some (sq_qualify n))
    + b2n (pos (sq_window n))
    + b2n (nonempty (sq_order_by n))
    + b2n (nonempty (sq_interpolate n))
    + b2n (is_some (sq_limit_by_offset n))
    + b2n (is_some (sq_limit_by_limit n))
    + b2n (is_some (sq_limit n))
    + b2n (nonempty (sq_limit_by n))
    + b2n (is_some (sq_offset n))
    + b2n (pos (sq_settings n) && negb (sq_settings_after_format n))
    + b2n (is_some (sq_top n))
    + (if nonempty (sq_distinct_on n) then 2 else 0).
Proof.
  rewrite length_limit_children.
  unfold select_middle. rewrite !app_length, !length_when, !length_opt_list. cbn [length].
  destruct (pos (sq_settings n)), (nonempty (sq_interpolate n)), (sq_settings_after_format n);
    cbn [andb negb]; unfold b2n; split; intros H; lia.
Qed.

(* THE count-vs-emit statement for explainSelectQuery: the header count equals the number of
   emitted children exactly when the LIMIT invariant holds *)
Theorem count_select_query_children_correct n :
  inv_limit n <-> count_select_query_children n = length (select_children n).
Proof.
  rewrite (length_select_middle (sq_grouping_sets n) n).
  unfold count_select_query_children, select_children.
  rewrite !app_length, length_when. cbn [length]. unfold b2n.
  destruct (nonempty (sq_with n)); split; intros H; lia.
Qed.

Theorem count_inherited_correct n iw :
  inv_limit n -> sq_with n = [] ->
  count_select_query_children n + 1 = length (select_children_inherited n iw).
Proof.
  intros H Hw. apply (length_select_middle false n) in H.
  unfold count_select_query_children, select_children_inherited.
  rewrite !app_length, H, Hw. cbn [length nonempty b2n]. lia.
Qed.

(* ---------------------------------------------------------------------------------------- *)
(** * Rendering: each emitted block is, after normalisation, the rendering of the intended trees *)

Definition nrm (ls : list line) : list line := map norm_line ls.

Lemma nrm_app a b : nrm (a ++ b) = nrm a ++ nrm b.
Proof. apply map_app. Qed.

Lemma nrm_cons l ls : nrm (l :: ls) = norm_line l :: nrm ls.
Proof. reflexivity. Qed.

Lemma nrm_render d t : nrm (render d t) = render d t.
Proof. apply norm_render. Qed.

Lemma nrm_forest d ts : nrm (render_forest d ts) = render_forest d ts.
Proof.
  unfold render_forest. induction ts as [|t ts IH]; [reflexivity|].
  cbn [flat_map]. rewrite nrm_app, nrm_render, IH. reflexivity.
Qed.

(* after normalisation a "%s<lab> (children %d)" header is the header [render] prints *)
Lemma norm_hdr d lab k : norm_line (hdr d lab k) = mkLine d lab (kcount k).
Proof. destruct k; reflexivity. Qed.

Lemma norm_leaf d lab : norm_line (leaf d lab) = leaf d lab.
Proof. reflexivity. Qed.

Lemma render_forest_app d a b : render_forest d (a ++ b) = render_forest d a ++ render_forest d b.
Proof. apply flat_map_app. Qed.

Lemma render_forest_one d t : render_forest d [t] = render d t.
Proof. unfold render_forest. cbn [flat_map]. apply app_nil_r. Qed.

(* the general shape: a header carrying the number of trees printed beneath it *)
Lemma nrm_node d lab ts : nrm (hdr d lab (length ts) :: nodes (S d) ts) = render d (Node lab ts).
Proof. rewrite nrm_cons, norm_hdr, render_node. f_equal. apply nrm_forest. Qed.

Lemma expr_list_tree d ts : nrm (expr_list d ts) = render d (T_EL ts).
Proof. apply nrm_node. Qed.

Lemma opt_node_forest d o : nrm (opt_node d o) = render_forest d (opt_list o).
Proof. destruct o; [cbn [opt_node opt_list]; rewrite render_forest_one; apply nrm_render|reflexivity]. Qed.

Lemma when_forest d b X T : nrm X = render d T -> nrm (when b X) = render_forest d (when b [T]).
Proof. intros H. destruct b; [cbn [when]; rewrite render_forest_one; exact H|reflexivity]. Qed.

Lemma when_expr_list d ts :
  nrm (when (nonempty ts) (expr_list d ts)) = render_forest d (when (nonempty ts) [T_EL ts]).
Proof. apply when_forest. apply expr_list_tree. Qed.

Lemma render_forest_repeat_leaf d l n :
  render_forest d (repeat (T_leaf l) n) = repeat (leaf d l) n.
Proof. induction n as [|n IH]; [reflexivity|]. cbn [repeat]. unfold render_forest in *. cbn [flat_map]. rewrite IH. reflexivity. Qed.

Lemma window_tree d w :
  nrm (when (pos w) (hdr d L_ExpressionList w :: repeat (leaf (S d) L_WindowListElement) w))
  = render_forest d (when (pos w) [T_EL (repeat (T_leaf L_WindowListElement) w)]).
Proof.
  apply when_forest. rewrite <- render_forest_repeat_leaf.
  rewrite <- (repeat_length (T_leaf L_WindowListElement) w) at 1. apply nrm_node.
Qed.

Lemma tables_tree_render d from aj :
  nrm (tables_with_array_join d from aj) = render d (tables_tree from aj).
Proof.
  unfold tables_with_array_join, tables_tree.
  rewrite nrm_cons, norm_hdr, render_node, render_forest_app, nrm_app. f_equal; [|f_equal].
  - f_equal. rewrite app_length. destruct from, aj; reflexivity.
  - destruct from; [apply nrm_forest|reflexivity].
  - destruct aj as [a|]; [|reflexivity]. rewrite render_forest_one.
    unfold node. rewrite <- (render_forest_one (S (S d)) a). apply (nrm_node (S d) _ [a]).
Qed.

Lemma emit_group_elem_tree gs d g :
  (gs = true -> ge_ok g) -> nrm (emit_group_elem gs d g) = render (2 + d) (group_elem_tree gs g).
Proof.
  intros Hok. unfold emit_group_elem, group_elem_tree. destruct gs; [|apply nrm_render].
  specialize (Hok eq_refl). destruct g as [[|] [es|] self|self]; unfold T_EL.
  - (* ((a, b)) *)
    rewrite (render_node (2 + d) L_ExpressionList [Node L_Function_tuple [Node L_ExpressionList es]]).
    rewrite render_forest_one.
    rewrite (render_node (S (2 + d)) L_Function_tuple [Node L_ExpressionList es]).
    rewrite render_forest_one, !nrm_cons, !norm_hdr. f_equal. f_equal.
    destruct es as [|e es]; [reflexivity|]. cbn [nonempty]. apply (nrm_node (4 + d)).
  - exfalso. apply (Hok self). reflexivity.
  - destruct es as [|e es]; [reflexivity|]. cbn [nonempty]. apply (nrm_node (2 + d)).
  - change (node (3 + d) self) with (render (S (2 + d)) self).
    rewrite <- (render_forest_one (S (2 + d)) self). apply (nrm_node (2 + d) _ [self]).
  - change (node (3 + d) self) with (render (S (2 + d)) self).
    rewrite <- (render_forest_one (S (2 + d)) self). apply (nrm_node (2 + d) _ [self]).
Qed.

Lemma group_by_tree gs d gb :
  (gs = true -> Forall ge_ok gb) ->
  nrm (hdr (S d) L_ExpressionList (length gb) :: flat_map (emit_group_elem gs d) gb)
  = render (S d) (T_EL (map (group_elem_tree gs) gb)).
Proof.
  intros Hok. unfold T_EL. rewrite render_node, map_length, nrm_cons, norm_hdr.
  f_equal. unfold render_forest.
  induction gb as [|g gb IH]; [reflexivity|]. cbn [flat_map map].
  rewrite nrm_app, emit_group_elem_tree, IH; [reflexivity| |].
  - intros E. specialize (Hok E). inversion Hok; assumption.
  - intros E. specialize (Hok E). inversion Hok; assumption.
Qed.

Lemma limit_block_forest d n :
  nrm (emit_limit_block d n) = render_forest (S d) (limit_children n).
Proof.
  unfold emit_limit_block, limit_children.
  destruct (is_some (sq_limit_by_limit n)); [|destruct (nonempty (sq_limit_by n)) eqn:E].
  - rewrite !render_forest_app, !nrm_app, !opt_node_forest, when_expr_list. reflexivity.
  - rewrite !render_forest_app, !nrm_app, !opt_node_forest, render_forest_one, expr_list_tree. reflexivity.
  - rewrite !render_forest_app, !nrm_app, !opt_node_forest. reflexivity.
Qed.

(* the block between the columns and the end, as lines (shared text of the two printers) *)
Definition emit_middle (gs : bool) (d : nat) (n : select_query) : list line :=
  when (is_some (sq_from n) || is_some (sq_array_join n))
          (tables_with_array_join (S d) (sq_from n) (sq_array_join n))
  ++ opt_node (S d) (sq_prewhere n)
  ++ opt_node (S d) (sq_where n)
  ++ when (nonempty (sq_group_by n) && negb (sq_group_by_all n))
          (hdr (S d) L_ExpressionList (length (sq_group_by n))
           :: flat_map (emit_group_elem gs d) (sq_group_by n))
  ++ opt_node (S d) (sq_having n)
  ++ when (pos (sq_window n))
          (hdr (S d) L_ExpressionList (sq_window n)
           :: repeat (leaf (S (S d)) L_WindowListElement) (sq_window n))
  ++ opt_node (S d) (sq_qualify n)
  ++ when (nonempty (sq_order_by n)) (expr_list (S d) (sq_order_by n))
  ++ when (pos (sq_settings n) && nonempty (sq_interpolate n) && negb (sq_settings_after_format n))
          [leaf (S d) L_Set]
  ++ when (nonempty (sq_interpolate n)) (expr_list (S d) (sq_interpolate n))
  ++ emit_limit_block d n
  ++ when (pos (sq_settings n) && negb (nonempty (sq_interpolate n)) && negb (sq_settings_after_format n))
          [leaf (S d) L_Set]
  ++ opt_node (S d) (sq_top n)
  ++ when (nonempty (sq_distinct_on n))
          (leaf (S d) L_Literal_UInt64_1 :: expr_list (S d) (sq_distinct_on n)).

Lemma emit_middle_forest gs d n :
  (gs = true -> Forall ge_ok (sq_group_by n)) ->
  nrm (emit_middle gs d n) = render_forest (S d) (select_middle gs n).
Proof.
  intros Hg. unfold emit_middle, select_middle. rewrite !render_forest_app, !nrm_app.
  rewrite !opt_node_forest, !when_expr_list, window_tree, limit_block_forest.
  repeat (apply (f_equal2 (@app line)); [try reflexivity|]).
  - apply when_forest. apply tables_tree_render.
  - apply when_forest. apply group_by_tree. exact Hg.
  - apply when_forest. reflexivity.
  - apply when_forest. reflexivity.
  - destruct (sq_distinct_on n) as [|c cs] eqn:E; [reflexivity|].
    cbn [nonempty when]. unfold render_forest. cbn [flat_map]. rewrite app_nil_r.
    rewrite nrm_cons, expr_list_tree. reflexivity.
Qed.

(* ---------------------------------------------------------------------------------------- *)
(** * explainSelectQuery / explainSelectQueryWithInheritedWith print one well-formed tree *)

Lemma explain_select_query_forest d n :
  inv_shape n ->
  nrm (explain_select_query d n)
  = mkLine d L_SelectQuery (kcount (count_select_query_children n))
    :: render_forest (S d) (select_children n).
Proof.
  intros Hg.
  change (explain_select_query d n) with
    (hdr d L_SelectQuery (count_select_query_children n)
     :: when (nonempty (sq_with n)) (expr_list (S d) (sq_with n))
     ++ expr_list (S d) (sq_columns n) ++ emit_middle (sq_grouping_sets n) d n).
  rewrite nrm_cons, norm_hdr. f_equal.
  unfold select_children. rewrite !render_forest_app, render_forest_one, !nrm_app.
  rewrite when_expr_list, expr_list_tree, emit_middle_forest by exact Hg. reflexivity.
Qed.

Theorem explain_select_query_tree d n :
  inv_select n -> nrm (explain_select_query d n) = render d (select_tree n).
Proof.
  intros [Hl Hg]. rewrite explain_select_query_forest by exact Hg.
  apply count_select_query_children_correct in Hl. rewrite Hl. reflexivity.
Qed.

Definition inherited_tree (n : select_query) (iw : list rose) : rose :=
  Node L_SelectQuery (select_children_inherited n iw).

Definition item_tree (s : sel_item) : rose :=
  match s with ItemSelect q => select_tree q | ItemOther o => o_tree o end.

(* what explainSelectQueryWithInheritedWith prints, as a tree *)
Definition item_tree_inherited (iw : list rose) (s : sel_item) : rose :=
  match s with
  | ItemSelect q => if nonempty (sq_with q) then select_tree q else inherited_tree q iw
  | ItemOther o => o_tree o
  end.

Definition inv_item (s : sel_item) : Prop :=
  match s with ItemSelect q => inv_select q | ItemOther _ => True end.

(* in the inherited printer GROUPING SETS elements are printed plainly, so ge_ok is not needed
   there; for simplicity the same invariant is required *)
Theorem explain_inherited_tree d s iw :
  inv_item s ->
  nrm (explain_select_query_with_inherited_with d s iw) = render d (item_tree_inherited iw s).
Proof.
  intros Hi. destruct s as [q|o]; [|apply nrm_render].
  cbn [explain_select_query_with_inherited_with item_tree_inherited].
  destruct (nonempty (sq_with q)) eqn:Ew; [apply explain_select_query_tree; exact Hi|].
  destruct Hi as [Hl Hg].
  assert (Hw : sq_with q = []) by (destruct (sq_with q); [reflexivity|discriminate]).
  pose proof (count_inherited_correct q iw Hl Hw) as Hcount.
  unfold inherited_tree. rewrite render_node, nrm_cons, norm_hdr, Hcount. f_equal.
  unfold select_children_inherited. rewrite !render_forest_app, !render_forest_one.
  rewrite <- !expr_list_tree.
  rewrite <- (emit_middle_forest false d q) by discriminate.
  rewrite <- !nrm_app. f_equal.
  unfold emit_middle. rewrite <- !app_assoc. reflexivity.
Qed.

Corollary explain_select_query_check n :
  inv_select n -> check_lines (explain_select_query 0 n) = true.
Proof. intros H. apply check_lines_spec. eexists. apply explain_select_query_tree. exact H. Qed.

(* ---------------------------------------------------------------------------------------- *)
(** * SelectWithUnionQuery *)

Definition outfile_children (n : union_query) : list rose :=
  match first_select (fun q => is_some (sq_into_outfile q)) (u_selects n) with
  | Some q => match sq_into_outfile q with
              | Some f => [T_leaf (L_outfile f)]
              | None => []
              end
  | None => []
  end.

Definition tail_children (n : union_query) (t : union_tail) : list rose :=
  when (u_settings_before_format n && pos (tail_union_settings t n)) [T_leaf L_Set]
  ++ (match first_select_i (tail_has_format t) 0 (u_selects n) with
      | Some (i, q) => opt_list (tail_format t i q)
      | None => []
      end)
  ++ (if u_settings_after_format n && pos (tail_union_settings t n) then [T_leaf L_Set]
      else when (exists_select_i (tail_legacy_settings t) 0 (u_selects n)) [T_leaf L_Set]).

Definition union_tail_children (n : union_query) (t : union_tail) : list rose :=
  outfile_children n ++ tail_children n t.

Lemma first_select_some P l q : first_select P l = Some q -> P q = true.
Proof.
  induction l as [|[q'|o] l IH]; cbn; intros H; [discriminate| |auto].
  destruct (P q') eqn:E; [inversion H; subst; exact E|auto].
Qed.

Lemma first_select_existsb P l :
  existsb (is_select_with P) l = is_some (first_select P l).
Proof.
  induction l as [|[q'|o] l IH]; cbn; [reflexivity| |exact IH].
  destruct (P q'); [reflexivity|exact IH].
Qed.

Lemma first_select_i_some P l : forall i j q, first_select_i P i l = Some (j, q) -> P j q = true.
Proof.
  induction l as [|[q'|o] l IH]; cbn; intros i j q H; [discriminate| |eauto].
  destruct (P i q') eqn:E; [inversion H; subst; exact E|eauto].
Qed.

Lemma exists_select_i_first P l : forall i,
  exists_select_i P i l = is_some (first_select_i P i l).
Proof.
  induction l as [|[q'|o] l IH]; cbn; intros i; [reflexivity| |apply IH].
  destruct (P i q'); [reflexivity|apply IH].
Qed.

Lemma emit_outfile_forest d n : nrm (emit_outfile d n) = render_forest (S d) (outfile_children n).
Proof.
  unfold emit_outfile, outfile_children.
  destruct (first_select _ _) as [q|]; [|reflexivity]. destruct (sq_into_outfile q); reflexivity.
Qed.

Lemma explain_union_tail_forest d n t :
  nrm (explain_union_tail d n t) = render_forest (S d) (tail_children n t).
Proof.
  unfold explain_union_tail, tail_children. rewrite !render_forest_app, !nrm_app.
  repeat (apply (f_equal2 (@app line)); [|]).
  - apply when_forest. reflexivity.
  - destruct (first_select_i _ _ _) as [[i q]|]; [|reflexivity]. apply opt_node_forest.
  - destruct (u_settings_after_format n && pos (tail_union_settings t n)); [reflexivity|].
    apply when_forest. reflexivity.
Qed.

Lemma length_outfile n :
  length (outfile_children n)
  = b2n (existsb (is_select_with (fun q => is_some (sq_into_outfile q))) (u_selects n)).
Proof.
  unfold outfile_children. rewrite first_select_existsb.
  destruct (first_select (fun q => is_some (sq_into_outfile q)) (u_selects n)) as [q|] eqn:E; [|reflexivity].
  apply first_select_some in E. destruct (sq_into_outfile q); [reflexivity|discriminate].
Qed.

Lemma length_tail_format t l :
  length (match first_select_i (tail_has_format t) 0 l with
          | Some (i, q) => opt_list (tail_format t i q) | None => [] end)
  = b2n (exists_select_i (tail_has_format t) 0 l).
Proof.
  rewrite exists_select_i_first.
  destruct (first_select_i (tail_has_format t) 0 l) as [[i q]|] eqn:E; [|reflexivity].
  apply first_select_i_some in E. unfold tail_has_format in E.
  destruct (tail_format t i q); [reflexivity|discriminate].
Qed.

(* THE count-vs-emit statement for the union printers: for EVERY tail, unconditionally (count
   and emission go through the same three unionTail methods) *)
Theorem count_select_union_children_correct n t :
  count_select_union_children_tail n t = 1 + length (union_tail_children n t).
Proof.
  unfold count_select_union_children_tail, union_tail_children, tail_children.
  rewrite !app_length, length_outfile, length_when, length_tail_format.
  destruct (u_settings_before_format n && pos (tail_union_settings t n)),
           (u_settings_after_format n && pos (tail_union_settings t n)),
           (exists_select_i (tail_legacy_settings t) 0 (u_selects n)); cbn [b2n length when]; lia.
Qed.

Fixpoint grouped_trees (iw : list rose) (first : bool) (l : list sel_item) : list rose :=
  match l with
  | [] => []
  | s :: r =>
      (if negb first && nonempty iw then item_tree_inherited iw s else item_tree s)
      :: grouped_trees iw false r
  end.

Lemma node_item_tree d s : inv_item s -> nrm (node_item d s) = render d (item_tree s).
Proof. destruct s as [q|o]; [apply explain_select_query_tree|intros _; apply nrm_render]. Qed.

Lemma emit_grouped_forest d iw : forall first l,
  Forall inv_item l -> nrm (emit_grouped d iw first l) = render_forest d (grouped_trees iw first l).
Proof.
  intros first l. revert first. induction l as [|s l IH]; intros first H; [reflexivity|].
  inversion H; subst. cbn [emit_grouped grouped_trees]. unfold render_forest in *. cbn [flat_map].
  rewrite nrm_app, IH by assumption. f_equal.
  destruct (negb first && nonempty iw) eqn:E.
  - apply explain_inherited_tree. assumption.
  - apply node_item_tree. assumption.
Qed.

Lemma grouped_trees_length iw first l : length (grouped_trees iw first l) = length l.
Proof. revert first. induction l as [|s l IH]; intros first; [reflexivity|]. cbn. rewrite IH. reflexivity. Qed.

Definition union_first_with (n : union_query) : list rose :=
  match u_selects n with s :: _ => extract_with_clause s | [] => [] end.

Definition union_children (n : union_query) (t : union_tail) : list rose :=
  T_EL (grouped_trees (union_first_with n) true (u_grouped n)) :: union_tail_children n t.

Definition union_tree (n : union_query) (t : union_tail) : rose :=
  Node L_SelectWithUnionQuery (union_children n t).

(* every member that is a SelectQuery satisfies the SelectQuery invariants; nothing else *)
Definition inv_union (n : union_query) : Prop := Forall inv_item (u_grouped n).

Theorem count_select_union_children_eq_emitted n t :
  count_select_union_children_tail n t = length (union_children n t).
Proof. rewrite count_select_union_children_correct. reflexivity. Qed.

Theorem explain_union_tree d n t :
  inv_union n -> nrm (explain_select_with_union_query_tail d n t) = render d (union_tree n t).
Proof.
  intros Hi. unfold explain_select_with_union_query_tail, union_tree, union_children.
  rewrite render_node, nrm_cons, norm_hdr, count_select_union_children_correct. cbn [length]. f_equal.
  change (T_EL ?x :: ?y) with ([T_EL x] ++ y). rewrite render_forest_app, render_forest_one.
  unfold T_EL. rewrite render_node, grouped_trees_length.
  rewrite nrm_cons, norm_hdr, !nrm_app. cbn [app]. f_equal. f_equal.
  - apply emit_grouped_forest. exact Hi.
  - unfold union_tail_children. rewrite render_forest_app. f_equal.
    + apply emit_outfile_forest.
    + apply explain_union_tail_forest.
Qed.

Definition union_children_inherited (n : union_query) (iw : list rose) (t : union_tail) : list rose :=
  T_EL (map (item_tree_inherited iw) (u_grouped n)) :: union_tail_children n t.

Definition union_tree_inherited (n : union_query) (iw : list rose) (t : union_tail) : rose :=
  Node L_SelectWithUnionQuery (union_children_inherited n iw t).

Theorem count_select_union_children_inherited_eq_emitted n iw t :
  count_select_union_children_tail n t = length (union_children_inherited n iw t).
Proof. rewrite count_select_union_children_correct. reflexivity. Qed.

Theorem explain_union_inherited_tree d n iw t :
  inv_union n ->
  nrm (explain_select_with_union_query_with_inherited_with d n iw t)
  = render d (union_tree_inherited n iw t).
Proof.
  intros Hi. unfold explain_select_with_union_query_with_inherited_with, union_tree_inherited,
    union_children_inherited.
  rewrite render_node, nrm_cons, norm_hdr, count_select_union_children_correct. cbn [length]. f_equal.
  change (T_EL ?x :: ?y) with ([T_EL x] ++ y). rewrite render_forest_app, render_forest_one.
  unfold T_EL. rewrite render_node, map_length.
  rewrite nrm_cons, norm_hdr, !nrm_app. cbn [app]. f_equal. f_equal.
  - unfold inv_union in Hi. unfold render_forest. induction (u_grouped n) as [|s l IH]; [reflexivity|].
    inversion Hi; subst. cbn [flat_map map]. rewrite nrm_app, IH by assumption. f_equal.
    destruct s as [q|o]; [|apply nrm_render]. apply (explain_inherited_tree _ (ItemSelect q)); assumption.
  - unfold union_tail_children. rewrite render_forest_app. f_equal.
    + apply emit_outfile_forest.
    + apply explain_union_tail_forest.
Qed.

(* ---------------------------------------------------------------------------------------- *)
(** * SelectIntersectExceptQuery *)

Fixpoint intersect_trees (he : bool) (iw : list rose) (first : bool) (l : list sel_item) : list rose :=
  match l with
  | [] => []
  | s :: r =>
      (if he && first then
         if item_is_union s then item_tree s
         else Node L_SelectWithUnionQuery [T_EL [item_tree s]]
       else if negb first && nonempty iw then item_tree_inherited iw s
       else item_tree s)
      :: intersect_trees he iw false r
  end.

Lemma intersect_trees_length he iw first l : length (intersect_trees he iw first l) = length l.
Proof. revert first. induction l as [|s l IH]; intros first; [reflexivity|]. cbn. rewrite IH. reflexivity. Qed.

Lemma emit_intersect_forest d he iw : forall first l,
  Forall inv_item l ->
  nrm (emit_intersect d he iw first l) = render_forest (S d) (intersect_trees he iw first l).
Proof.
  intros first l. revert first. induction l as [|s l IH]; intros first H; [reflexivity|].
  inversion H; subst. cbn [emit_intersect intersect_trees]. unfold render_forest in *. cbn [flat_map].
  rewrite nrm_app, IH by assumption. f_equal.
  destruct (he && first).
  - destruct (item_is_union s); [apply node_item_tree; assumption|].
    rewrite render_node, !nrm_cons. f_equal. rewrite render_forest_one.
    unfold T_EL. rewrite render_node, render_forest_one. f_equal.
    apply node_item_tree. assumption.
  - destruct (negb first && nonempty iw) eqn:E.
    + apply explain_inherited_tree. assumption.
    + apply node_item_tree. assumption.
Qed.

Definition intersect_first_with (n : intersect_query) : list rose :=
  match i_selects n with s :: _ => extract_with_clause s | [] => [] end.

Definition intersect_tree (n : intersect_query) : rose :=
  Node L_SelectIntersectExceptQuery
       (intersect_trees (i_has_except n) (intersect_first_with n) true (i_selects n)).

Definition inv_intersect (n : intersect_query) : Prop := Forall inv_item (i_selects n).

Theorem explain_intersect_tree d n :
  inv_intersect n -> nrm (explain_select_intersect_except_query d n) = render d (intersect_tree n).
Proof.
  intros Hi. unfold explain_select_intersect_except_query, intersect_tree.
  rewrite render_node, intersect_trees_length, nrm_cons, norm_hdr.
  f_equal. apply emit_intersect_forest. exact Hi.
Qed.

(* ---------------------------------------------------------------------------------------- *)
(** * Header count = number of lines printed directly beneath, and check_lines *)

Lemma filter_none {A} (f : A -> bool) l : Forall (fun x => f x = false) l -> filter f l = [].
Proof. induction 1 as [|x l Hx Hl IH]; [reflexivity|]. cbn. rewrite Hx. exact IH. Qed.

Lemma direct_children_forest d hd ks :
  indent hd = d -> direct_children (hd :: render_forest (S d) ks) = length ks.
Proof.
  intros <-. unfold direct_children.
  unfold render_forest. induction ks as [|k ks IH]; [reflexivity|].
  cbn [flat_map]. rewrite filter_app, app_length, IH. cbn [length]. f_equal.
  destruct k as [l' ks']. rewrite render_node. cbn [filter indent]. rewrite Nat.eqb_refl. cbn [length].
  f_equal. rewrite filter_none; [reflexivity|].
  apply Forall_forall. intros x Hx. unfold render_forest in Hx. apply in_flat_map in Hx.
  destruct Hx as [k [Hk Hx]]. pose proof (render_indent_ge k (S (S (indent hd)))) as Hge.
  rewrite Forall_forall in Hge. specialize (Hge x Hx). apply Nat.eqb_neq. lia.
Qed.

(* the two numbers do not depend on the spelling of leaves *)
Lemma header_count_nrm ls : header_count (nrm ls) = header_count ls.
Proof. destruct ls as [|[i lab [[|k]|]] r]; reflexivity. Qed.

Lemma direct_children_nrm ls : direct_children (nrm ls) = direct_children ls.
Proof.
  destruct ls as [|l r]; [reflexivity|]. unfold direct_children, nrm. cbn [map].
  change (indent (norm_line l)) with (indent l).
  induction r as [|x r IH]; [reflexivity|]. cbn [map filter].
  change (indent (norm_line x)) with (indent x).
  destruct (Nat.eqb (indent x) (S (indent l))); cbn [length]; rewrite IH; reflexivity.
Qed.

Lemma header_count_kcount d lab k r : header_count (mkLine d lab (kcount k) :: r) = k.
Proof. destruct k; reflexivity. Qed.

(* for any printer output that is a tree, the two numbers the correspondence run compares agree *)
Corollary tree_counts_agree ls d t : nrm ls = render d t -> header_count ls = direct_children ls.
Proof.
  intros H. rewrite <- header_count_nrm, <- direct_children_nrm, H. destruct t as [l ks].
  rewrite render_node, header_count_kcount, direct_children_forest; reflexivity.
Qed.

Corollary select_counts_agree d n :
  inv_select n ->
  header_count (explain_select_query d n) = direct_children (explain_select_query d n).
Proof. intros H. eapply tree_counts_agree. apply explain_select_query_tree. exact H. Qed.

(* necessity: with every GROUP BY element printing, header = printed children IFF inv_limit *)
Theorem select_counts_agree_iff d n :
  inv_shape n ->
  (header_count (explain_select_query d n) = direct_children (explain_select_query d n)
   <-> inv_limit n).
Proof.
  intros Hs. rewrite <- header_count_nrm, <- direct_children_nrm.
  rewrite (explain_select_query_forest d n Hs).
  rewrite header_count_kcount, direct_children_forest by reflexivity.
  symmetry. apply count_select_query_children_correct.
Qed.

Corollary union_counts_agree d n t :
  inv_union n ->
  header_count (explain_select_with_union_query_tail d n t)
  = direct_children (explain_select_with_union_query_tail d n t).
Proof. intros H. eapply tree_counts_agree. apply explain_union_tree. exact H. Qed.

Corollary union_inherited_counts_agree d n iw t :
  inv_union n ->
  header_count (explain_select_with_union_query_with_inherited_with d n iw t)
  = direct_children (explain_select_with_union_query_with_inherited_with d n iw t).
Proof. intros H. eapply tree_counts_agree. apply explain_union_inherited_tree. exact H. Qed.

Corollary intersect_counts_agree d n :
  inv_intersect n ->
  header_count (explain_select_intersect_except_query d n)
  = direct_children (explain_select_intersect_except_query d n).
Proof. intros H. eapply tree_counts_agree. apply explain_intersect_tree. exact H. Qed.

Corollary explain_union_check n t :
  inv_union n -> check_lines (explain_select_with_union_query_tail 0 n t) = true.
Proof. intros H. apply check_lines_spec. eexists. apply explain_union_tree. exact H. Qed.

Corollary explain_union_inherited_check n iw t :
  inv_union n ->
  check_lines (explain_select_with_union_query_with_inherited_with 0 n iw t) = true.
Proof. intros H. apply check_lines_spec. eexists. apply explain_union_inherited_tree; assumption. Qed.

(* the instances the enclosing statements use *)
Corollary explain_insert_select_check iw n :
  inv_union n -> check_lines (explain_insert_select 0 iw n) = true.
Proof.
  intros H. unfold explain_insert_select. destruct (nonempty iw);
    [apply explain_union_inherited_check|apply explain_union_check]; exact H.
Qed.

Corollary explain_explain_select_check n :
  inv_union n -> check_lines (explain_explain_select 0 n) = true.
Proof. intros H. apply explain_union_check. exact H. Qed.

Corollary explain_as_select_check n :
  inv_union n -> check_lines (explain_as_select_without_format 0 n) = true.
Proof. intros H. apply explain_union_check. exact H. Qed.

Corollary explain_intersect_check n :
  inv_intersect n -> check_lines (explain_select_intersect_except_query 0 n) = true.
Proof. intros H. apply check_lines_spec. eexists. apply explain_intersect_tree. exact H. Qed.
