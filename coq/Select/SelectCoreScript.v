(* C06, fragment layer -- scripts of SELECT-core statements.

   [model_ps] is the statement parser of the SELECT-core model in the shape the driver model
   (Driver/DriverModel.v) expects of parseStatement: remaining tokens in, (statement, remaining
   tokens, appended errors) out.  It uses [parse_model], i.e. [parse_statement] (the transcription
   [parse_statement_raw] followed by the printer-fragment check) with the fuel [fuel_for] of the
   WHOLE remaining token list -- exactly what the correspondence-tested [parse_script] runs per
   statement.  This is the variant that composes with the driver: [ps] must be a total function
   of the remaining tokens alone, and the statement it returns is the one whose EXPLAIN text the
   printer model produces ([print_model]), so equal statements have equal EXPLAIN output.

   With SelectCoreDelim.parse_model_delimited the premise [ps_delimited] of the driver theorems
   holds for [model_ps] on EVERY token list that the model accepts alone without error;
   instantiating Driver.DriverProof.script_parse / script_is_concat_of_singles closes C06 on the
   fragment, with no side condition. *)
From Coq Require Import List NArith Bool Lia.
From DC Require Import Base.Item Gen.TokenTable.
From DC Require Import Select.SelectParseModel Select.SelectPrintModel Select.SelectCoreDelim.
From DC Require Driver.DriverModel Driver.DriverProof.
Import ListNotations.
Local Open Scope N_scope.

Module DM := Driver.DriverModel.
Module DP := Driver.DriverProof.

Definition model_ps (ts : list item) : option query * list item * list err :=
  match parse_model ts with
  | Ok r => r
  | _ => (None, [], [])            (* outside the fragment: never reached on the segments below *)
  end.

(* accepted alone: completely and without error *)
Definition accepted (ts : list item) (q : query) : Prop :=
  parse_model ts = Ok (Some q, [], []).

Lemma boundary_cases : forall rest, DP.boundary rest = true -> rest = [] \/ tok_at rest = T_SEMICOLON.
Proof.
  intros [|i r] H; [left; reflexivity|right]. cbn [DP.boundary] in H. unfold DM.is_semi in H.
  apply N.eqb_eq in H. exact H.
Qed.

Theorem model_ps_delimited : forall ts q,
  accepted ts q -> DP.ps_delimited model_ps ts (Some q) [].
Proof.
  intros ts q H. unfold accepted in H. split; [|split].
  - intros ->. vm_compute in H. discriminate H.
  - destruct ts as [|i r]; [reflexivity|]. cbn [DM.cur_is]. destruct (it_tok i =? T_SEMICOLON) eqn:E; [|reflexivity].
    exfalso. apply N.eqb_eq in E.
    unfold parse_model, parse_model_fuel, parse_statement, parse_statement_raw in H.
    cbv beta zeta delta [cur_tok toks tok_at] in H. cbn iota in H. rewrite E in H. vm_compute in H. discriminate H.
  - intros rest Hb. unfold model_ps.
    rewrite (parse_model_delimited ts (Some q) rest (boundary_cases rest Hb) H). reflexivity.
Qed.

(* ------------------------------------------------------------------------------------------ *)
(** * Scripts *)

(* a segment of a script: an accepted statement and the semicolons after it *)
Definition seg (ts : list item) (q : query) (sep : list item) : DP.segment query err :=
  DP.Build_segment ts sep (Some q) [].

Definition frag_segment (g : DP.segment query err) : Prop :=
  exists q, DP.sg_res g = Some q /\ DP.sg_errs g = [] /\ accepted (DP.sg_toks g) q.

Lemma frag_segments_delimited : forall mk segs,
  Forall frag_segment segs -> DP.segs_delimited model_ps mk segs.
Proof.
  intros mk segs H. unfold DP.segs_delimited. induction H as [|g r Hg Hr IH]; constructor; [|exact IH].
  destruct Hg as (q & Hres & Herr & Hacc). rewrite Hres, Herr.
  apply DP.ps_delimited_delimited. apply model_ps_delimited. exact Hacc.
Qed.

Lemma frag_script_errs : forall segs, Forall frag_segment segs -> DP.script_errs segs = [].
Proof.
  intros segs H. unfold DP.script_errs. induction H as [|g r Hg Hr IH]; [reflexivity|].
  cbn [flat_map]. destruct Hg as (q & _ & Herr & _). rewrite Herr, IH. reflexivity.
Qed.

(* s1 ; s2 ; ... ; sn with EVERY placement of extra semicolons: the driver returns the statements
   that the segments parse to alone, in order, and no error *)
Theorem select_core_script :
  forall (mk : query -> list query -> query) (ctx_err : DM.ctx_error) (read_failed : bool)
         (pre : list item) (segs : list (DP.segment query err)),
    DP.all_semi pre -> DP.seps_ok segs -> Forall frag_segment segs ->
    DP.full model_ps mk ctx_err read_failed (pre ++ DP.join segs) =
    DM.finish read_failed (DP.script_stmts segs) [].
Proof.
  intros mk ctx_err read_failed pre segs Hpre Hsep Hseg.
  rewrite (DP.script_parse _ _ model_ps mk ctx_err read_failed pre segs Hpre Hsep
             (frag_segments_delimited mk segs Hseg)).
  rewrite (frag_script_errs segs Hseg). reflexivity.
Qed.

(* "exactly the statements obtained by parsing each si on its own, in the same order" *)
Theorem select_core_script_concat :
  forall (mk : query -> list query -> query) (ctx_err : DM.ctx_error) (read_failed : bool)
         (pre : list item) (segs : list (DP.segment query err)),
    DP.all_semi pre -> DP.seps_ok segs -> Forall frag_segment segs ->
    DM.stmts_of (DP.full model_ps mk ctx_err read_failed (pre ++ DP.join segs)) =
    flat_map (fun g => DM.stmts_of (DP.full model_ps mk ctx_err read_failed (DP.sg_toks g))) segs.
Proof.
  intros mk ctx_err read_failed pre segs Hpre Hsep Hseg.
  apply DP.script_is_concat_of_singles; [exact Hpre|exact Hsep|apply frag_segments_delimited; exact Hseg].
Qed.

(* identical EXPLAIN output: the statements are equal, and the EXPLAIN text is a function of the statement *)
Theorem select_core_script_explain :
  forall (mk : query -> list query -> query) (ctx_err : DM.ctx_error) (read_failed : bool)
         (pre : list item) (segs : list (DP.segment query err)),
    DP.all_semi pre -> DP.seps_ok segs -> Forall frag_segment segs ->
    map print_query (DM.stmts_of (DP.full model_ps mk ctx_err read_failed (pre ++ DP.join segs))) =
    flat_map (fun g => map print_query
                         (DM.stmts_of (DP.full model_ps mk ctx_err read_failed (DP.sg_toks g)))) segs.
Proof.
  intros mk ctx_err read_failed pre segs Hpre Hsep Hseg.
  rewrite (select_core_script_concat mk ctx_err read_failed pre segs Hpre Hsep Hseg).
  induction segs as [|g r IH]; [reflexivity|]. cbn [flat_map]. rewrite map_app. f_equal.
  inversion Hseg; subst. destruct Hsep as [_ [_ Hsep']]. apply IH; assumption.
Qed.

(* the two-statement instance:  s1 ;...; s2  *)
Corollary select_core_two_statements :
  forall (mk : query -> list query -> query) (ctx_err : DM.ctx_error) (read_failed : bool)
         (s1 sep s2 : list item) (q1 q2 : query),
    accepted s1 q1 -> accepted s2 q2 -> DP.all_semi sep -> sep <> [] ->
    DP.full model_ps mk ctx_err read_failed (s1 ++ sep ++ s2) = DM.finish read_failed [q1; q2] [].
Proof.
  intros mk ctx_err read_failed s1 sep s2 q1 q2 H1 H2 Hsep Hne.
  pose proof (select_core_script mk ctx_err read_failed [] [seg s1 q1 sep; seg s2 q2 []]) as T.
  cbn [DP.join seg DP.sg_toks DP.sg_sep app DP.script_stmts flat_map DP.sg_res DM.opt_list] in T.
  rewrite !app_nil_r in T. apply T.
  - reflexivity.
  - cbn [DP.seps_ok DP.sg_sep]. split; [exact Hsep|]. split; [intros _; exact Hne|].
    split; [reflexivity|]. split; [intros C; exfalso; apply C; reflexivity|exact I].
  - constructor; [exists q1; repeat split; try reflexivity; apply H1|].
    constructor; [exists q2; repeat split; try reflexivity; apply H2|constructor].
Qed.
