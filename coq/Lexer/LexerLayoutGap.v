(* C05, lexer part 3: separators are invisible.

   sep1 w  ->  filter not_comment_sig (TS (w ++ rest)) = filter not_comment_sig (TS rest)
   for a whitespace rune (any rune the lexer treats as whitespace, UTF-8 encoded), a complete line
   comment `--...\n` / `#...\n`, and a complete, properly nested block comment. *)
From Coq Require Import List NArith Bool Lia Arith ZifyBool.
From DC Require Import Base.Utf8 Base.Unicode Base.UnicodeFacts Base.Stream Base.Item Gen.TokenTable Gen.UnicodeTables
  Lexer.LexerModel Lexer.LexerTotal Lexer.LexerLayoutSpec Lexer.LexerLayoutRel Lexer.LexerLayoutRun.
Import ListNotations.
Local Open Scope bool_scope.

(* ---------- decoding facts ---------- *)

Lemma decode_ascii : forall b t, (b <? 128)%N = true -> decode_rune (b :: t) = (b, 1%nat).
Proof. intros b t H. unfold decode_rune. rewrite H. reflexivity. Qed.

(* a rune is either one ASCII byte, or at most four bytes that are all >= 128, and then the rune is >= 128 *)
Lemma decode_cases : forall b bs,
  ((b < 128)%N /\ decode_rune (b :: bs) = (b, 1%nat)) \/
  ((128 <= b)%N /\ (128 <= fst (decode_rune (b :: bs)))%N /\
   (1 <= snd (decode_rune (b :: bs)) <= 4)%nat /\
   (snd (decode_rune (b :: bs)) <= length (b :: bs))%nat /\
   Forall (fun x => (128 <= x)%N) (firstn (snd (decode_rune (b :: bs))) (b :: bs))).
Proof.
  intros b bs. unfold decode_rune, is_cont, in_range, rune_error.
  destruct (b <? 128)%N eqn:C0; [left; split; [lia|reflexivity]|right].
  split; [lia|].
  repeat match goal with
         | |- context [if ?c then _ else _] => let E := fresh "C" in destruct c eqn:E
         | |- context [match ?l with [] => _ | _ :: _ => _ end] => destruct l
         end; cbn [fst snd firstn length];
  (split; [lia|]); (split; [lia|]); (split; [lia|]);
  repeat (constructor; [lia|]); constructor.
Qed.

(* inside a run of bytes that is followed by an ASCII byte x, one rune stays inside the run *)
Lemma decode_in_body : forall b body x rest, (x < 128)%N ->
  let d := decode_rune ((b :: body) ++ x :: rest) in
  exists pre body', b :: body = pre ++ body' /\ pre <> [] /\
    skipn (snd d) ((b :: body) ++ x :: rest) = body' ++ x :: rest /\
    ((b < 128)%N /\ fst d = b \/ (128 <= b)%N /\ (128 <= fst d)%N).
Proof.
  intros b body x rest Hx d. subst d. cbn [app].
  destruct (decode_cases b (body ++ x :: rest)) as [(Hb & E)|(Hb & Hr & Hsz & Hlen & Hall)].
  - rewrite E. cbn [fst snd skipn]. exists [b], body. repeat split; [discriminate|left; split; [exact Hb|reflexivity]].
  - set (sz := snd (decode_rune (b :: body ++ x :: rest))) in *.
    assert (Hin : (sz <= length (b :: body))%nat).
    { destruct (le_lt_dec sz (length (b :: body))) as [H|H]; [exact H|exfalso].
      change (b :: body ++ x :: rest) with ((b :: body) ++ x :: rest) in Hall.
      rewrite firstn_app in Hall. apply Forall_app in Hall. destruct Hall as [_ Hall].
      destruct (sz - length (b :: body))%nat as [|k] eqn:Ek; [lia|].
      cbn [firstn] in Hall. inversion Hall as [|? ? Hx' _]. lia. }
    exists (firstn sz (b :: body)), (skipn sz (b :: body)).
    split; [symmetry; apply firstn_skipn|]. split.
    { destruct sz as [|k]; [lia|]. cbn [firstn]. discriminate. }
    split.
    { change (b :: body ++ x :: rest) with ((b :: body) ++ x :: rest).
      rewrite skipn_app. replace (sz - length (b :: body))%nat with 0%nat by lia. reflexivity. }
    right. split; assumption.
Qed.

(* ---------- small facts about states ---------- *)

Lemma at_cons_ascii : forall l b r, at_ l (b :: r) -> (b <? 128)%N = true ->
  l_ch l = b /\ l_eof l = false /\ l_src l = r /\ at_ (rc l) r.
Proof.
  intros l b r H Hb. pose proof (at_rc l b r H) as Hrc.
  destruct H as (A & B & C). unfold st_at in A, B, C. rewrite (decode_ascii b r Hb) in *.
  cbn [l_src l_ch l_eof fst snd skipn] in *. auto.
Qed.

Lemma at_cons : forall l b r, at_ l (b :: r) ->
  l_ch l = fst (decode_rune (b :: r)) /\ l_eof l = false /\ l_src l = skipn (snd (decode_rune (b :: r))) (b :: r).
Proof. intros l b r (A & B & C). unfold st_at in A, B, C. cbn [l_src l_ch l_eof] in *. auto. Qed.

Lemma at_nil : forall l, at_ l [] -> l_ch l = 0%N /\ l_eof l = true /\ l_src l = [].
Proof. intros l (A & B & C). cbn in A, B, C. auto. Qed.

Lemma min1_buf : Nat.min 1 bufio_size = 1%nat.
Proof. reflexivity. Qed.

Lemma pkc_src : forall l, l_eof l = false -> pkc l = pk_byte (l_src l).
Proof.
  intros l E. unfold pkc, peek_char. rewrite E. cbn [s_peek pure_stream]. unfold pure_peek.
  rewrite min1_buf. destruct (l_src l) as [|x s]; reflexivity.
Qed.

Lemma pk_byte_ascii : forall x r, (x <? 128)%N = true -> pk_byte (x :: r) = x.
Proof. intros x r H. unfold pk_byte. rewrite (decode_ascii x [] H). reflexivity. Qed.

(* the current character of a non-final state positioned in front of an ASCII byte after a run *)
Lemma hd_rune_ascii : forall x r, (x <? 128)%N = true -> hd_rune (x :: r) = x.
Proof. intros x r H. unfold hd_rune, st_at. rewrite (decode_ascii x r H). reflexivity. Qed.

(* skipWhitespace does nothing in front of a non-whitespace character *)
Lemma skip_ws_none : forall f l, is_ws (l_ch l) = false -> skip_whitespace pure_stream (Datatypes.S f) l = Some l.
Proof. intros f l H. unfold skip_whitespace, skip_while. cbn [loop]. rewrite H. reflexivity. Qed.

Lemma next_token_0 : forall l, next_token pure_stream 0 l = None.
Proof. reflexivity. Qed.

(* ---------- the general shape: one token, then the rest ---------- *)

Lemma TS_token : forall x r (P : sigT -> Prop),
  (forall f it l', next_token pure_stream f (st_at x) = Some (it, l') -> P (sig_item it) /\ at_ l' r) ->
  (forall s, P s -> fst (fst s) <> T_EOF) ->
  exists s, P s /\ TS x = s :: TS r.
Proof.
  intros x r P H Hne. unfold TS.
  set (l := st_at x). set (f := (mu l + 1)%nat).
  destruct (next_token_ok f l (st_at_wf x)) as (it & l' & E & _); [unfold f; lia|].
  destruct (H f it l' E) as [HP Hat].
  exists (sig_item it). split; [exact HP|].
  destruct (T_step f l it l' (st_at_wf x)) as (_ & [(A & _)|(_ & _ & Ht)]); [unfold f; lia|exact E| |].
  - exfalso. apply (Hne _ HP). exact A.
  - rewrite Ht. f_equal. apply at_T, Hat.
Qed.

(* ---------- whitespace runes ---------- *)

Definition expand_range (p : N * N) : list N :=
  map (fun k => (fst p + N.of_nat k)%N) (seq 0 (N.to_nat (snd p - fst p) + 1)).

Lemma in_ranges_expand : forall rs r, in_ranges rs r = true -> In r (flat_map expand_range rs).
Proof.
  induction rs as [|[lo hi] rs IH]; intros r H; cbn [in_ranges] in H; [discriminate H|].
  cbn [flat_map]. apply in_or_app.
  destruct ((lo <=? r)%N && (r <=? hi)%N) eqn:C; [left|right; apply IH; exact H].
  unfold expand_range. cbn [fst snd]. apply in_map_iff. exists (N.to_nat (r - lo)).
  split; [lia|]. apply in_seq. lia.
Qed.

Definition ws_list : list N :=
  Eval vm_compute in (flat_map expand_range unicode_space_ranges ++ [65279; 6158; 8203; 8204; 8205; 8288])%N.

Lemma is_ws_in_list : forall r, is_ws r = true -> In r ws_list.
Proof.
  intros r H. change ws_list with (flat_map expand_range unicode_space_ranges ++ [65279; 6158; 8203; 8204; 8205; 8288])%N.
  apply in_or_app. unfold is_ws in H. apply orb_prop in H. destruct H as [H|H].
  - left. apply in_ranges_expand. destruct (fast_paths_ok r) as (E & _). rewrite E in H. exact H.
  - right. unfold is_ch_ws in H. cbn [In].
    repeat (apply orb_prop in H; destruct H as [H|H]); apply N.eqb_eq in H; auto 10.
Qed.

Lemma ws_list_decode : forall r, In r ws_list -> forall rest,
  decode_rune (encode_rune r ++ rest) = (r, length (encode_rune r)) /\ encode_rune r <> [].
Proof.
  intros r H. unfold ws_list in H. cbn [In] in H.
  repeat (destruct H as [<-|H]; [intros rest; split; [reflexivity|discriminate]|]).
  contradiction.
Qed.

Lemma TS_ws : forall r rest, is_ws r = true -> TS (encode_rune r ++ rest) = TS rest.
Proof.
  intros r rest H. destruct (ws_list_decode r (is_ws_in_list r H) rest) as [Hd Hne].
  unfold TS. destruct (encode_rune r ++ rest) as [|b bs] eqn:Ex.
  { destruct (encode_rune r); [contradiction|discriminate Ex]. }
  rewrite T_ws.
  - apply at_T. pose proof (at_rc (st_at (b :: bs)) b bs (at_st _)) as Hrc.
    rewrite Hd in Hrc. cbn [snd] in Hrc. rewrite <- Ex in Hrc.
    rewrite skipn_app, skipn_all, Nat.sub_diag in Hrc. cbn [app skipn] in Hrc. rewrite Ex in Hrc. exact Hrc.
  - apply st_at_wf.
  - unfold st_at. rewrite Hd. cbn [l_ch fst]. exact H.
Qed.

(* ---------- line comments ---------- *)

Lemma to_eol_step : forall f stop (l : plex) b,
  to_eol pure_stream (Datatypes.S f) stop (l, b) =
  if not_eol l && negb (stop && (l_ch l =? 59)%N) then to_eol pure_stream f stop (rc l, wr (l_ch l) b)
  else Some (l, b).
Proof.
  intros f stop l b. unfold to_eol. cbn [loop].
  destruct (not_eol l && negb (stop && (l_ch l =? 59)%N)); reflexivity.
Qed.

Lemma forallb_suffix : forall {A : Type} (p : A -> bool) pre suf, forallb p (pre ++ suf) = true -> forallb p suf = true.
Proof. intros A p pre suf H. rewrite forallb_app in H. apply andb_prop in H. apply H. Qed.

Lemma to_eol_body : forall f body rest (l : plex) b l' b',
  at_ l (body ++ 10%N :: rest) -> no_nl_b body = true ->
  to_eol pure_stream f false (l, b) = Some (l', b') -> at_ l' (10%N :: rest).
Proof.
  induction f as [|f IH]; intros body rest l b l' b' Hat Hnl E; [discriminate E|].
  rewrite to_eol_step in E. cbn [andb negb] in E. rewrite andb_true_r in E.
  destruct body as [|b0 body].
  - cbn [app] in Hat. destruct (at_cons_ascii l 10%N rest Hat eq_refl) as (Hc & _).
    unfold not_eol in E. rewrite Hc in E. cbn in E. injection E as <- <-. exact Hat.
  - destruct (decode_in_body b0 body 10%N rest) as (pre & body' & Hsplit & Hpre & Hskip & Hr); [lia|].
    pose proof (at_rc l b0 (body ++ 10%N :: rest) Hat) as Hrc.
    change (b0 :: body ++ 10%N :: rest) with ((b0 :: body) ++ 10%N :: rest) in Hrc. rewrite Hskip in Hrc.
    destruct (at_cons l b0 (body ++ 10%N :: rest) Hat) as (Hc & He & _).
    change (b0 :: body ++ 10%N :: rest) with ((b0 :: body) ++ 10%N :: rest) in Hc.
    assert (Hb0 : (b0 <> 10 /\ b0 <> 0)%N).
    { cbn [no_nl_b forallb] in Hnl. apply andb_prop in Hnl. destruct Hnl as [Hnl _]. lia. }
    assert (Hne : not_eol l = true).
    { unfold not_eol. rewrite He, Hc. destruct Hr as [(_ & ->)|(_ & Hr)]; lia. }
    rewrite Hne in E.
    apply (IH body' rest (rc l) (wr (l_ch l) b) l' b' Hrc); [|exact E].
    unfold no_nl_b in *. rewrite Hsplit in Hnl. eapply forallb_suffix; exact Hnl.
Qed.

Definition is_comment_sig (s : sigT) : Prop := fst (fst s) = T_LINE_COMMENT.

Lemma comment_not_eof : forall s, is_comment_sig s -> fst (fst s) <> T_EOF.
Proof. intros s H. rewrite H. vm_compute. discriminate. Qed.

(* resolve, by conversion, every `if` whose condition is closed *)
Ltac walk :=
  repeat match goal with
         | H : context [if ?c then _ else _] |- _ =>
             first [ change c with true in H | change c with false in H ]; cbv iota in H
         end.

Lemma next_token_dash : forall f body rest it l',
  no_nl_b body = true ->
  next_token pure_stream f (st_at (45 :: 45 :: body ++ 10 :: rest)%N) = Some (it, l') ->
  is_comment_sig (sig_item it) /\ at_ l' (10%N :: rest).
Proof.
  intros f body rest it l' Hnl E. destruct f as [|f]; [discriminate E|].
  set (x := (45 :: 45 :: body ++ 10 :: rest)%N) in *.
  pose proof (at_st x) as Hat. set (l := st_at x) in *.
  destruct (at_cons_ascii l 45%N _ Hat eq_refl) as (Hc & He & Hs & Hat1).
  destruct (at_cons_ascii (rc l) 45%N _ Hat1 eq_refl) as (_ & _ & _ & Hat2).
  unfold next_token in E. rewrite skip_ws_none in E by (rewrite Hc; reflexivity).
  cbn [bind] in E. rewrite peek_char_eta in E. rewrite (pkc_src l He), Hs in E.
  rewrite pk_byte_ascii in E by reflexivity. rewrite He, Hc in E.
  cbv beta zeta in E. walk.
  unfold read_line_comment in E.
  destruct (to_eol pure_stream (Datatypes.S f) false _) as [[l1 b1]|] eqn:Et; [|discriminate E].
  cbn [bind] in E. injection E as <- <-.
  split; [reflexivity|]. eapply to_eol_body; [exact Hat2|exact Hnl|exact Et].
Qed.

Lemma next_token_hash : forall f body rest it l',
  no_nl_b body = true ->
  next_token pure_stream f (st_at (35 :: body ++ 10 :: rest)%N) = Some (it, l') ->
  is_comment_sig (sig_item it) /\ at_ l' (10%N :: rest).
Proof.
  intros f body rest it l' Hnl E. destruct f as [|f]; [discriminate E|].
  set (x := (35 :: body ++ 10 :: rest)%N) in *.
  pose proof (at_st x) as Hat. set (l := st_at x) in *.
  destruct (at_cons_ascii l 35%N _ Hat eq_refl) as (Hc & He & Hs & Hat1).
  unfold next_token in E. rewrite skip_ws_none in E by (rewrite Hc; reflexivity).
  cbn [bind] in E. rewrite He, Hc in E.
  cbv beta zeta in E. walk.
  unfold read_hash_comment in E.
  destruct (to_eol pure_stream (Datatypes.S f) false _) as [[l1 b1]|] eqn:Et; [|discriminate E].
  cbn [bind] in E. injection E as <- <-.
  split; [reflexivity|]. eapply to_eol_body; [exact Hat1|exact Hnl|exact Et].
Qed.

Lemma TS_nl : forall rest, TS (10%N :: rest) = TS rest.
Proof. intros rest. apply (TS_ws 10%N rest). reflexivity. Qed.

Definition vis (s : list sigT) : list sigT := filter not_comment_sig s.

Lemma vis_comment : forall s rest, is_comment_sig s -> vis (s :: rest) = vis rest.
Proof.
  intros s rest H. unfold vis. cbn [filter]. unfold not_comment_sig. rewrite H. reflexivity.
Qed.

Lemma vis_dash : forall body rest, no_nl_b body = true ->
  vis (TS (45 :: 45 :: body ++ 10 :: rest)%N) = vis (TS rest).
Proof.
  intros body rest Hnl.
  destruct (TS_token (45 :: 45 :: body ++ 10 :: rest)%N (10%N :: rest) is_comment_sig) as (s & Hs & E).
  - intros f it l' En. apply (next_token_dash f body rest it l' Hnl En).
  - apply comment_not_eof.
  - rewrite E, (vis_comment s _ Hs), TS_nl. reflexivity.
Qed.

Lemma vis_hash : forall body rest, no_nl_b body = true ->
  vis (TS (35 :: body ++ 10 :: rest)%N) = vis (TS rest).
Proof.
  intros body rest Hnl.
  destruct (TS_token (35 :: body ++ 10 :: rest)%N (10%N :: rest) is_comment_sig) as (s & Hs & E).
  - intros f it l' En. apply (next_token_hash f body rest it l' Hnl En).
  - apply comment_not_eof.
  - rewrite E, (vis_comment s _ Hs), TS_nl. reflexivity.
Qed.

(* ---------- block comments ---------- *)

Lemma block_loop_step : forall f (st : plex * sb * nat),
  loop (Datatypes.S f) (block_body pure_stream) st =
  if snd (block_body pure_stream st) then loop f (block_body pure_stream) (fst (block_body pure_stream st))
  else Some (fst (block_body pure_stream st)).
Proof. intros f st. cbn [loop]. destruct (block_body pure_stream st) as [a c]. reflexivity. Qed.

(* bytes >= 128 are skipped by the recogniser one at a time *)
Lemma blk_skip_high : forall k bs d rest,
  blk d bs = Some rest -> Forall (fun x => (128 <= x)%N) (firstn k bs) -> (k <= length bs)%nat ->
  blk d (skipn k bs) = Some rest.
Proof.
  induction k as [|k IH]; intros bs d rest E Hall Hk; [exact E|].
  destruct bs as [|c r]; [cbn in Hk; lia|].
  cbn [firstn] in Hall. inversion Hall as [|? ? Hc Hall']. subst.
  cbn [skipn]. apply IH; [|exact Hall'|cbn [length] in Hk; lia].
  cbn [blk] in E. destruct r as [|c2 r2]; [discriminate E|].
  replace (c =? 42)%N with false in E by lia. replace (c =? 47)%N with false in E by lia.
  cbn [andb] in E. exact E.
Qed.

Lemma pk_byte_ne : forall c2 r2 k, (k < 128)%N -> c2 <> k -> pk_byte (c2 :: r2) <> k.
Proof.
  intros c2 r2 k Hk Hne. unfold pk_byte.
  destruct (decode_cases c2 []) as [(H & E)|(H & Hr & _)]; [rewrite E; exact Hne|lia].
Qed.

Lemma block_loop_spec : forall f bs d (l : plex) b rest l' b' n',
  at_ l bs -> blk d bs = Some rest -> (0 < d)%nat ->
  loop f (block_body pure_stream) (l, b, d) = Some (l', b', n') -> at_ l' rest.
Proof.
  induction f as [|f IH]; intros bs d l b rest l' b' n' Hat Hb Hd E; [discriminate E|].
  rewrite block_loop_step in E.
  destruct bs as [|c r]; [discriminate Hb|]. destruct r as [|c2 r2]; [discriminate Hb|].
  destruct (at_cons l c (c2 :: r2) Hat) as (Hc & He & Hs).
  pose proof (at_rc l c (c2 :: r2) Hat) as Hrc.
  assert (Hnest : Nat.ltb 0 d = true) by (apply Nat.ltb_lt; exact Hd).
  unfold block_body in E. rewrite He, Hnest in E. cbn [negb andb] in E.
  rewrite peek_char_eta in E. rewrite (pkc_src l He) in E.
  destruct (decode_cases c (c2 :: r2)) as [(Hlt & Ed)|(Hge & Hr & Hsz & Hlen & Hall)].
  - (* ASCII current character *)
    rewrite Ed in Hc, Hs, Hrc. cbn [fst snd skipn] in Hc, Hs, Hrc. rewrite Hs, Hc in E.
    cbn [blk] in Hb.
    destruct ((c =? 42)%N && (c2 =? 47)%N) eqn:C1.
    + (* close *)
      assert (c = 42%N /\ c2 = 47%N) as [-> ->] by lia.
      destruct (at_cons_ascii (rc l) 47%N r2 Hrc eq_refl) as (_ & _ & _ & Hrc2).
      cbn [N.eqb Pos.eqb orb andb] in E. rewrite pk_byte_ascii in E by reflexivity.
      cbn [N.eqb Pos.eqb orb andb fst snd] in E.
      destruct d as [|[|d']]; [lia| |].
      * injection Hb as <-. destruct f as [|f]; [discriminate E|].
        rewrite block_loop_step in E. unfold block_body in E. cbn [Nat.sub Nat.ltb Nat.leb] in E.
        rewrite andb_false_r in E. cbn [fst snd] in E. injection E as <- _ _. exact Hrc2.
      * eapply (IH r2 (Datatypes.S d')); [exact Hrc2|exact Hb|lia|exact E].
    + destruct ((c =? 47)%N && (c2 =? 42)%N) eqn:C2.
      * (* open *)
        assert (c = 47%N /\ c2 = 42%N) as [-> ->] by lia.
        destruct (at_cons_ascii (rc l) 42%N r2 Hrc eq_refl) as (_ & _ & _ & Hrc2).
        cbn [N.eqb Pos.eqb orb andb] in E. rewrite pk_byte_ascii in E by reflexivity.
        cbn [N.eqb Pos.eqb orb andb fst snd] in E.
        eapply (IH r2 (Datatypes.S d)); [exact Hrc2|exact Hb|lia|exact E].
      * (* an ordinary character *)
        assert (Hk1 : ((c =? 42)%N && (pk_byte (c2 :: r2) =? 47)%N) = false).
        { destruct (c =? 42)%N eqn:Cc; [|reflexivity]. cbn [andb] in *.
          apply N.eqb_neq. apply pk_byte_ne; lia. }
        assert (Hk2 : ((c =? 47)%N && (pk_byte (c2 :: r2) =? 42)%N) = false).
        { destruct (c =? 47)%N eqn:Cc; [|reflexivity]. cbn [andb] in *.
          apply N.eqb_neq. apply pk_byte_ne; lia. }
        destruct ((c =? 42)%N || (c =? 47)%N); cbv beta iota zeta in E; rewrite ?Hk1, ?Hk2 in E;
          cbn [N.eqb Pos.eqb andb fst snd] in E; rewrite ?andb_false_r in E; cbn [fst snd] in E;
          (eapply (IH (c2 :: r2) d); [exact Hrc|exact Hb|exact Hd|exact E]).
  - (* a rune >= 128 *)
    assert (H42 : (l_ch l =? 42)%N = false) by lia.
    assert (H47 : (l_ch l =? 47)%N = false) by lia.
    rewrite H42, H47 in E. cbn [orb andb fst snd] in E.
    eapply (IH _ d); [exact Hrc| |exact Hd|exact E].
    apply blk_skip_high; [exact Hb|exact Hall|exact Hlen].
Qed.

Lemma next_token_block : forall f inner rest it l',
  blk 1 inner = Some rest ->
  next_token pure_stream f (st_at (47 :: 42 :: inner)%N) = Some (it, l') ->
  is_comment_sig (sig_item it) /\ at_ l' rest.
Proof.
  intros f inner rest it l' Hb E. destruct f as [|f]; [discriminate E|].
  set (x := (47 :: 42 :: inner)%N) in *.
  pose proof (at_st x) as Hat. set (l := st_at x) in *.
  destruct (at_cons_ascii l 47%N _ Hat eq_refl) as (Hc & He & Hs & Hat1).
  destruct (at_cons_ascii (rc l) 42%N _ Hat1 eq_refl) as (_ & _ & _ & Hat2).
  unfold next_token in E. rewrite skip_ws_none in E by (rewrite Hc; reflexivity).
  cbn [bind] in E. rewrite peek_char_eta in E. rewrite (pkc_src l He), Hs in E.
  rewrite pk_byte_ascii in E by reflexivity. rewrite He, Hc in E.
  cbv beta zeta in E. walk.
  unfold read_block_comment in E.
  destruct (loop (Datatypes.S f) (block_body pure_stream) _) as [[[l1 b1] n1]|] eqn:Et; [|discriminate E].
  cbn [bind] in E. injection E as <- <-.
  split; [reflexivity|]. eapply block_loop_spec; [exact Hat2|exact Hb|lia|exact Et].
Qed.

Lemma vis_block : forall inner rest, blk 1 inner = Some rest ->
  vis (TS (47 :: 42 :: inner)%N) = vis (TS rest).
Proof.
  intros inner rest Hb.
  destruct (TS_token (47 :: 42 :: inner)%N rest is_comment_sig) as (s & Hs & E).
  - intros f it l' En. apply (next_token_block f inner rest it l' Hb En).
  - apply comment_not_eof.
  - rewrite E, (vis_comment s _ Hs). reflexivity.
Qed.

(* blk d inner = Some [] composes with what follows *)
Lemma blk_app_n : forall n inner d rest tail, (length inner <= n)%nat ->
  blk d inner = Some rest -> blk d (inner ++ tail) = Some (rest ++ tail).
Proof.
  induction n as [|n IH]; intros inner d rest tail Hn E.
  { destruct inner; [discriminate E|cbn in Hn; lia]. }
  destruct inner as [|c r]; [discriminate E|]. destruct r as [|c2 r2]; [discriminate E|].
  cbn [blk app] in *. cbn [length] in Hn.
  destruct ((c =? 42)%N && (c2 =? 47)%N).
  - destruct d as [|[|d']]; [discriminate E|injection E as <-; reflexivity|].
    apply IH; [lia|exact E].
  - destruct ((c =? 47)%N && (c2 =? 42)%N).
    + apply IH; [lia|exact E].
    + apply (IH (c2 :: r2)); [cbn [length]; lia|exact E].
Qed.

Lemma blk_app : forall inner d rest tail, blk d inner = Some rest -> blk d (inner ++ tail) = Some (rest ++ tail).
Proof. intros inner d rest tail. apply (blk_app_n (length inner)). lia. Qed.

(* ---------- separators ---------- *)

Theorem vis_sep1 : forall w rest, sep1 w -> vis (TS (w ++ rest)) = vis (TS rest).
Proof.
  intros w rest H. destruct H as [r Hr|body Hb|body Hb|inner Hb].
  - rewrite TS_ws by exact Hr. reflexivity.
  - cbn [app]. rewrite <- app_assoc. cbn [app]. apply vis_dash, Hb.
  - cbn [app]. rewrite <- app_assoc. cbn [app]. apply vis_hash, Hb.
  - cbn [app]. apply vis_block. apply (blk_app inner 1 [] rest Hb).
Qed.

Theorem vis_sep : forall w rest, is_sep w -> vis (TS (w ++ rest)) = vis (TS rest).
Proof.
  intros w rest H. induction H as [|w ws Hw _ IH]; [reflexivity|].
  rewrite <- app_assoc. rewrite vis_sep1 by exact Hw. exact IH.
Qed.
