(* Two facts about Base/Utf8.v used by LexerPos.v for the "value is the source text" part of C13 (c):
   a rune below 128 is decoded from exactly the byte with that value, and a decoded rune other than
   U+FFFD re-encodes to exactly the bytes it was decoded from (so strings.Builder.WriteRune(l.ch)
   reproduces the source for every validly encoded character). *)
From Coq Require Import List NArith ZArith Bool Lia Arith ZifyN ZifyNat ZifyBool.
From DC Require Import Base.Utf8.
Import ListNotations.
Local Open Scope N_scope.

(* let lia see through the divisions/remainders by constants in encode_rune (this file only) *)
Ltac Zify.zify_post_hook ::= Z.div_mod_to_equations.

Lemma decode_ascii_inv : forall b t r sz, decode_rune (b :: t) = (r, sz) -> r < 128 -> r = b /\ sz = 1%nat.
Proof.
  intros b t r sz H Hr. unfold decode_rune in H. unfold is_cont, in_range in H.
  repeat match type of H with
         | context [if ?c then _ else _] => destruct c eqn:?
         | context [match ?l with [] => _ | _ :: _ => _ end] => destruct l
         end; inversion H; subst; unfold rune_error in *; try lia.
Qed.

Lemma decode_encode : forall b t r sz, decode_rune (b :: t) = (r, sz) -> r <> rune_error ->
  firstn sz (b :: t) = encode_rune r.
Proof.
  intros b t r sz H Hr. unfold decode_rune in H. unfold is_cont, in_range in H.
  repeat match type of H with
         | context [if ?c then _ else _] => destruct c eqn:?
         | context [match ?l with [] => _ | _ :: _ => _ end] => destruct l
         end; inversion H; subst; try (exfalso; apply Hr; reflexivity); clear H Hr;
  unfold encode_rune, is_surrogate, in_range, max_rune; cbn [firstn];
  repeat match goal with
         | |- context [if ?c then _ else _] => let E := fresh in destruct c eqn:E; try (exfalso; lia)
         end;
  repeat (f_equal; try lia).
Qed.

Ltac Zify.zify_post_hook ::= idtac.
