(* C05, lexer part 4 (continued): follow-independence for numbers and quoted tokens. *)
From Coq Require Import List NArith Bool Lia Arith ZifyBool.
From DC Require Import Base.Utf8 Base.Unicode Base.UnicodeFacts Base.Stream Base.Item Gen.TokenTable
  Lexer.LexerModel Lexer.LexerTotal Lexer.LexerLayoutSpec Lexer.LexerLayoutRel Lexer.LexerLayoutRun
  Lexer.LexerLayoutGap Lexer.LexerLayoutTok.
Import ListNotations.
Local Open Scope bool_scope.

(* ---------- numbers ---------- *)

Lemma take_while_step : forall f cond (l : plex) b,
  take_while pure_stream (Datatypes.S f) cond (l, b) =
  if cond (l_ch l) then take_while pure_stream f cond (rc l, wr (l_ch l) b) else Some (l, b).
Proof. intros f cond l b. unfold take_while. cbn [loop]. destruct (cond (l_ch l)); reflexivity. Qed.

Lemma wr_ascii : forall c b, (c < 128)%N -> wr c b = c :: b.
Proof. intros c b H. unfold wr. rewrite (encode_ascii c H). reflexivity. Qed.

Lemma take_while_spec : forall f cond t r (l : plex) b l1 b1,
  at_ l (t ++ r) -> forallb (fun x => (x <? 128)%N && cond x) t = true -> cond (hd_rune r) = false ->
  take_while pure_stream f cond (l, b) = Some (l1, b1) -> at_ l1 r /\ b1 = rev t ++ b.
Proof.
  induction f as [|f IH]; intros cond t r l b l1 b1 Hat Ht Hr E; [discriminate E|].
  rewrite take_while_step in E. destruct t as [|c t].
  - cbn [app] in Hat. rewrite (at_ch _ _ Hat), Hr in E. injection E as <- <-. split; [exact Hat|reflexivity].
  - cbn [forallb] in Ht. apply andb_prop in Ht. destruct Ht as [Hc Ht]. apply andb_prop in Hc. destruct Hc as [Hlt Hc].
    destruct (at_cons_ascii l c (t ++ r) Hat Hlt) as (Hch & _ & _ & Hat1).
    rewrite Hch, Hc, wr_ascii in E by lia.
    destruct (IH cond t r (rc l) (c :: b) l1 b1 Hat1 Ht Hr E) as [H1 H2].
    split; [exact H1|]. rewrite H2. cbn [rev]. rewrite <- app_assoc. reflexivity.
Qed.

Lemma digits_forallb : forall t, digits t = true -> forallb (fun x => (x <? 128)%N && is_digit x) t = true.
Proof.
  intros t H. destruct t as [|c t]; [cbn in H; discriminate H|]. unfold digits in H.
  apply forallb_forall. intros x Hx. pose proof (proj1 (forallb_forall _ _) H x Hx) as Hd.
  rewrite (digit_a_ok x Hd). pose proof (digit_a_lt x Hd). lia.
Qed.

Lemma not_letter_ne : forall c k, is_letter c = false -> is_letter k = true -> (c =? k)%N = false.
Proof. intros c k Hc Hk. apply N.eqb_neq. intros ->. congruence. Qed.

Lemma us_digit_groups_none : forall f (l : plex) b, (l_ch l =? 95)%N = false ->
  us_digit_groups pure_stream (Datatypes.S f) (l, b) = Some (l, b).
Proof. intros f l b H. unfold us_digit_groups. cbn [loopo]. rewrite H. reflexivity. Qed.

Lemma skip_underscores_none : forall f (l : plex), (l_ch l =? 95)%N = false ->
  skip_underscores pure_stream (Datatypes.S f) l = Some l.
Proof. intros f l H. unfold skip_underscores. cbn [loop]. rewrite H. reflexivity. Qed.

(* the part of number_rest after the fraction: exponent, late 0x/0b/0o handling *)
Definition tailK (fuel : nat) (pos : pos) (start_ch : N) (st : plex * sb) : option (item * plex) :=
  bind (exponent_part pure_stream fuel st) (fun st =>
  let l := fst st in let b := snd st in
  let val0 := bytes_eqb (sb_str b) [48%N] in
  let after_hex_bin :=
    if val0 && ((l_ch l =? 120)%N || (l_ch l =? 88)%N) then
      hex_tail pure_stream fuel (rc l, wr (l_ch l) b)
    else if val0 && ((l_ch l =? 98)%N || (l_ch l =? 66)%N) then
      let pk := fst (peek_char pure_stream l) in let l1 := snd (peek_char pure_stream l) in
      if (pk =? 48)%N || (pk =? 49)%N then
        take_while pure_stream fuel is_bin_char (rc l1, wr (l_ch l1) b)
      else Some (l1, b)
    else Some (l, b) in
  bind after_hex_bin (fun st =>
  let l := fst st in let b := snd st in
  let after_oct :=
    if (start_ch =? 48)%N && Nat.eqb (length b) 1 && ((l_ch l =? 111)%N || (l_ch l =? 79)%N) then
      take_while pure_stream fuel is_oct_char (rc l, wr (l_ch l) b)
    else Some (l, b) in
  bind after_oct (num_item pos))).

Lemma number_rest_unfold : forall fuel p sc st,
  number_rest pure_stream fuel p sc st =
  bind (us_digit_groups pure_stream fuel st) (fun st =>
  bind (fraction_part pure_stream fuel st) (tailK fuel p sc)).
Proof. reflexivity. Qed.

Lemma tailK_plain : forall f p sc (l : plex) b r, at_ l r -> follow_num r = true ->
  tailK (Datatypes.S f) p sc (l, b) = Some (mk_item T_NUMBER (sb_str b) p false, l).
Proof.
  intros f p sc l b r Hat Hf. unfold follow_num in Hf. rewrite <- (at_ch _ _ Hat) in Hf.
  split_follow.
  assert (L : forall k, is_letter k = true -> (l_ch l =? k)%N = false) by (intros k Hk; apply not_letter_ne; assumption).
  unfold tailK, exponent_part. rewrite (L 101%N), (L 69%N) by reflexivity. cbn [orb bind fst snd]. cbv zeta.
  rewrite (L 120%N), (L 88%N), (L 98%N), (L 66%N) by reflexivity.
  cbn [orb]. rewrite !andb_false_r. cbn [bind fst snd].
  rewrite (L 111%N), (L 79%N) by reflexivity. cbn [orb]. rewrite !andb_false_r. reflexivity.
Qed.

Lemma int_ok : forall t r f it l', digits t = true -> follow_num r = true ->
  next_token pure_stream f (st_at (t ++ r)) = Some (it, l') ->
  sig_item it = (T_NUMBER, t, false) /\ at_ l' r.
Proof.
  intros t r f it l' Hd Hf E. destruct f as [|f]; [discriminate E|].
  pose proof (digits_forallb t Hd) as Hfa.
  destruct t as [|c cs]; [cbn in Hd; discriminate Hd|].
  assert (Hc : is_digit_a c = true) by (cbn [digits forallb] in Hd; apply andb_prop in Hd; apply Hd).
  pose proof (at_st ((c :: cs) ++ r)) as Hat. set (l := st_at ((c :: cs) ++ r)) in *.
  destruct (at_cons_ascii l c (cs ++ r) Hat) as (Hch & He & Hs & Hat1); [pose proof (digit_a_lt c Hc); lia|].
  rewrite nt_digit_dispatch in E by (try rewrite Hch; assumption).
  unfold read_number_or_ident in E.
  destruct (take_while pure_stream (Datatypes.S f) is_digit (l, [])) as [[l1 b1]|] eqn:Et; [|discriminate E].
  pose proof Hf as Hf0. unfold follow_num in Hf. split_follow.
  destruct (take_while_spec (Datatypes.S f) is_digit (c :: cs) r l [] l1 b1 Hat Hfa) as [Ha1 Ha2];
    [assumption|exact Et|].
  cbn [bind fst snd] in E. cbv zeta in E.
  pose proof (at_ch _ _ Ha1) as Hc1.
  assert (L : forall k, is_letter k = true -> (l_ch l1 =? k)%N = false).
  { intros k Hk. apply not_letter_ne; [rewrite Hc1; assumption|exact Hk]. }
  assert (H95 : (l_ch l1 =? 95)%N = false) by (rewrite Hc1; assumption).
  assert (H46 : (l_ch l1 =? 46)%N = false) by (rewrite Hc1; assumption).
  assert (Hlet : is_letter (l_ch l1) = false) by (rewrite Hc1; assumption).
  rewrite H95, Hlet in E. cbn [andb] in E.
  rewrite number_rest_unfold in E. rewrite us_digit_groups_none in E by exact H95. cbn [bind] in E.
  unfold fraction_part in E. rewrite H46 in E. cbn [bind] in E.
  rewrite (tailK_plain f _ _ l1 b1 r Ha1 Hf0) in E.
  injection E as <- <-. split; [|exact Ha1].
  unfold sig_item. cbn [it_tok it_val it_quoted mk_item]. rewrite Ha2, app_nil_r.
  unfold sb_str, frev. rewrite rev_append_rev, app_nil_r, rev_involutive. reflexivity.
Qed.

Definition dbody (fuel : nat) : plex * sb -> option (plex * sb * bool) :=
  fun '(l, b) =>
    if is_digit (l_ch l) then
      let b := wr (l_ch l) b in
      let l := read_char pure_stream l in
      match skip_underscores pure_stream fuel l with
      | Some l' => Some ((l', b), true)
      | None => None
      end
    else Some ((l, b), false).

Lemma digits_us_unfold : forall fuel st, digits_us pure_stream fuel st = loopo fuel (dbody fuel) st.
Proof. reflexivity. Qed.

Lemma digits_loop_spec : forall n F t r (l : plex) b l1 b1,
  at_ l (t ++ r) -> forallb is_digit_a t = true ->
  is_digit (hd_rune r) = false -> (hd_rune r =? 95)%N = false ->
  loopo n (dbody (Datatypes.S F)) (l, b) = Some (l1, b1) -> at_ l1 r /\ b1 = rev t ++ b.
Proof.
  induction n as [|n IH]; intros F t r l b l1 b1 Hat Ht Hr H95 E; [discriminate E|].
  cbn [loopo] in E. unfold dbody at 1 in E. destruct t as [|c t].
  - cbn [app] in Hat. rewrite (at_ch _ _ Hat), Hr in E. injection E as <- <-. split; [exact Hat|reflexivity].
  - cbn [forallb] in Ht. apply andb_prop in Ht. destruct Ht as [Hc Ht].
    pose proof (digit_a_lt c Hc) as Hlt.
    destruct (at_cons_ascii l c (t ++ r) Hat) as (Hch & _ & _ & Hat1); [lia|].
    rewrite Hch, (digit_a_ok c Hc) in E. cbv zeta in E.
    assert (Hn95 : (l_ch (rc l) =? 95)%N = false).
    { rewrite (at_ch _ _ Hat1). destruct t as [|c2 t2]; [exact H95|].
      cbn [app forallb] in *. apply andb_prop in Ht. destruct Ht as [Hc2 _].
      rewrite hd_rune_ascii by (pose proof (digit_a_lt c2 Hc2); lia).
      unfold is_digit_a, in_range in Hc2. lia. }
    rewrite (skip_underscores_none F (rc l) Hn95) in E. rewrite wr_ascii in E by lia.
    destruct (IH F t r (rc l) (c :: b) l1 b1 Hat1 Ht Hr H95 E) as [H1 H2].
    split; [exact H1|]. rewrite H2. cbn [rev]. rewrite <- app_assoc. reflexivity.
Qed.

Lemma dec_ok : forall t1 t2 r f it l', digits t1 = true -> digits t2 = true -> follow_num r = true ->
  next_token pure_stream f (st_at ((t1 ++ 46%N :: t2) ++ r)) = Some (it, l') ->
  sig_item it = (T_NUMBER, t1 ++ 46%N :: t2, false) /\ at_ l' r.
Proof.
  intros t1 t2 r f it l' Hd1 Hd2 Hf E. destruct f as [|f]; [discriminate E|].
  pose proof (digits_forallb t1 Hd1) as Hfa.
  rewrite <- app_assoc in E. cbn [app] in E.
  destruct t1 as [|c cs]; [cbn in Hd1; discriminate Hd1|].
  assert (Hc : is_digit_a c = true) by (cbn [digits forallb] in Hd1; apply andb_prop in Hd1; apply Hd1).
  pose proof (at_st ((c :: cs) ++ 46%N :: t2 ++ r)) as Hat. set (l := st_at ((c :: cs) ++ 46%N :: t2 ++ r)) in *.
  destruct (at_cons_ascii l c (cs ++ 46%N :: t2 ++ r) Hat) as (Hch & He & Hs & Hat1); [pose proof (digit_a_lt c Hc); lia|].
  rewrite nt_digit_dispatch in E by (try rewrite Hch; assumption).
  unfold read_number_or_ident in E.
  destruct (take_while pure_stream (Datatypes.S f) is_digit (l, [])) as [[l1 b1]|] eqn:Et; [|discriminate E].
  destruct (take_while_spec (Datatypes.S f) is_digit (c :: cs) (46%N :: t2 ++ r) l [] l1 b1 Hat Hfa) as [Ha1 Ha2];
    [reflexivity|exact Et|].
  cbn [bind fst snd] in E. cbv zeta in E.
  destruct (at_cons_ascii l1 46%N (t2 ++ r) Ha1 eq_refl) as (Hc1 & He1 & Hs1 & Hat2).
  repeat (rewrite Hc1 in E; walk).
  rewrite number_rest_unfold in E. rewrite us_digit_groups_none in E by (rewrite Hc1; reflexivity).
  cbn [bind] in E. unfold fraction_part in E. rewrite Hc1 in E. cbv iota in E. walk.
  rewrite peek_char_eta in E. rewrite (pkc_src l1 He1), Hs1 in E.
  destruct t2 as [|d ds]; [cbn in Hd2; discriminate Hd2|].
  assert (Hd : is_digit_a d = true) by (cbn [digits forallb] in Hd2; apply andb_prop in Hd2; apply Hd2).
  cbn [app] in E. rewrite pk_byte_ascii in E by (pose proof (digit_a_lt d Hd); lia).
  rewrite (digit_a_ok d Hd) in E. cbn [orb] in E. rewrite Hc1 in E.
  rewrite digits_us_unfold in E.
  destruct (loopo (Datatypes.S f) (dbody (Datatypes.S f)) (rc l1, wr 46%N b1)) as [[l2 b2]|] eqn:El; [|discriminate E].
  pose proof Hf as Hf0. unfold follow_num in Hf. split_follow.
  destruct (digits_loop_spec (Datatypes.S f) f (d :: ds) r (rc l1) (wr 46%N b1) l2 b2 Hat2) as [Hb1 Hb2];
    [exact Hd2|assumption|assumption|exact El|].
  cbn [bind] in E. rewrite (tailK_plain f _ _ l2 b2 r Hb1 Hf0) in E.
  injection E as <- <-. split; [|exact Hb1].
  unfold sig_item. cbn [it_tok it_val it_quoted mk_item]. rewrite Hb2, Ha2, app_nil_r.
  rewrite wr_ascii by lia.
  generalize (c :: cs) as u1. generalize (d :: ds) as u2. intros u2 u1.
  unfold sb_str, frev. rewrite rev_append_rev, app_nil_r. rewrite rev_app_distr. cbn [rev].
  rewrite !rev_involutive. rewrite <- app_assoc. reflexivity.
Qed.

(* ---------- quoted tokens ---------- *)

Lemma quoted_loop_step : forall f q bt (st : plex * sb),
  loop (Datatypes.S f) (quoted_body pure_stream q bt) st =
  if snd (quoted_body pure_stream q bt st) then loop f (quoted_body pure_stream q bt) (fst (quoted_body pure_stream q bt st))
  else Some (fst (quoted_body pure_stream q bt st)).
Proof. intros f q bt st. cbn [loop]. destruct (quoted_body pure_stream q bt st) as [a c]. reflexivity. Qed.

Lemma quoted_loop_spec : forall f q bt body r (l : plex) b l1 b1,
  (q < 128)%N -> q <> 92%N ->
  at_ l (body ++ q :: r) -> plain_body q body = true -> (pk_byte r =? q)%N = false ->
  loop f (quoted_body pure_stream q bt) (l, b) = Some (l1, b1) -> at_ l1 r /\ b1 = rev body ++ b.
Proof.
  induction f as [|f IH]; intros q bt body r l b l1 b1 Hq Hq92 Hat Hb Hpk E; [discriminate E|].
  rewrite quoted_loop_step in E. unfold quoted_body in E. destruct body as [|c body].
  - cbn [app] in Hat. destruct (at_cons_ascii l q r Hat) as (Hch & He & Hs & Hat1); [lia|].
    rewrite He, Hch, N.eqb_refl in E. rewrite peek_char_eta in E. rewrite (pkc_src l He), Hs, Hpk in E.
    cbn [fst snd] in E. injection E as <- <-. split; [exact Hat1|reflexivity].
  - cbn [plain_body forallb] in Hb. apply andb_prop in Hb. destruct Hb as [Hc Hb].
    destruct (at_cons_ascii l c (body ++ q :: r) Hat) as (Hch & He & Hs & Hat1); [lia|].
    rewrite He, Hch in E.
    replace (c =? q)%N with false in E by lia. replace (c =? 92)%N with false in E by lia.
    cbn [fst snd] in E. rewrite wr_ascii in E by lia.
    destruct (IH q bt body r (rc l) (c :: b) l1 b1 Hq Hq92 Hat1 Hb Hpk E) as [H1 H2].
    split; [exact H1|]. rewrite H2. cbn [rev]. rewrite <- app_assoc. reflexivity.
Qed.

Lemma sb_str_rev : forall body, sb_str (rev body ++ []) = body.
Proof.
  intros body. unfold sb_str, frev. rewrite rev_append_rev, !app_nil_r. apply rev_involutive.
Qed.

Lemma string_ok : forall body r f it l', plain_body 39 body = true -> negb (pk_byte r =? 39)%N = true ->
  next_token pure_stream f (st_at ((39%N :: body ++ [39%N]) ++ r)) = Some (it, l') ->
  sig_item it = (T_STRING, body, false) /\ at_ l' r.
Proof.
  intros body r f it l' Hb Hf E. destruct f as [|f]; [discriminate E|].
  apply negb_true_iff in Hf.
  cbn [app] in E. rewrite <- app_assoc in E. cbn [app] in E.
  pose proof (at_st (39%N :: body ++ 39%N :: r)) as Hat. set (l := st_at (39%N :: body ++ 39%N :: r)) in *.
  destruct (at_cons_ascii l 39%N _ Hat eq_refl) as (Hc & He & Hs & Hat1).
  open_token E l Hc He Hs. walk.
  unfold read_string in E.
  destruct (loop (Datatypes.S f) (quoted_body pure_stream 39 false) (rc l, [])) as [[l1 b1]|] eqn:El; [|discriminate E].
  cbn [bind] in E. injection E as <- <-.
  destruct (quoted_loop_spec (Datatypes.S f) 39%N false body r (rc l) [] l1 b1) as [H1 H2];
    [lia|discriminate|exact Hat1|exact Hb|exact Hf|exact El|].
  split; [|exact H1]. unfold sig_item. cbn [it_tok it_val it_quoted mk_item]. rewrite H2, sb_str_rev. reflexivity.
Qed.

Lemma backtick_ok : forall body r f it l', plain_body 96 body = true -> negb (pk_byte r =? 96)%N = true ->
  next_token pure_stream f (st_at ((96%N :: body ++ [96%N]) ++ r)) = Some (it, l') ->
  sig_item it = (T_IDENT, body, false) /\ at_ l' r.
Proof.
  intros body r f it l' Hb Hf E. destruct f as [|f]; [discriminate E|].
  apply negb_true_iff in Hf.
  cbn [app] in E. rewrite <- app_assoc in E. cbn [app] in E.
  pose proof (at_st (96%N :: body ++ 96%N :: r)) as Hat. set (l := st_at (96%N :: body ++ 96%N :: r)) in *.
  destruct (at_cons_ascii l 96%N _ Hat eq_refl) as (Hc & He & Hs & Hat1).
  open_token E l Hc He Hs. walk.
  unfold read_backtick_identifier in E.
  destruct (loop (Datatypes.S f) (quoted_body pure_stream 96 true) (rc l, [])) as [[l1 b1]|] eqn:El; [|discriminate E].
  cbn [bind] in E. injection E as <- <-.
  destruct (quoted_loop_spec (Datatypes.S f) 96%N true body r (rc l) [] l1 b1) as [H1 H2];
    [lia|discriminate|exact Hat1|exact Hb|exact Hf|exact El|].
  split; [|exact H1]. unfold sig_item. cbn [it_tok it_val it_quoted mk_item]. rewrite H2, sb_str_rev. reflexivity.
Qed.

Lemma dquoted_loop_step : forall f (st : plex * sb),
  loop (Datatypes.S f) (dquoted_body pure_stream) st =
  if snd (dquoted_body pure_stream st) then loop f (dquoted_body pure_stream) (fst (dquoted_body pure_stream st))
  else Some (fst (dquoted_body pure_stream st)).
Proof. intros f st. cbn [loop]. destruct (dquoted_body pure_stream st) as [a c]. reflexivity. Qed.

Lemma dquoted_loop_spec : forall f body r (l : plex) b l1 b1,
  at_ l (body ++ 34%N :: r) -> plain_body 34 body = true -> (hd_rune r =? 34)%N = false ->
  loop f (dquoted_body pure_stream) (l, b) = Some (l1, b1) -> at_ l1 r /\ b1 = rev body ++ b.
Proof.
  induction f as [|f IH]; intros body r l b l1 b1 Hat Hb Hpk E; [discriminate E|].
  rewrite dquoted_loop_step in E. unfold dquoted_body in E. destruct body as [|c body].
  - cbn [app] in Hat. destruct (at_cons_ascii l 34%N r Hat eq_refl) as (Hch & He & Hs & Hat1).
    rewrite He, Hch in E. cbn [N.eqb Pos.eqb] in E. rewrite (at_ch _ _ Hat1), Hpk in E.
    cbn [fst snd] in E. injection E as <- <-. split; [exact Hat1|reflexivity].
  - cbn [plain_body forallb] in Hb. apply andb_prop in Hb. destruct Hb as [Hc Hb].
    destruct (at_cons_ascii l c (body ++ 34%N :: r) Hat) as (Hch & He & Hs & Hat1); [lia|].
    rewrite He, Hch in E.
    replace (c =? 34)%N with false in E by lia. replace (c =? 92)%N with false in E by lia.
    cbn [fst snd] in E. rewrite wr_ascii in E by lia.
    destruct (IH body r (rc l) (c :: b) l1 b1 Hat1 Hb Hpk E) as [H1 H2].
    split; [exact H1|]. rewrite H2. cbn [rev]. rewrite <- app_assoc. reflexivity.
Qed.

Lemma dquoted_ok : forall body r f it l', plain_body 34 body = true -> negb (hd_rune r =? 34)%N = true ->
  next_token pure_stream f (st_at ((34%N :: body ++ [34%N]) ++ r)) = Some (it, l') ->
  sig_item it = (T_IDENT, body, true) /\ at_ l' r.
Proof.
  intros body r f it l' Hb Hf E. destruct f as [|f]; [discriminate E|].
  apply negb_true_iff in Hf.
  cbn [app] in E. rewrite <- app_assoc in E. cbn [app] in E.
  pose proof (at_st (34%N :: body ++ 34%N :: r)) as Hat. set (l := st_at (34%N :: body ++ 34%N :: r)) in *.
  destruct (at_cons_ascii l 34%N _ Hat eq_refl) as (Hc & He & Hs & Hat1).
  open_token E l Hc He Hs. walk.
  unfold read_quoted_identifier in E.
  destruct (loop (Datatypes.S f) (dquoted_body pure_stream) (rc l, [])) as [[l1 b1]|] eqn:El; [|discriminate E].
  cbn [bind] in E. injection E as <- <-.
  destruct (dquoted_loop_spec (Datatypes.S f) body r (rc l) [] l1 b1) as [H1 H2];
    [exact Hat1|exact Hb|exact Hf|exact El|].
  split; [|exact H1]. unfold sig_item. cbn [it_tok it_val it_quoted mk_item]. rewrite H2, sb_str_rev. reflexivity.
Qed.

(* ---------- {parameters} ---------- *)

Lemma until_close_step : forall f close (l : plex) b,
  until_close pure_stream (Datatypes.S f) close (l, b) =
  if negb (l_eof l) && negb (l_ch l =? close)%N then until_close pure_stream f close (rc l, wr (l_ch l) b)
  else Some (l, b).
Proof.
  intros f close l b. unfold until_close. cbn [loop].
  destruct (negb (l_eof l) && negb (l_ch l =? close)%N); reflexivity.
Qed.

Lemma until_close_spec : forall f q body r (l : plex) b l1 b1, (q < 128)%N ->
  at_ l (body ++ q :: r) -> plain_body q body = true ->
  until_close pure_stream f q (l, b) = Some (l1, b1) -> at_ l1 (q :: r) /\ b1 = rev body ++ b.
Proof.
  induction f as [|f IH]; intros q body r l b l1 b1 Hq Hat Hb E; [discriminate E|].
  rewrite until_close_step in E. destruct body as [|c body].
  - cbn [app] in Hat. destruct (at_cons_ascii l q r Hat) as (Hch & He & _); [lia|].
    rewrite He, Hch, N.eqb_refl in E. cbn [negb andb] in E. injection E as <- <-. split; [exact Hat|reflexivity].
  - cbn [plain_body forallb] in Hb. apply andb_prop in Hb. destruct Hb as [Hc Hb].
    destruct (at_cons_ascii l c (body ++ q :: r) Hat) as (Hch & He & _ & Hat1); [lia|].
    rewrite He, Hch in E. replace (c =? q)%N with false in E by lia. cbn [negb andb] in E.
    rewrite wr_ascii in E by lia.
    destruct (IH q body r (rc l) (c :: b) l1 b1 Hq Hat1 Hb E) as [H1 H2].
    split; [exact H1|]. rewrite H2. cbn [rev]. rewrite <- app_assoc. reflexivity.
Qed.

Lemma param_ok : forall body r f it l', plain_body 125 body = true ->
  next_token pure_stream f (st_at ((123%N :: body ++ [125%N]) ++ r)) = Some (it, l') ->
  sig_item it = (T_PARAM, body, false) /\ at_ l' r.
Proof.
  intros body r f it l' Hb E. destruct f as [|f]; [discriminate E|].
  cbn [app] in E. rewrite <- app_assoc in E. cbn [app] in E.
  pose proof (at_st (123%N :: body ++ 125%N :: r)) as Hat. set (l := st_at (123%N :: body ++ 125%N :: r)) in *.
  destruct (at_cons_ascii l 123%N _ Hat eq_refl) as (Hc & He & Hs & Hat1).
  open_token E l Hc He Hs. walk.
  unfold read_parameter in E.
  destruct (until_close pure_stream (Datatypes.S f) 125 (rc l, [])) as [[l1 b1]|] eqn:El; [|discriminate E].
  cbn [bind] in E.
  destruct (until_close_spec (Datatypes.S f) 125%N body r (rc l) [] l1 b1) as [H1 H2];
    [lia|exact Hat1|exact Hb|exact El|].
  destruct (at_cons_ascii l1 125%N r H1 eq_refl) as (Hc1 & _ & _ & Hat2).
  rewrite Hc1 in E. cbn [N.eqb Pos.eqb] in E. injection E as <- <-.
  split; [|exact Hat2]. unfold sig_item. cbn [it_tok it_val it_quoted mk_item]. rewrite H2, sb_str_rev. reflexivity.
Qed.

(* ---------- all covered classes ---------- *)

Theorem tok_ok_next : forall t sg r f it l', tok_ok t sg r ->
  next_token pure_stream f (st_at (t ++ r)) = Some (it, l') ->
  sig_item it = sg /\ at_ l' r.
Proof.
  intros t sg r f it l' H E. destruct H.
  - eapply ident_ok; eassumption.
  - eapply int_ok; eassumption.
  - eapply dec_ok; eassumption.
  - eapply string_ok; eassumption.
  - eapply dquoted_ok; eassumption.
  - eapply backtick_ok; eassumption.
  - eapply param_ok; eassumption.
  - eapply op_ok; eassumption.
Qed.
