(* LexerSim.v -- the lexer model is PARAMETRIC in the stream implementation.

   Part A (Section LexSim): for any two stream implementations o1, o2 and any relation R between
     their states with `stream_sim R o1 o2` (Stream/Simulation.v), every function of
     Lexer/LexerModel.v maps related lexer states (lex_rel: related sources, equal ch/pos/eof) to
     EQUAL non-state results and RELATED successor states.  Final statements: tokenize_sim,
     next_n_sim, run_lexer_sim.
   Part B: instances for the bufio.Reader model (Stream/BufioModel.v):
     - C14: over well-behaved scripts the lexer over bufio produces the tokens of the pure lexer
            over the concatenated bytes, whatever the chunking;
     - C15: over arbitrary scripts, the stream state held by the lexer after any number of NextToken
            calls satisfies BufioProof.reachable (diagonal relation), hence the tracked error is the
            first non-EOF error any Read call returned.
   Part C: the driver-level corollary over Driver/DriverModel.v. *)
From Coq Require Import List NArith Bool Arith Lia.
From DC Require Import Base.Utf8 Base.Unicode Base.Stream Base.Item Gen.TokenTable.
From DC Require Import Lexer.LexerModel Lexer.LexerTotal.
From DC Require Import Stream.Simulation Stream.BufioModel Stream.BufioProof.
From DC Require Driver.DriverModel Driver.DriverProof.
Import ListNotations.
Local Open Scope bool_scope.

(* ------------------------------------------------------------------------------------------ *)
(* Relational liftings                                                                         *)
(* ------------------------------------------------------------------------------------------ *)

Definition opt_rel {A B : Type} (P : A -> B -> Prop) (x : option A) (y : option B) : Prop :=
  match x, y with
  | Some a, Some b => P a b
  | None, None => True
  | _, _ => False
  end.

Definition pair_rel {A A' B B' : Type} (P : A -> A' -> Prop) (Q : B -> B' -> Prop)
  (x : A * B) (y : A' * B') : Prop := P (fst x) (fst y) /\ Q (snd x) (snd y).

Lemma opt_rel_eq : forall (A : Type) (x y : option A), opt_rel eq x y -> x = y.
Proof. intros A [a|] [b|] H; cbn in H; try contradiction; congruence. Qed.

Lemma pair_rel_intro : forall (A A' B B' : Type) (P : A -> A' -> Prop) (Q : B -> B' -> Prop) a a' b b',
  P a a' -> Q b b' -> pair_rel P Q (a, b) (a', b').
Proof. intros. split; assumption. Qed.

(* the generic loop lemmas: related bodies give related loops *)
Lemma loop_rel : forall (A B : Type) (P : A -> B -> Prop) (f : A -> A * bool) (g : B -> B * bool),
  (forall a b, P a b -> pair_rel P eq (f a) (g b)) ->
  forall fuel a b, P a b -> opt_rel P (loop fuel f a) (loop fuel g b).
Proof.
  intros A B P f g Hb. induction fuel as [|n IH]; intros a b Hab; cbn [loop]; [exact I|].
  specialize (Hb a b Hab). destruct (f a) as [a' c], (g b) as [b' c'].
  destruct Hb as [Hp Hc]. cbn [fst snd] in Hp, Hc. subst c'.
  destruct c; [apply IH; exact Hp|exact Hp].
Qed.

Lemma loopo_rel : forall (A B : Type) (P : A -> B -> Prop)
  (f : A -> option (A * bool)) (g : B -> option (B * bool)),
  (forall a b, P a b -> opt_rel (pair_rel P eq) (f a) (g b)) ->
  forall fuel a b, P a b -> opt_rel P (loopo fuel f a) (loopo fuel g b).
Proof.
  intros A B P f g Hb. induction fuel as [|n IH]; intros a b Hab; cbn [loopo]; [exact I|].
  specialize (Hb a b Hab). destruct (f a) as [[a' c]|], (g b) as [[b' c']|]; cbn [opt_rel] in Hb;
    try contradiction; [|exact I].
  destruct Hb as [Hp Hc]. cbn [fst snd] in Hp, Hc. subst c'.
  destruct c; [apply IH; exact Hp|exact Hp].
Qed.

Lemma bind_rel : forall (A A' B B' : Type) (P : A -> A' -> Prop) (Q : B -> B' -> Prop)
  (m : option A) (m' : option A') (k : A -> option B) (k' : A' -> option B'),
  opt_rel P m m' -> (forall a a', P a a' -> opt_rel Q (k a) (k' a')) ->
  opt_rel Q (bind m k) (bind m' k').
Proof.
  intros A A' B B' P Q [a|] [a'|] k k' Hm Hk; cbn in *; try contradiction; auto.
Qed.

(* ------------------------------------------------------------------------------------------ *)
(* Part A: the relational theorem                                                              *)
(* ------------------------------------------------------------------------------------------ *)

(* k successive NextToken calls, returning the items AND the final lexer state *)
Fixpoint run_lexer {S : Type} (ops : stream_ops S) (k fuel : nat) (l : @lex S)
  : option (list item * @lex S) :=
  match k with
  | O => Some ([], l)
  | Datatypes.S k' =>
      bind (next_token ops fuel l) (fun '(it, l') =>
      bind (run_lexer ops k' fuel l') (fun '(its, l'') => Some (it :: its, l'')))
  end.

Lemma run_lexer_items : forall (S : Type) (ops : stream_ops S) k fuel l,
  option_map fst (run_lexer ops k fuel l) = next_n ops k fuel l.
Proof.
  intros S ops. induction k as [|k IH]; intros fuel l; cbn [run_lexer next_n]; [reflexivity|].
  destruct (next_token ops fuel l) as [[it l']|]; cbn [bind option_map]; [|reflexivity].
  rewrite <- IH. destruct (run_lexer ops k fuel l') as [[its l'']|]; reflexivity.
Qed.

Section LexSim.
  Context {S1 S2 : Type} (R : S1 -> S2 -> Prop) (o1 : stream_ops S1) (o2 : stream_ops S2).
  Hypothesis Hsim : stream_sim R o1 o2.

  Definition lex_rel (l1 : @lex S1) (l2 : @lex S2) : Prop :=
    R (l_src l1) (l_src l2) /\ l_ch l1 = l_ch l2 /\ l_pos l1 = l_pos l2 /\ l_eof l1 = l_eof l2.

  Lemma mk_lex_rel : forall s1 s2 c p e, R s1 s2 -> lex_rel (mkLex s1 c p e) (mkLex s2 c p e).
  Proof. intros. repeat split; assumption. Qed.

  Lemma s_peek_rel : forall n s1 s2, R s1 s2 -> pair_rel eq R (s_peek o1 n s1) (s_peek o2 n s2).
  Proof. intros n s1 s2 H. exact (proj1 Hsim n s1 s2 H). Qed.

  Lemma s_read_rune_rel : forall s1 s2, R s1 s2 ->
    pair_rel eq R (s_read_rune o1 s1) (s_read_rune o2 s2).
  Proof. intros s1 s2 H. exact (proj2 Hsim s1 s2 H). Qed.

  Create HintDb lexsim discriminated.
  Hint Resolve mk_lex_rel pair_rel_intro s_peek_rel s_read_rune_rel eq_refl : lexsim.

  (* ---------- the proof engine ----------
     Every lemma below has the shape  REL (f o1 args1) (f o2 args2)  where REL is built from R,
     lex_rel, eq, opt_rel and pair_rel along the result type of f (rel_of).  After unfolding f the
     two sides are the same program text over o1 / o2.  `go` keeps all lexer states in field form
     (mkLex s c p e on the left, mkLex t c p e on the right, with R s t in the context), so that every
     condition is syntactically the same on both sides, and repeats:
       - find the subterm that call-by-value evaluation reaches first on the left (work): the
         scrutinee of the outermost match / bind;
       - if it mentions neither o1 nor a lexer state, `destruct` it (both sides take the same branch);
       - otherwise take a stream-dependent call inside it whose arguments are values (ready_call),
         get its relational fact from the lemmas proved so far (hint database lexsim; this also
         finds the o2-side call), abstract both calls and decompose the fact to fields (resolve,
         break_rel);
       - leaves are closed by reflexivity / the R hypotheses (finish). *)

  (* the relation that goes with a type mentioning S1 / lex S1 *)
  Ltac rel_of T :=
    lazymatch T with
    | S1 => constr:(R)
    | @lex S1 => constr:(lex_rel)
    | option ?A =>
        lazymatch A with
        | context [S1] => let P := rel_of A in constr:(opt_rel P)
        | _ => constr:(@eq T)
        end
    | prod ?A ?B =>
        lazymatch T with
        | context [S1] => let P := rel_of A in let Q := rel_of B in constr:(pair_rel P Q)
        | _ => constr:(@eq T)
        end
    | _ => constr:(@eq T)
    end.

  Ltac norm := unfold set_src; cbn [fst snd l_src l_ch l_pos l_eof bind opt_rel].

  (* decompose relational hypotheses about variables down to fields *)
  Ltac break_rel :=
    repeat match goal with
    | H : opt_rel _ ?x ?y |- _ =>
        is_var x; is_var y; destruct x, y; cbn [opt_rel] in H; try contradiction
    | H : True |- _ => clear H
    | H : pair_rel _ _ ?x ?y |- _ =>
        is_var x; is_var y; destruct x, y;
        let H1 := fresh "H" in let H2 := fresh "H" in
        destruct H as [H1 H2]; cbn [fst snd] in H1, H2
    | H : lex_rel ?x ?y |- _ =>
        is_var x; is_var y;
        let HR := fresh "HR" in
        let s := fresh "s" in let c := fresh "c" in let p := fresh "p" in let e := fresh "e" in
        let s' := fresh "t" in let c' := fresh "c" in let p' := fresh "p" in let e' := fresh "e" in
        destruct x as [s c p e], y as [s' c' p' e'];
        unfold lex_rel in H; cbn [l_src l_ch l_pos l_eof] in H; destruct H as (HR & ? & ? & ?)
    | H : ?x = ?y |- _ => is_var y; subst y
    | H : ?x = ?y |- _ => is_var x; subst x
    | H : (_, _) = (_, _) |- _ => injection H as ? ?
    | H : Some _ = Some _ |- _ => injection H as ?
    | H : Some _ = None |- _ => discriminate H
    | H : None = Some _ |- _ => discriminate H
    | H : @eq (option _) None None |- _ => clear H
    | H : @eq (option _) ?x ?y |- _ => is_var x; is_var y; destruct x, y
    | H : @eq (_ * _)%type ?x ?y |- _ => is_var x; is_var y; destruct x, y
    end.

  (* the subterm of Y that is (convertible to) r, as it is written in Y *)
  Ltac find_o2 Y r :=
    match Y with
    | context [r] => r
    | context [?g o2 ?a] =>
        let c := constr:(g o2 a) in let _ := match goal with _ => unify c r end in c
    | context [?g o2 ?x ?a] =>
        let c := constr:(g o2 x a) in let _ := match goal with _ => unify c r end in c
    | context [?g o2 ?x ?y ?a] =>
        let c := constr:(g o2 x y a) in let _ := match goal with _ => unify c r end in c
    | context [?g o2 ?x ?y ?z ?a] =>
        let c := constr:(g o2 x y z a) in let _ := match goal with _ => unify c r end in c
    end.

  (* r1 is a stream-dependent call whose arguments are values: obtain its relational fact from
     the hint database (this also determines the o2-side call), abstract both, decompose *)
  Ltac resolve r1 :=
    let T := type of r1 in
    lazymatch T with forall _, _ => fail | _ => idtac end;
    lazymatch T with context [S1] => idtac | _ => fail end;
    let P := rel_of T in
    let H := fresh "Hcall" in
    eassert (H : P r1 _) by (eauto 7 with lexsim);
    lazymatch type of H with
    | _ _ ?r2' =>
        lazymatch goal with
        | |- _ _ ?Y =>
            let r2 := find_o2 Y r2' in
            change (P r1 r2) in H;
            revert H; generalize r1, r2; intros ? ? H; break_rel
        end
    end.

  Ltac no_o1 t := lazymatch t with context [o1] => fail | _ => idtac end.

  (* a value of a type that carries a lexer state *)
  Ltac ready_arg a :=
    lazymatch a with
    | mkLex ?s _ _ _ => is_var s
    | (mkLex ?s _ _ _, _) => is_var s
    | _ => is_var a; let T := type of a in lazymatch T with S1 => idtac end
    end.

  (* find a ready call inside t (Y is the right-hand side of the goal, used for `loop`) *)
  Ltac ready_call t Y :=
    match t with
    | context [?g o1 ?a] => ready_arg a; resolve (g o1 a)
    | context [?g o1 ?x ?a] => ready_arg a; resolve (g o1 x a)
    | context [?g o1 ?x ?y ?a] => ready_arg a; resolve (g o1 x y a)
    | context [?g o1 ?x ?y ?z ?a] => ready_arg a; resolve (g o1 x y z a)
    | context [?g o1 ?x ?a ?b] => ready_arg a; resolve (g o1 x a b)
    | context [loop ?f ?B1 ?st1] =>
        no_o1 st1;
        lazymatch Y with
        | context [loop f ?B2 ?st2] =>
            let T := type of st1 in
            let P := rel_of T in
            let H := fresh "Hloop" in
            assert (H : opt_rel P (loop f B1 st1) (loop f B2 st2))
              by (apply loop_rel; [intros ? ? ?; eauto 4 with lexsim | eauto 7 with lexsim]);
            revert H; generalize (loop f B1 st1), (loop f B2 st2); intros ? ? H; break_rel
        end
    end.

  Ltac is_clean e :=
    lazymatch e with
    | context [o1] => fail
    | context [@mkLex] => fail
    | _ => idtac
    end.

  Ltac split_inner t :=
    match t with
    | context [match ?e with _ => _ end] => is_clean e; destruct e
    end.

  (* t is evaluated (call by value) on the left-hand side *)
  Ltac work t Y :=
    lazymatch t with
    | match ?e with _ => _ end => first [ is_clean e; destruct e | work e Y ]
    | bind ?m _ => first [ is_clean m; destruct m | work m Y ]
    | _ => first [ ready_call t Y | split_inner t ]
    end.

  Ltac finish :=
    unfold pair_rel, lex_rel; norm; repeat split; first [ reflexivity | assumption | exact I ].

  Ltac go1 :=
    norm;
    lazymatch goal with
    | |- True => exact I
    | |- _ ?X ?Y => first [ solve [eauto 5 with lexsim] | work X Y | finish ]
    end.

  Ltac go := unfold num_item, ident_item, simple; break_rel; repeat go1.

  (* ---------- readChar, peekChar, peekCharN ---------- *)

  Lemma read_char_rel : forall l1 l2, lex_rel l1 l2 -> lex_rel (read_char o1 l1) (read_char o2 l2).
  Proof. intros l1 l2 H. unfold read_char. go. Qed.
  Hint Resolve read_char_rel : lexsim.

  Lemma init_lex_rel : forall s1 s2, R s1 s2 -> lex_rel (init_lex o1 s1) (init_lex o2 s2).
  Proof. intros s1 s2 H. unfold init_lex. auto with lexsim. Qed.

  Lemma peek_char_rel : forall l1 l2, lex_rel l1 l2 ->
    pair_rel eq lex_rel (peek_char o1 l1) (peek_char o2 l2).
  Proof. intros l1 l2 H. unfold peek_char. go. Qed.
  Hint Resolve peek_char_rel : lexsim.

  Lemma peek_char_n_rel : forall n l1 l2, lex_rel l1 l2 ->
    pair_rel eq lex_rel (peek_char_n o1 n l1) (peek_char_n o2 n l2).
  Proof. intros n l1 l2 H. unfold peek_char_n. go. Qed.
  Hint Resolve peek_char_n_rel : lexsim.

  (* ---------- take_while, skip_while, comments ---------- *)

  Notation st_rel := (pair_rel lex_rel (@eq (list N))).        (* (lexer, builder) *)
  Notation res_rel := (opt_rel (pair_rel (@eq item) lex_rel)).  (* option (item, lexer) *)

  Lemma take_while_rel : forall fuel cond st1 st2, st_rel st1 st2 ->
    opt_rel st_rel (take_while o1 fuel cond st1) (take_while o2 fuel cond st2).
  Proof.
    intros fuel cond st1 st2 H. unfold take_while. apply loop_rel; [|exact H].
    clear H. intros a b H. go.
  Qed.
  Hint Resolve take_while_rel : lexsim.

  Lemma skip_while_rel : forall fuel cond l1 l2, lex_rel l1 l2 ->
    opt_rel lex_rel (skip_while o1 fuel cond l1) (skip_while o2 fuel cond l2).
  Proof.
    intros fuel cond l1 l2 H. unfold skip_while. apply loop_rel; [|exact H].
    clear H. intros a b H. go.
  Qed.
  Hint Resolve skip_while_rel : lexsim.

  Lemma skip_whitespace_rel : forall fuel l1 l2, lex_rel l1 l2 ->
    opt_rel lex_rel (skip_whitespace o1 fuel l1) (skip_whitespace o2 fuel l2).
  Proof. intros. unfold skip_whitespace. auto with lexsim. Qed.
  Hint Resolve skip_whitespace_rel : lexsim.

  Lemma to_eol_rel : forall fuel stop st1 st2, st_rel st1 st2 ->
    opt_rel st_rel (to_eol o1 fuel stop st1) (to_eol o2 fuel stop st2).
  Proof.
    intros fuel stop st1 st2 H. unfold to_eol. apply loop_rel; [|exact H].
    clear H. intros a b H. unfold not_eol. go.
  Qed.
  Hint Resolve to_eol_rel : lexsim.

  Lemma read_line_comment_rel : forall fuel l1 l2, lex_rel l1 l2 ->
    res_rel (read_line_comment o1 fuel l1) (read_line_comment o2 fuel l2).
  Proof. intros fuel l1 l2 H. unfold read_line_comment. go. Qed.
  Hint Resolve read_line_comment_rel : lexsim.

  Lemma read_hash_comment_rel : forall fuel l1 l2, lex_rel l1 l2 ->
    res_rel (read_hash_comment o1 fuel l1) (read_hash_comment o2 fuel l2).
  Proof. intros fuel l1 l2 H. unfold read_hash_comment. go. Qed.
  Hint Resolve read_hash_comment_rel : lexsim.

  Lemma read_unicode_minus_comment_rel : forall fuel l1 l2, lex_rel l1 l2 ->
    res_rel (read_unicode_minus_comment o1 fuel l1) (read_unicode_minus_comment o2 fuel l2).
  Proof. intros fuel l1 l2 H. unfold read_unicode_minus_comment. go. Qed.
  Hint Resolve read_unicode_minus_comment_rel : lexsim.

  Lemma block_body_rel : forall st1 st2, pair_rel st_rel (@eq nat) st1 st2 ->
    pair_rel (pair_rel st_rel (@eq nat)) (@eq bool) (block_body o1 st1) (block_body o2 st2).
  Proof. intros st1 st2 H. unfold block_body. go. Qed.
  Hint Resolve block_body_rel : lexsim.

  Lemma read_block_comment_rel : forall fuel l1 l2, lex_rel l1 l2 ->
    res_rel (read_block_comment o1 fuel l1) (read_block_comment o2 fuel l2).
  Proof. intros fuel l1 l2 H. unfold read_block_comment. go. Qed.
  Hint Resolve read_block_comment_rel : lexsim.

  (* ---------- strings ---------- *)

  Lemma escape_switch_rel : forall bt l1 l2 b, lex_rel l1 l2 ->
    pair_rel st_rel (@eq bool) (escape_switch o1 bt l1 b) (escape_switch o2 bt l2 b).
  Proof. intros bt l1 l2 b H. unfold escape_switch. go. Qed.
  Hint Resolve escape_switch_rel : lexsim.

  Lemma quoted_body_rel : forall q bt st1 st2, st_rel st1 st2 ->
    pair_rel st_rel (@eq bool) (quoted_body o1 q bt st1) (quoted_body o2 q bt st2).
  Proof. intros q bt st1 st2 H. unfold quoted_body. go. Qed.
  Hint Resolve quoted_body_rel : lexsim.

  Lemma read_string_rel : forall fuel l1 l2, lex_rel l1 l2 ->
    res_rel (read_string o1 fuel l1) (read_string o2 fuel l2).
  Proof. intros fuel l1 l2 H. unfold read_string. go. Qed.
  Hint Resolve read_string_rel : lexsim.

  Lemma read_backtick_identifier_rel : forall fuel l1 l2, lex_rel l1 l2 ->
    res_rel (read_backtick_identifier o1 fuel l1) (read_backtick_identifier o2 fuel l2).
  Proof. intros fuel l1 l2 H. unfold read_backtick_identifier. go. Qed.
  Hint Resolve read_backtick_identifier_rel : lexsim.

  Lemma hex_string_body_rel : forall st1 st2, st_rel st1 st2 ->
    pair_rel st_rel (@eq bool) (hex_string_body o1 st1) (hex_string_body o2 st2).
  Proof. intros st1 st2 H. unfold hex_string_body. go. Qed.
  Hint Resolve hex_string_body_rel : lexsim.

  Lemma read_hex_string_rel : forall fuel l1 l2, lex_rel l1 l2 ->
    res_rel (read_hex_string o1 fuel l1) (read_hex_string o2 fuel l2).
  Proof. intros fuel l1 l2 H. unfold read_hex_string. go. Qed.
  Hint Resolve read_hex_string_rel : lexsim.

  Lemma bin_string_body_rel : forall st1 st2, st_rel st1 st2 ->
    pair_rel st_rel (@eq bool) (bin_string_body o1 st1) (bin_string_body o2 st2).
  Proof. intros st1 st2 H. unfold bin_string_body. go. Qed.
  Hint Resolve bin_string_body_rel : lexsim.

  Lemma read_binary_string_rel : forall fuel l1 l2, lex_rel l1 l2 ->
    res_rel (read_binary_string o1 fuel l1) (read_binary_string o2 fuel l2).
  Proof. intros fuel l1 l2 H. unfold read_binary_string. go. Qed.
  Hint Resolve read_binary_string_rel : lexsim.

  Lemma dquoted_body_rel : forall st1 st2, st_rel st1 st2 ->
    pair_rel st_rel (@eq bool) (dquoted_body o1 st1) (dquoted_body o2 st2).
  Proof. intros st1 st2 H. unfold dquoted_body. go. Qed.
  Hint Resolve dquoted_body_rel : lexsim.

  Lemma read_quoted_identifier_rel : forall fuel l1 l2, lex_rel l1 l2 ->
    res_rel (read_quoted_identifier o1 fuel l1) (read_quoted_identifier o2 fuel l2).
  Proof. intros fuel l1 l2 H. unfold read_quoted_identifier. go. Qed.
  Hint Resolve read_quoted_identifier_rel : lexsim.

  Lemma until_close_rel : forall fuel close st1 st2, st_rel st1 st2 ->
    opt_rel st_rel (until_close o1 fuel close st1) (until_close o2 fuel close st2).
  Proof.
    intros fuel close st1 st2 H. unfold until_close. apply loop_rel; [|exact H].
    clear H. intros a b H. go.
  Qed.
  Hint Resolve until_close_rel : lexsim.

  Lemma read_unicode_string_rel : forall fuel l1 l2, lex_rel l1 l2 ->
    res_rel (read_unicode_string o1 fuel l1) (read_unicode_string o2 fuel l2).
  Proof. intros fuel l1 l2 H. unfold read_unicode_string. go. Qed.
  Hint Resolve read_unicode_string_rel : lexsim.

  Lemma read_unicode_quoted_identifier_rel : forall fuel l1 l2, lex_rel l1 l2 ->
    res_rel (read_unicode_quoted_identifier o1 fuel l1) (read_unicode_quoted_identifier o2 fuel l2).
  Proof. intros fuel l1 l2 H. unfold read_unicode_quoted_identifier. go. Qed.
  Hint Resolve read_unicode_quoted_identifier_rel : lexsim.

  Lemma read_parameter_rel : forall fuel l1 l2, lex_rel l1 l2 ->
    res_rel (read_parameter o1 fuel l1) (read_parameter o2 fuel l2).
  Proof. intros fuel l1 l2 H. unfold read_parameter. go. Qed.
  Hint Resolve read_parameter_rel : lexsim.

  (* ---------- dollar quoting ---------- *)

  Lemma iter_read_rel : forall n l1 l2, lex_rel l1 l2 ->
    lex_rel (iter_read o1 n l1) (iter_read o2 n l2).
  Proof. induction n as [|n IH]; intros l1 l2 H; cbn [iter_read]; auto with lexsim. Qed.
  Hint Resolve iter_read_rel : lexsim.

  Lemma try_read_dollar_tag_rel : forall l1 l2, lex_rel l1 l2 ->
    pair_rel (@eq (list N)) lex_rel (try_read_dollar_tag o1 l1) (try_read_dollar_tag o2 l2).
  Proof. intros l1 l2 H. unfold try_read_dollar_tag. go. Qed.
  Hint Resolve try_read_dollar_tag_rel : lexsim.

  Lemma delim_match_rel : forall rest i l1 l2, lex_rel l1 l2 ->
    pair_rel (@eq bool) lex_rel (delim_match o1 i rest l1) (delim_match o2 i rest l2).
  Proof.
    induction rest as [|c rest IH]; intros i l1 l2 H; cbn [delim_match]; [go|].
    pose proof (peek_char_n_rel i l1 l2 H) as Hp.
    destruct (peek_char_n o1 i l1) as [pk l1'], (peek_char_n o2 i l2) as [pk2 l2'].
    destruct Hp as [Hpk Hl]. cbn [fst snd] in Hpk, Hl. subst pk2.
    destruct (pk =? c)%N; [apply IH; exact Hl|]. split; [reflexivity|exact Hl].
  Qed.
  Hint Resolve delim_match_rel : lexsim.

  Lemma dollar_body_rel : forall closing st1 st2, st_rel st1 st2 ->
    pair_rel st_rel (@eq bool) (dollar_body o1 closing st1) (dollar_body o2 closing st2).
  Proof. intros closing st1 st2 H. unfold dollar_body. go. Qed.
  Hint Resolve dollar_body_rel : lexsim.

  Lemma read_dollar_quoted_string_rel : forall fuel tag l1 l2, lex_rel l1 l2 ->
    res_rel (read_dollar_quoted_string o1 fuel tag l1) (read_dollar_quoted_string o2 fuel tag l2).
  Proof. intros fuel tag l1 l2 H. unfold read_dollar_quoted_string. go. Qed.
  Hint Resolve read_dollar_quoted_string_rel : lexsim.

  Lemma read_dollar_identifier_rel : forall fuel l1 l2, lex_rel l1 l2 ->
    res_rel (read_dollar_identifier o1 fuel l1) (read_dollar_identifier o2 fuel l2).
  Proof. intros fuel l1 l2 H. unfold read_dollar_identifier. go. Qed.
  Hint Resolve read_dollar_identifier_rel : lexsim.

  (* ---------- numbers ---------- *)

  Lemma skip_underscores_rel : forall fuel l1 l2, lex_rel l1 l2 ->
    opt_rel lex_rel (skip_underscores o1 fuel l1) (skip_underscores o2 fuel l2).
  Proof.
    intros fuel l1 l2 H. unfold skip_underscores. apply loop_rel; [|exact H].
    clear H. intros a b H. go.
  Qed.
  Hint Resolve skip_underscores_rel : lexsim.

  Lemma digits_us_rel : forall fuel st1 st2, st_rel st1 st2 ->
    opt_rel st_rel (digits_us o1 fuel st1) (digits_us o2 fuel st2).
  Proof.
    intros fuel st1 st2 H. unfold digits_us. apply loopo_rel; [|exact H].
    clear H. intros a b H. go.
  Qed.
  Hint Resolve digits_us_rel : lexsim.

  Lemma fraction_part_rel : forall fuel st1 st2, st_rel st1 st2 ->
    opt_rel st_rel (fraction_part o1 fuel st1) (fraction_part o2 fuel st2).
  Proof. intros fuel st1 st2 H. unfold fraction_part. go. Qed.
  Hint Resolve fraction_part_rel : lexsim.

  Lemma exponent_part_rel : forall fuel st1 st2, st_rel st1 st2 ->
    opt_rel st_rel (exponent_part o1 fuel st1) (exponent_part o2 fuel st2).
  Proof. intros fuel st1 st2 H. unfold exponent_part. go. Qed.
  Hint Resolve exponent_part_rel : lexsim.

  Lemma hex_tail_rel : forall fuel st1 st2, st_rel st1 st2 ->
    opt_rel st_rel (hex_tail o1 fuel st1) (hex_tail o2 fuel st2).
  Proof. intros fuel st1 st2 H. unfold hex_tail. go. Qed.
  Hint Resolve hex_tail_rel : lexsim.

  Lemma number_general_rel : forall fuel pos st1 st2, st_rel st1 st2 ->
    res_rel (number_general o1 fuel pos st1) (number_general o2 fuel pos st2).
  Proof. intros fuel pos st1 st2 H. unfold number_general. go. Qed.
  Hint Resolve number_general_rel : lexsim.

  Lemma read_number_rel : forall fuel l1 l2, lex_rel l1 l2 ->
    res_rel (read_number o1 fuel l1) (read_number o2 fuel l2).
  Proof. intros fuel l1 l2 H. unfold read_number. go. Qed.
  Hint Resolve read_number_rel : lexsim.

  Lemma us_digit_groups_rel : forall fuel st1 st2, st_rel st1 st2 ->
    opt_rel st_rel (us_digit_groups o1 fuel st1) (us_digit_groups o2 fuel st2).
  Proof.
    intros fuel st1 st2 H. unfold us_digit_groups. apply loopo_rel; [|exact H].
    clear H. intros a b H. go.
  Qed.
  Hint Resolve us_digit_groups_rel : lexsim.

  Lemma number_rest_rel : forall fuel pos start_ch st1 st2, st_rel st1 st2 ->
    res_rel (number_rest o1 fuel pos start_ch st1) (number_rest o2 fuel pos start_ch st2).
  Proof. intros fuel pos start_ch st1 st2 H. unfold number_rest. go. Qed.
  Hint Resolve number_rest_rel : lexsim.

  Lemma read_number_or_ident_rel : forall fuel l1 l2, lex_rel l1 l2 ->
    res_rel (read_number_or_ident o1 fuel l1) (read_number_or_ident o2 fuel l2).
  Proof. intros fuel l1 l2 H. unfold read_number_or_ident. go. Qed.
  Hint Resolve read_number_or_ident_rel : lexsim.

  Lemma is_identifier_after_dot_rel : forall l1 l2, lex_rel l1 l2 ->
    pair_rel (@eq bool) lex_rel (is_identifier_after_dot o1 l1) (is_identifier_after_dot o2 l2).
  Proof. intros l1 l2 H. unfold is_identifier_after_dot. go. Qed.
  Hint Resolve is_identifier_after_dot_rel : lexsim.

  (* ---------- identifiers ---------- *)

  Lemma take_ident_runes_rel : forall fuel st1 st2, st_rel st1 st2 ->
    opt_rel st_rel (take_ident_runes o1 fuel st1) (take_ident_runes o2 fuel st2).
  Proof.
    intros fuel st1 st2 H. unfold take_ident_runes. apply loop_rel; [|exact H].
    clear H. intros a b H. go.
  Qed.
  Hint Resolve take_ident_runes_rel : lexsim.

  Lemma read_identifier_rel : forall fuel l1 l2, lex_rel l1 l2 ->
    res_rel (read_identifier o1 fuel l1) (read_identifier o2 fuel l2).
  Proof. intros fuel l1 l2 H. unfold read_identifier. go. Qed.
  Hint Resolve read_identifier_rel : lexsim.

  (* ---------- NextToken, Tokenize ---------- *)

  Lemma next_token_rel : forall fuel l1 l2, lex_rel l1 l2 ->
    res_rel (next_token o1 fuel l1) (next_token o2 fuel l2).
  Proof. intros fuel l1 l2 H. unfold next_token. go. Qed.
  Hint Resolve next_token_rel : lexsim.

  Lemma tokenize_loop_rel : forall n fuel l1 l2, lex_rel l1 l2 ->
    tokenize_loop o1 n fuel l1 = tokenize_loop o2 n fuel l2.
  Proof.
    induction n as [|n IH]; intros fuel l1 l2 H; cbn [tokenize_loop]; [reflexivity|].
    pose proof (next_token_rel fuel l1 l2 H) as Hn.
    destruct (next_token o1 fuel l1) as [[it l1']|], (next_token o2 fuel l2) as [[it2 l2']|];
      cbn [opt_rel] in Hn; try contradiction; cbn [bind]; [|reflexivity].
    destruct Hn as [Hi Hl]. cbn [fst snd] in Hi, Hl. subst it2.
    destruct (it_tok it =? T_EOF)%N; [reflexivity|]. rewrite (IH fuel l1' l2' Hl). reflexivity.
  Qed.

  Lemma next_n_rel : forall k fuel l1 l2, lex_rel l1 l2 ->
    next_n o1 k fuel l1 = next_n o2 k fuel l2.
  Proof.
    induction k as [|k IH]; intros fuel l1 l2 H; cbn [next_n]; [reflexivity|].
    pose proof (next_token_rel fuel l1 l2 H) as Hn.
    destruct (next_token o1 fuel l1) as [[it l1']|], (next_token o2 fuel l2) as [[it2 l2']|];
      cbn [opt_rel] in Hn; try contradiction; cbn [bind]; [|reflexivity].
    destruct Hn as [Hi Hl]. cbn [fst snd] in Hi, Hl. subst it2.
    rewrite (IH fuel l1' l2' Hl). reflexivity.
  Qed.

  Lemma run_lexer_rel : forall k fuel l1 l2, lex_rel l1 l2 ->
    opt_rel (pair_rel (@eq (list item)) lex_rel) (run_lexer o1 k fuel l1) (run_lexer o2 k fuel l2).
  Proof.
    induction k as [|k IH]; intros fuel l1 l2 H; cbn [run_lexer].
    - split; [reflexivity|exact H].
    - pose proof (next_token_rel fuel l1 l2 H) as Hn.
      destruct (next_token o1 fuel l1) as [[it l1']|], (next_token o2 fuel l2) as [[it2 l2']|];
        cbn [opt_rel] in Hn; try contradiction; cbn [bind]; [|exact I].
      destruct Hn as [Hi Hl]. cbn [fst snd] in Hi, Hl. subst it2.
      specialize (IH fuel l1' l2' Hl).
      destruct (run_lexer o1 k fuel l1') as [[its l1'']|], (run_lexer o2 k fuel l2') as [[its2 l2'']|];
        cbn [opt_rel] in IH; try contradiction; cbn [bind opt_rel]; [|exact I].
      destruct IH as [Hi Hl']. cbn [fst snd] in Hi, Hl'. subst its2.
      split; [reflexivity|exact Hl'].
  Qed.

  (* ---------- the theorems ---------- *)

  (* Tokenize *)
  Theorem tokenize_sim : forall s1 s2, R s1 s2 ->
    forall fuel, tokenize_fuel o1 fuel s1 = tokenize_fuel o2 fuel s2.
  Proof.
    intros s1 s2 H fuel. unfold tokenize_fuel. apply tokenize_loop_rel. apply init_lex_rel. exact H.
  Qed.

  (* any number of NextToken calls on a fresh lexer: equal items *)
  Theorem next_n_sim : forall s1 s2, R s1 s2 ->
    forall k fuel, next_n o1 k fuel (init_lex o1 s1) = next_n o2 k fuel (init_lex o2 s2).
  Proof. intros s1 s2 H k fuel. apply next_n_rel. apply init_lex_rel. exact H. Qed.

  (* ... and related final lexer states (in particular related stream states) *)
  Theorem run_lexer_sim : forall s1 s2, R s1 s2 ->
    forall k fuel,
      opt_rel (pair_rel (@eq (list item)) lex_rel)
        (run_lexer o1 k fuel (init_lex o1 s1)) (run_lexer o2 k fuel (init_lex o2 s2)).
  Proof. intros s1 s2 H k fuel. apply run_lexer_rel. apply init_lex_rel. exact H. Qed.

End LexSim.

Arguments lex_rel {S1 S2} R l1 l2.

(* ---------- unary form: an invariant of the stream state is an invariant of the lexer ---------- *)

Section LexInv.
  Context {S : Type} (o : stream_ops S) (P : S -> Prop).
  Hypothesis Hpeek : forall n s, P s -> P (snd (s_peek o n s)).
  Hypothesis Hread : forall s, P s -> P (snd (s_read_rune o s)).

  (* the invariant as a diagonal relation *)
  Definition diag (a b : S) : Prop := a = b /\ P a.

  Lemma diag_sim : stream_sim diag o o.
  Proof.
    split.
    - intros n s1 s2 [E H]. subst s2. split; [reflexivity|]. split; [reflexivity|apply Hpeek; exact H].
    - intros s1 s2 [E H]. subst s2. split; [reflexivity|]. split; [reflexivity|apply Hread; exact H].
  Qed.

  (* whatever the lexer does in k NextToken calls, the stream state it ends with satisfies P *)
  Theorem run_lexer_inv : forall k fuel l items l',
    P (l_src l) -> run_lexer o k fuel l = Some (items, l') -> P (l_src l').
  Proof.
    intros k fuel l items l' HP Hrun.
    assert (Hl : lex_rel diag l l) by (repeat split; auto).
    pose proof (run_lexer_rel diag o o diag_sim k fuel l l Hl) as Hr.
    rewrite Hrun in Hr. cbn [opt_rel] in Hr. destruct Hr as [_ (Hd & _)]. cbn [snd] in Hd.
    exact (proj2 Hd).
  Qed.

  Theorem init_lex_inv : forall s, P s -> P (l_src (init_lex o s)).
  Proof.
    intros s HP. pose proof (init_lex_rel diag o o diag_sim s s (conj eq_refl HP)) as (Hd & _).
    exact (proj2 Hd).
  Qed.
End LexInv.

(* ------------------------------------------------------------------------------------------ *)
(* Part B: the bufio.Reader instances                                                          *)
(* ------------------------------------------------------------------------------------------ *)

Local Open Scope nat_scope.

(* ---------- C14: well-behaved scripts ---------- *)

(* lexer.Tokenize(r) for the scripted reader s (the fuel is that of `tokenize`, any fuel will do:
   bufio_tokenize_fuel) *)
Definition bufio_tokens (s : list chunk) : option (list item) :=
  tokenize_fuel bufio_stream (length (data_of s) + 2) (bufio_init s).

(* the first k results of NextToken on lexer.New(r) *)
Definition bufio_next_tokens (k : nat) (s : list chunk) : option (list item) :=
  next_n bufio_stream k (length (data_of s) + 2) (init_lex bufio_stream (bufio_init s)).

Theorem bufio_tokenize_fuel : forall s, well_behaved s -> forall fuel,
  tokenize_fuel bufio_stream fuel (bufio_init s) = tokenize_fuel pure_stream fuel (data_of s).
Proof.
  intros s H fuel.
  exact (tokenize_sim bufio_abs_rel bufio_stream pure_stream bufio_refines_pure
           (bufio_init s) (data_of s) (bufio_init_rel s H) fuel).
Qed.

Theorem bufio_tokens_pure : forall s, well_behaved s -> bufio_tokens s = tokenize (data_of s).
Proof. intros s H. unfold bufio_tokens, tokenize. apply bufio_tokenize_fuel. exact H. Qed.

Theorem bufio_next_n_fuel : forall s, well_behaved s -> forall k fuel,
  next_n bufio_stream k fuel (init_lex bufio_stream (bufio_init s)) =
  next_n pure_stream k fuel (init_lex pure_stream (data_of s)).
Proof.
  intros s H k fuel.
  exact (next_n_sim bufio_abs_rel bufio_stream pure_stream bufio_refines_pure
           (bufio_init s) (data_of s) (bufio_init_rel s H) k fuel).
Qed.

Theorem bufio_next_tokens_pure : forall s, well_behaved s -> forall k,
  bufio_next_tokens k s = next_tokens k (data_of s).
Proof. intros s H k. unfold bufio_next_tokens, next_tokens. apply bufio_next_n_fuel. exact H. Qed.

(* with C12: Tokenize over bufio is total, ends with exactly one EOF, and EOF is sticky *)
Theorem bufio_tokens_total : forall s, well_behaved s ->
  exists pre e,
    bufio_tokens s = Some (pre ++ [e]) /\ it_tok e = T_EOF /\
    Forall (fun i => it_tok i <> T_EOF) pre /\ length (pre ++ [e]) <= length (data_of s) + 1 /\
    forall k, bufio_next_tokens (length (pre ++ [e]) + k) s = Some ((pre ++ [e]) ++ repeat e k).
Proof.
  intros s H. destruct (tokenize_total (data_of s)) as (pre & e & E & He & Hpre & Hlen & Hst).
  exists pre, e. rewrite bufio_tokens_pure by exact H. repeat split; try assumption.
  intros k. rewrite bufio_next_tokens_pure by exact H. apply Hst.
Qed.

(* chunking independence *)
Theorem bufio_tokens_chunking : forall s1 s2,
  well_behaved s1 -> well_behaved s2 -> data_of s1 = data_of s2 ->
  bufio_tokens s1 = bufio_tokens s2.
Proof. intros s1 s2 H1 H2 E. rewrite !bufio_tokens_pure by assumption. rewrite E. reflexivity. Qed.

Theorem bufio_tokenize_fuel_chunking : forall s1 s2,
  well_behaved s1 -> well_behaved s2 -> data_of s1 = data_of s2 -> forall fuel,
  tokenize_fuel bufio_stream fuel (bufio_init s1) = tokenize_fuel bufio_stream fuel (bufio_init s2).
Proof. intros s1 s2 H1 H2 E fuel. rewrite !bufio_tokenize_fuel by assumption. rewrite E. reflexivity. Qed.

Theorem bufio_next_tokens_chunking : forall s1 s2,
  well_behaved s1 -> well_behaved s2 -> data_of s1 = data_of s2 -> forall k,
  bufio_next_tokens k s1 = bufio_next_tokens k s2.
Proof.
  intros s1 s2 H1 H2 E k. rewrite !bufio_next_tokens_pure by assumption. rewrite E. reflexivity.
Qed.

(* all inputs x all ways of cutting them into non-empty reads, with any well-behaved ending
   (exhaustion, explicit (0, io.EOF), last bytes together with io.EOF) *)
Theorem bufio_tokens_chunkings : forall p1 e1 p2 e2,
  Forall (fun bs => bs <> []) p1 -> well_behaved e1 ->
  Forall (fun bs => bs <> []) p2 -> well_behaved e2 ->
  concat p1 ++ data_of e1 = concat p2 ++ data_of e2 ->
  bufio_tokens (chunked p1 e1) = bufio_tokens (chunked p2 e2) /\
  bufio_tokens (chunked p1 e1) = tokenize (concat p1 ++ data_of e1).
Proof.
  intros p1 e1 p2 e2 H1 H2 H3 H4 E.
  pose proof (chunked_well_behaved p1 e1 H1 H2) as W1.
  pose proof (chunked_well_behaved p2 e2 H3 H4) as W2.
  split.
  - apply bufio_tokens_chunking; auto. rewrite !chunked_data. exact E.
  - rewrite bufio_tokens_pure by exact W1. rewrite chunked_data. reflexivity.
Qed.

(* anything computed from the token stream alone (statements, EXPLAIN text, errors) *)
Theorem bufio_tokens_any_function : forall (A : Type) (f : option (list item) -> A) s1 s2,
  well_behaved s1 -> well_behaved s2 -> data_of s1 = data_of s2 ->
  f (bufio_tokens s1) = f (bufio_tokens s2).
Proof. intros A f s1 s2 H1 H2 E. rewrite (bufio_tokens_chunking s1 s2 H1 H2 E). reflexivity. Qed.

(* the same for a consumer that pulls tokens one NextToken call at a time, as the parser does:
   `f` receives the function k |-> first k results *)
Theorem bufio_next_tokens_any_function :
  forall (A : Type) (f : (nat -> option (list item)) -> A) s1 s2,
  well_behaved s1 -> well_behaved s2 -> data_of s1 = data_of s2 ->
  (forall g h, (forall k, g k = h k) -> f g = f h) ->
  f (fun k => bufio_next_tokens k s1) = f (fun k => bufio_next_tokens k s2).
Proof.
  intros A f s1 s2 H1 H2 E Hext. apply Hext. intros k. apply bufio_next_tokens_chunking; assumption.
Qed.

(* ---------- C15: arbitrary scripts ---------- *)

(* the lexer created by lexer.New over the scripted reader, after k NextToken calls: the items
   returned and the lexer state, whose l_src is the bufio.Reader + errorTrackingReader state.
   None = some loop of the lexer model ran out of `fuel`. *)
Definition lexrun (s : list chunk) (k fuel : nat) : option (list item * @lex bstate) :=
  run_lexer bufio_stream k fuel (init_lex bufio_stream (bufio_init s)).

Lemma lexrun_items : forall s k fuel,
  option_map fst (lexrun s k fuel) = next_n bufio_stream k fuel (init_lex bufio_stream (bufio_init s)).
Proof. intros s k fuel. apply run_lexer_items. Qed.

Theorem lexrun_reachable : forall s k fuel items lx,
  lexrun s k fuel = Some (items, lx) -> reachable s (l_src lx).
Proof.
  intros s k fuel items lx H. unfold lexrun in H.
  refine (run_lexer_inv bufio_stream (reachable s) _ _ k fuel _ items lx _ H).
  - intros n st. exact (reachable_peek s n st).
  - intros st. exact (reachable_read_rune s st).
  - apply (init_lex_inv bufio_stream (reachable s)).
    + intros n st. exact (reachable_peek s n st).
    + intros st. exact (reachable_read_rune s st).
    + apply reachable_init.
Qed.

(* Lexer.Err() after the run is exactly the first non-EOF error any Read call returned; no loop of
   the bufio model ran out of fuel; the errors are handed out in script order *)
Theorem lexrun_tracked : forall s k fuel items lx,
  lexrun s k fuel = Some (items, lx) ->
  let st := l_src lx in
  diverged st = false /\
  tracked_err st = first_read_error st /\
  script_errs s = read_errors st ++ script_errs (script st).
Proof.
  intros s k fuel items lx H st. destruct (lexrun_reachable s k fuel items lx H) as [Hg Hd].
  fold st in Hg, Hd. split; [exact Hd|]. split; [apply (gi_trk _ _ Hg)|apply (gi_errs _ _ Hg)].
Qed.

Theorem lexrun_error_is_tracked : forall s k fuel items lx e,
  lexrun s k fuel = Some (items, lx) ->
  first_read_error (l_src lx) = Some e ->
  tracked_err (l_src lx) = Some e /\ hd_error (script_errs s) = Some e.
Proof.
  intros s k fuel items lx e H He. destruct (lexrun_tracked s k fuel items lx H) as (_ & Ht & Hs).
  split; [congruence|]. rewrite Hs. unfold first_read_error in He.
  destruct (read_errors (l_src lx)); [discriminate|exact He].
Qed.

Theorem lexrun_no_error_untracked : forall s k fuel items lx,
  lexrun s k fuel = Some (items, lx) ->
  tracked_err (l_src lx) = None -> read_errors (l_src lx) = [].
Proof.
  intros s k fuel items lx H Hn. destruct (lexrun_tracked s k fuel items lx H) as (_ & Ht & _).
  rewrite Hn in Ht. unfold first_read_error in Ht.
  destruct (read_errors (l_src lx)); [reflexivity|discriminate].
Qed.

(* a well-behaved reader never returns a non-EOF error, so nothing is ever tracked *)
Lemma well_behaved_script_errs : forall s, well_behaved s -> script_errs s = [].
Proof.
  induction s as [|c r IH]; intros H; [reflexivity|].
  apply well_behaved_cons in H. destruct H as (_ & Hok & Hr). specialize (IH Hr).
  destruct c as [bs|e|bs e]; cbn [script_errs chunk_ok] in *; [exact IH| |];
    apply andb_true_iff in Hok; destruct Hok as [He _]; cbn [err_list]; rewrite He, IH; reflexivity.
Qed.

Theorem lexrun_well_behaved_untracked : forall s k fuel items lx,
  well_behaved s -> lexrun s k fuel = Some (items, lx) -> tracked_err (l_src lx) = None.
Proof.
  intros s k fuel items lx Hwb H. destruct (lexrun_tracked s k fuel items lx H) as (_ & Ht & Hs).
  rewrite (well_behaved_script_errs s Hwb) in Hs. rewrite Ht. unfold first_read_error.
  destruct (read_errors (l_src lx)); [reflexivity|discriminate].
Qed.

(* first error wins: further NextToken calls never change a tracked error *)
Theorem run_lexer_tracked_monotone : forall k fuel (l : @lex bstate) items l' e,
  run_lexer bufio_stream k fuel l = Some (items, l') ->
  tracked_err (l_src l) = Some e -> tracked_err (l_src l') = Some e.
Proof.
  intros k fuel l items l' e H He.
  assert (Hl : later (l_src l) (l_src l')).
  { refine (run_lexer_inv bufio_stream (later (l_src l)) _ _ k fuel l items l' (later_refl _) H).
    - intros n st Hst. eapply later_trans; [exact Hst|apply peek_later].
    - intros st Hst. eapply later_trans; [exact Hst|apply read_rune_later]. }
  destruct Hl as [M _]. apply M. exact He.
Qed.

(* ------------------------------------------------------------------------------------------ *)
(* Part C: the driver                                                                          *)
(* ------------------------------------------------------------------------------------------ *)

(* p.lexer.Err() != nil *)
Definition read_failed_of (st : bstate) : bool :=
  match tracked_err st with Some _ => true | None => false end.

(* the token list the driver model works on: WHITESPACE / LINE_COMMENT skipped by nextToken, EOF = [] *)
Definition driver_tokens (items : list item) : list item :=
  filter (fun i => negb ((it_tok i =? T_WHITESPACE)%N || (it_tok i =? T_LINE_COMMENT)%N ||
                         (it_tok i =? T_EOF)%N)) items.

Section DriverReadError.
  Import DriverModel.
  Variables stmt err : Type.
  Variable ps : list item -> option stmt * list item * list err.
  Variable mk_parallel : stmt -> list stmt -> stmt.
  Variable ctx_err : ctx_error.

  (* with p.lexer.Err() != nil the loop can only end with the context's error or the read error *)
  Lemma loop_read_failed : forall done f k ts acc errs ss e rest,
    DriverModel.loop ps mk_parallel done ctx_err true f k ts acc errs = Finished ss e rest ->
    (e = ReadErr /\ rest = []) \/ (e = CtxErr ctx_err /\ exists j, done j = true).
  Proof.
    intros done. induction f as [|f IH]; intros k ts acc errs ss e rest H; cbn [DriverModel.loop] in H.
    - discriminate.
    - destruct ts as [|t ts].
      + unfold finish in H. inversion H; subst. left. split; reflexivity.
      + destruct (done k) eqn:Hd.
        * inversion H; subst. right. split; [reflexivity|]. exists k. exact Hd.
        * destruct (step ps mk_parallel (t :: ts)) as [|r ts' es|].
          -- unfold finish in H. inversion H; subst. left. split; reflexivity.
          -- eapply IH; exact H.
          -- discriminate.
  Qed.

  Lemma loop_not_read_failed : forall done f k ts acc errs ss e rest,
    DriverModel.loop ps mk_parallel done ctx_err false f k ts acc errs = Finished ss e rest ->
    e <> ReadErr.
  Proof.
    intros done. induction f as [|f IH]; intros k ts acc errs ss e rest H; cbn [DriverModel.loop] in H.
    - discriminate.
    - destruct ts as [|t ts].
      + unfold finish in H. destruct errs; inversion H; subst; discriminate.
      + destruct (done k).
        * inversion H; subst. discriminate.
        * destruct (step ps mk_parallel (t :: ts)) as [|r ts' es|].
          -- unfold finish in H. destruct errs; inversion H; subst; discriminate.
          -- eapply IH; exact H.
          -- discriminate.
  Qed.

  Theorem run_read_failed : forall done ts ss e rest,
    (forall j, done j = false) ->
    run ps mk_parallel done ctx_err true ts = Finished ss e rest -> e = ReadErr /\ rest = [].
  Proof.
    intros done ts ss e rest Hd H. unfold run in H. apply loop_read_failed in H.
    destruct H as [H|[_ [j Hj]]]; [exact H|]. rewrite Hd in Hj. discriminate.
  Qed.

  (* the driver-level statement: if a Read performed while the lexer produced the tokens returned a
     non-EOF error e, then ParseStatements (context never cancelled) returns the read error, and
     the error it wraps -- p.lexer.Err() -- is e *)
  Theorem driver_reports_read_error : forall done s k fuel items lx e ts ss er rest,
    (forall j, done j = false) ->
    lexrun s k fuel = Some (items, lx) ->
    first_read_error (l_src lx) = Some e ->
    run ps mk_parallel done ctx_err (read_failed_of (l_src lx)) ts = Finished ss er rest ->
    er = ReadErr /\ rest = [] /\ tracked_err (l_src lx) = Some e.
  Proof.
    intros done s k fuel items lx e ts ss er rest Hd Hrun He H.
    destruct (lexrun_error_is_tracked s k fuel items lx e Hrun He) as [Ht _].
    unfold read_failed_of in H. rewrite Ht in H.
    destruct (run_read_failed done ts ss er rest Hd H) as [E1 E2]. auto.
  Qed.

  (* conversely the read error is reported only if a Read returned a non-EOF error *)
  Theorem driver_read_error_only_if : forall done s k fuel items lx ts ss rest,
    lexrun s k fuel = Some (items, lx) ->
    run ps mk_parallel done ctx_err (read_failed_of (l_src lx)) ts = Finished ss ReadErr rest ->
    exists e, first_read_error (l_src lx) = Some e /\ tracked_err (l_src lx) = Some e /\
              hd_error (script_errs s) = Some e.
  Proof.
    intros done s k fuel items lx ts ss rest Hrun H.
    destruct (lexrun_tracked s k fuel items lx Hrun) as (_ & Ht & _).
    destruct (tracked_err (l_src lx)) as [e|] eqn:Et.
    - exists e. symmetry in Ht. destruct (lexrun_error_is_tracked s k fuel items lx e Hrun Ht) as [_ Hh].
      auto.
    - exfalso. unfold read_failed_of in H. rewrite Et in H. unfold run in H.
      exact (loop_not_read_failed _ _ _ _ _ _ _ _ _ H eq_refl).
  Qed.
  (* with the progress hypotheses of C16 the driver model terminates, so the read error IS returned *)
  Theorem driver_returns_read_error : forall done s k fuel items lx e ts,
    (forall ts, ts <> [] -> length (DriverProof.rem (ps ts)) < length ts) ->
    DriverProof.rem (ps []) = [] ->
    (forall j, done j = false) ->
    lexrun s k fuel = Some (items, lx) ->
    first_read_error (l_src lx) = Some e ->
    exists ss,
      parse_statements ps mk_parallel done ctx_err (read_failed_of (l_src lx)) ts = Some (ss, ReadErr) /\
      tracked_err (l_src lx) = Some e.
  Proof.
    intros done s k fuel items lx e ts Hprog Heof Hd Hrun He.
    destruct (DriverProof.run_finishes stmt err ps mk_parallel ctx_err (read_failed_of (l_src lx))
                Hprog Heof done ts) as (ss & er & rest & H).
    destruct (driver_reports_read_error done s k fuel items lx e ts ss er rest Hd Hrun He H)
      as (E1 & E2 & E3).
    exists ss. unfold parse_statements. rewrite H. subst er. auto.
  Qed.
End DriverReadError.
