(* C13 (d), the parser side, as an obligation over the inventory generated from /repo/parser/*.go by
   /verif/translator/cmd/posmsggen (Gen/PosMessages.v): every message that carries "line %d, column %d"
   prints <X>.Pos.Line, <X>.Pos.Column of ONE token register X (p.current / p.peek / p.peekPeek or a local
   copy), and the registers are written only by the three assignments of nextToken(), i.e. they only ever
   hold results of lexer.NextToken().  Why this implies "the printed pair is the position of an item of
   the token list" is argued in the generator's header comment (it is an argument about Go semantics, not
   a Coq theorem); the Coq side makes the inventory a checked obligation, so that a new message printing a
   computed or stale position, or a new write to a register, breaks the build of Properties/C13.v. *)
From Coq Require Import List String Bool.
From DC Require Import Gen.PosMessages.
Import ListNotations.
Local Open Scope string_scope.

Definition messages_from_tokens : bool := forallb from_token_pos pos_messages.

Definition registers_only_from_lexer : bool :=
  forallb iw_allowed item_writes &&
  match item_addr_taken with [] => true | _ => false end &&
  negb (existsb (String.eqb "unsafe") parser_imports).

(* the inventory is not empty by accident (a generator that finds nothing proves nothing): the three
   known producers are present, and the three writes of nextToken are *)
Definition has_func (f : string) : bool := existsb (fun m => String.eqb (pm_func m) f) pos_messages.
Definition has_write (lhs rhs : string) : bool :=
  existsb (fun w => String.eqb (iw_func w) "nextToken" && String.eqb (iw_lhs w) lhs && String.eqb (iw_rhs w) rhs) item_writes.

Definition inventory_plausible : bool :=
  has_func "expect" && has_func "expectPeek" &&
  has_write "p.current" "= p.peek" && has_write "p.peek" "= p.peekPeek" &&
  has_write "p.peekPeek" "= p.lexer.NextToken()" &&
  Nat.leb 3 (List.length pos_messages).

Lemma messages_use_token_positions : forallb from_token_pos pos_messages = true.
Proof. vm_compute. reflexivity. Qed.

Lemma token_registers_only_hold_lexer_items : registers_only_from_lexer = true.
Proof. vm_compute. reflexivity. Qed.

Lemma position_inventory_plausible : inventory_plausible = true.
Proof. vm_compute. reflexivity. Qed.
