(* C05, lexer part 2: the token signatures produced from a lexer state, free of fuel and positions.

   T l            : the signatures (kind, value, quoted) of the tokens NextToken produces from state l
                    up to and including EOF;
   T_step         : one NextToken call peels one signature off T;
   T_same         : T depends on the state only up to its position;
   TS rest        : T of the state positioned at `rest`;   tokenize bs produces TS bs;
   cut_spec       : the side condition `cut` splits TS (a ++ rest). *)
From Coq Require Import List NArith Bool Lia Arith.
From DC Require Import Base.Utf8 Base.Unicode Base.UnicodeFacts Base.Stream Base.Item Gen.TokenTable
  Lexer.LexerModel Lexer.LexerTotal Lexer.LexerLayoutSpec Lexer.LexerLayoutRel.
Import ListNotations.
Local Open Scope bool_scope.

Definition T (l : plex) : list sigT :=
  match tokenize_loop pure_stream (mu l + 1) (mu l + 1) l with
  | Some its => map sig_item its
  | None => []
  end.

Lemma same_mu : forall l l', same_st l l' -> mu l' = mu l.
Proof. intros l l' (A & B & C). unfold mu. rewrite A, C. reflexivity. Qed.
Lemma same_wf : forall l l', same_st l l' -> wf l -> wf l'.
Proof. intros l l' (A & B & C) W. unfold wf in *. rewrite <- B, <- C. exact W. Qed.

Lemma tokenize_loop_rel : forall n n' f f' l l', same_st l l' ->
  orel (fun a b => map sig_item a = map sig_item b)
       (tokenize_loop pure_stream n f l) (tokenize_loop pure_stream n' f' l').
Proof.
  induction n as [|n IH]; intros n' f f' l l' H; [exact I|].
  destruct n' as [|n'].
  { cbn. destruct (bind _ _); exact I. }
  cbn [tokenize_loop].
  eapply bind_rel; [apply next_token_rel; exact H|].
  intros [it l1] [it' l1'] [Hs Hl]. cbn [fst snd] in Hs, Hl.
  assert (Ht : it_tok it' = it_tok it) by (unfold sig_item in Hs; congruence).
  rewrite Ht. destruct (it_tok it =? T_EOF)%N.
  - cbn [orel map]. rewrite Hs. reflexivity.
  - eapply bind_rel; [apply IH; exact Hl|].
    intros its its' Hi. cbn [orel map]. rewrite Hs, Hi. reflexivity.
Qed.

Lemma T_any : forall n f l, wf l -> mu l < n -> mu l < f ->
  exists its, tokenize_loop pure_stream n f l = Some its /\ map sig_item its = T l.
Proof.
  intros n f l W Hn Hf.
  destruct (tokenize_loop_ok n f l W Hn Hf) as (pre & e & E & _).
  destruct (tokenize_loop_ok (mu l + 1) (mu l + 1) l W) as (pre' & e' & E' & _); [lia|lia|].
  exists (pre ++ [e]). split; [exact E|]. unfold T. rewrite E'.
  pose proof (tokenize_loop_rel n (mu l + 1) f (mu l + 1) l l (same_refl l)) as Hr.
  rewrite E, E' in Hr. exact Hr.
Qed.

Lemma T_same : forall l l', same_st l l' -> wf l -> T l = T l'.
Proof.
  intros l l' H W. pose proof (same_wf l l' H W) as W'. pose proof (same_mu l l' H) as Hm.
  destruct (T_any (mu l + 1) (mu l + 1) l W) as (its & E & Et); [lia|lia|].
  destruct (T_any (mu l + 1) (mu l + 1) l' W') as (its' & E' & Et'); [lia|lia|].
  pose proof (tokenize_loop_rel (mu l + 1) (mu l + 1) (mu l + 1) (mu l + 1) l l' H) as Hr.
  rewrite E, E' in Hr. cbn [orel] in Hr. congruence.
Qed.

(* one NextToken call *)
Lemma T_step : forall f l it l', wf l -> mu l < f ->
  next_token pure_stream f l = Some (it, l') ->
  wf l' /\
  ((it_tok it = T_EOF /\ T l = [sig_item it]) \/
   (it_tok it <> T_EOF /\ mu l' < mu l /\ T l = sig_item it :: T l')).
Proof.
  intros f l it l' W Hf E.
  destruct (next_token_ok f l W Hf) as (it0 & l0 & E0 & W0 & Hcase).
  rewrite E in E0. injection E0 as <- <-.
  split; [exact W0|].
  destruct (T_any (mu l + 1) f l W) as (its & Et & Hs); [lia|exact Hf|].
  rewrite Nat.add_1_r in Et. cbn [tokenize_loop] in Et. rewrite E in Et. cbn [bind] in Et.
  destruct Hcase as [(Hit & A & Hle)|(Ht & Hlt)].
  - left. subst it. cbn [eof_item it_tok mk_item] in *. rewrite N.eqb_refl in Et.
    injection Et as <-. split; [reflexivity|]. rewrite <- Hs. reflexivity.
  - right. split; [exact Ht|]. split; [exact Hlt|].
    destruct (it_tok it =? T_EOF)%N eqn:C; [apply N.eqb_eq in C; contradiction|].
    destruct (T_any (mu l) f l' W0) as (its' & Et' & Hs'); [lia|lia|].
    rewrite Et' in Et. cbn [bind] in Et. injection Et as <-.
    rewrite <- Hs, <- Hs'. reflexivity.
Qed.

(* two states from which NextToken returns the same thing produce the same signatures *)
Lemma T_next_eq : forall f l l2, wf l -> wf l2 -> mu l < f -> mu l2 < f ->
  next_token pure_stream f l = next_token pure_stream f l2 -> T l = T l2.
Proof.
  intros f l l2 W W2 Hf Hf2 E.
  destruct (next_token_ok f l W Hf) as (it & l' & E1 & _).
  pose proof E1 as E2. rewrite E in E2.
  destruct (T_step f l it l' W Hf E1) as (_ & [(A & B)|(A & _ & B)]);
  destruct (T_step f l2 it l' W2 Hf2 E2) as (_ & [(A' & B')|(A' & _ & B')]); try contradiction; congruence.
Qed.

(* skipWhitespace is invisible *)
Lemma next_token_skip : forall f l l2, skip_whitespace pure_stream f l = Some l2 -> 0 < f ->
  is_ws (l_ch l2) = false ->
  next_token pure_stream f l = next_token pure_stream f l2.
Proof.
  intros f l l2 E Hf Hws. unfold next_token. rewrite E. cbn [bind].
  destruct f as [|f]; [lia|]. unfold skip_whitespace, skip_while. cbn [loop]. rewrite Hws. reflexivity.
Qed.

Lemma T_ws : forall l, wf l -> is_ws (l_ch l) = true -> T l = T (rc l).
Proof.
  intros l W C.
  pose proof (cond_not_eof is_ws l is_ws_class0 W C) as E.
  pose proof (rc_wf l) as W1. pose proof (rc_mu_lt l E) as Hlt.
  set (f := mu l + 1).
  destruct (skip_while_total is_ws is_ws_class0 f (rc l) W1) as (l2 & E2 & [W2 H2] & Hws); [unfold f; lia|].
  assert (E1 : skip_whitespace pure_stream (Datatypes.S f) l = Some l2).
  { unfold skip_whitespace, skip_while. cbn [loop]. rewrite C. exact E2. }
  transitivity (T l2).
  - apply (T_next_eq (Datatypes.S f)); [exact W|exact W2|unfold f; lia|unfold f; lia|].
    apply next_token_skip; [exact E1|lia|exact Hws].
  - symmetry. apply (T_next_eq f); [exact W1|exact W2|unfold f; lia|unfold f; lia|].
    apply next_token_skip; [exact E2|unfold f; lia|exact Hws].
Qed.

(* ---- states positioned at a remaining input ---- *)

Definition at_ (l : plex) (rest : list N) : Prop := same_st l (st_at rest).
Definition TS (rest : list N) : list sigT := T (st_at rest).

Lemma st_at_wf : forall r, wf (st_at r).
Proof. intros [|b bs]; unfold wf; cbn; [reflexivity|discriminate]. Qed.

Lemma st_at_mu : forall r, mu (st_at r) <= length r.
Proof.
  intros [|b bs]; unfold mu; [cbn; lia|].
  unfold st_at. cbn [l_src l_eof]. rewrite skipn_length.
  pose proof (decode_size_pos b bs). cbn [length] in *. lia.
Qed.

Lemma at_wf : forall l r, at_ l r -> wf l.
Proof. intros l r H. apply (same_wf (st_at r) l); [apply same_sym; exact H|apply st_at_wf]. Qed.

Lemma at_T : forall l r, at_ l r -> T l = TS r.
Proof. intros l r H. apply T_same; [exact H|eapply at_wf; exact H]. Qed.

Lemma at_st : forall r, at_ (st_at r) r.
Proof. intros r. apply same_refl. Qed.

Lemma init_at : forall bs, at_ (init_lex pure_stream bs) bs.
Proof.
  intros bs. unfold at_, init_lex, read_char. cbn [l_eof l_src l_ch l_pos s_read_rune pure_stream].
  unfold pure_read_rune, st_at. destruct bs as [|b bs]; [repeat split|].
  destruct (decode_rune (b :: bs)) as [r sz]. repeat split.
Qed.

(* reading one character moves the position by one rune *)
Lemma at_rc : forall l b bs, at_ l (b :: bs) -> at_ (rc l) (skipn (snd (decode_rune (b :: bs))) (b :: bs)).
Proof.
  intros l b bs H. eapply same_trans; [apply same_rc; exact H|].
  unfold st_at at 1. unfold read_char. cbn [l_eof l_src l_ch l_pos s_read_rune pure_stream].
  unfold pure_read_rune. set (s1 := skipn (snd (decode_rune (b :: bs))) (b :: bs)).
  unfold st_at. destruct s1 as [|c cs]; [repeat split|].
  destruct (decode_rune (c :: cs)) as [r sz]. repeat split.
Qed.

Lemma at_ch : forall l r, at_ l r -> l_ch l = hd_rune r.
Proof. intros l r (_ & H & _). exact H. Qed.
Lemma at_eof_nil : forall l, at_ l [] -> l_eof l = true.
Proof. intros l (_ & _ & H). exact H. Qed.
Lemma at_eof_cons : forall l b bs, at_ l (b :: bs) -> l_eof l = false.
Proof. intros l b bs (_ & _ & H). exact H. Qed.

Lemma tokenize_TS : forall bs, exists its, tokenize bs = Some its /\ map sig_item its = TS bs.
Proof.
  intros bs. unfold tokenize, tokenize_fuel.
  destruct (init_lex_ok bs) as [W H].
  destruct (T_any (length bs + 2) (length bs + 2) (init_lex pure_stream bs) W) as (its & E & Hs); [lia|lia|].
  exists its. split; [exact E|]. rewrite Hs. apply at_T, init_at.
Qed.

Lemma lex_sig_raw_TS : forall bs, lex_sig_raw bs = Some (filter not_comment_sig (TS bs)).
Proof.
  intros bs. destruct (tokenize_TS bs) as (its & E & Hs). unfold lex_sig_raw, sig_raw.
  rewrite E. cbn [option_map]. rewrite Hs. reflexivity.
Qed.

Lemma lex_sig_of_raw : forall bs, lex_sig bs = option_map (map norm_sig) (lex_sig_raw bs).
Proof. intros bs. unfold lex_sig, lex_sig_raw, sig_of. destruct (tokenize bs); reflexivity. Qed.

(* ---- the side condition ---- *)

Lemma bytes_eqb_eq : forall a b, bytes_eqb a b = true -> a = b.
Proof.
  induction a as [|x a IH]; intros [|y b] H; cbn in H; try discriminate; [reflexivity|].
  apply andb_prop in H. destruct H as [H1 H2]. apply N.eqb_eq in H1. subst y. f_equal. apply IH, H2.
Qed.

Lemma at_b_at : forall l r, at_b l r = true -> at_ l r.
Proof.
  intros l r H. unfold at_b in H. apply andb_prop in H. destruct H as [H H3].
  apply andb_prop in H. destruct H as [H1 H2].
  repeat split; [apply bytes_eqb_eq, H1|apply N.eqb_eq, H2|apply eqb_prop, H3].
Qed.

Lemma cut_loop_spec : forall n f l rest its, wf l -> mu l < f ->
  cut_loop n f l rest = Some its -> T l = map sig_item its ++ TS rest.
Proof.
  induction n as [|n IH]; intros f l rest its W Hf E; [discriminate E|].
  cbn [cut_loop] in E. destruct (at_b l rest) eqn:A.
  - injection E as <-. cbn [map app]. apply at_T, at_b_at, A.
  - destruct (next_token pure_stream f l) as [[it l']|] eqn:En; [|discriminate E]. cbn [bind] in E.
    destruct (it_tok it =? T_EOF)%N eqn:C; [discriminate E|].
    destruct (cut_loop n f l' rest) as [its'|] eqn:Ec; [|discriminate E]. cbn [bind] in E. injection E as <-.
    destruct (T_step f l it l' W Hf En) as (W' & [(A1 & _)|(_ & Hlt & Ht)]).
    + rewrite A1 in C. vm_compute in C. discriminate C.
    + rewrite Ht. cbn [map app]. f_equal. apply (IH f l' rest its' W'); [lia|exact Ec].
Qed.

Lemma cut_spec : forall a rest its, cut a rest = Some its -> TS (a ++ rest) = map sig_item its ++ TS rest.
Proof.
  intros a rest its E. unfold cut in E.
  destruct (init_lex_ok (a ++ rest)) as [W H].
  rewrite <- (at_T _ _ (init_at (a ++ rest))).
  eapply cut_loop_spec; [exact W| |exact E]. lia.
Qed.
