(* The lexer over bufio.Reader over ANY scripted io.Reader is total, and with that the C15 theorems
   no longer need the hypothesis `lexrun s k fuel = Some _`.

   Lexer/LexerTotalGen.v  (totality over an abstract stream with a measure)
     instantiated with
   Stream/BufioMeasure.v  (bmu = window bytes + bytes still in the script; Peek keeps it, a ReadRune
                           that returns a rune decreases it -- for every state and every script).

   The explicit fuel bound: every fuel > length (data_of s), the number of data bytes of the script
   (lexfuel s = length (data_of s) + 1 is the least one).  Neither the number of chunks nor the
   number of empty reads enters: fill gives up after 100 consecutive empty reads by itself
   (io.ErrNoProgress), error chunks end a fill, and after a failed ReadRune the lexer is at eof and
   does not call ReadRune again.

   Results:
     next_token_bufio_total       NextToken returns from every lexer state with l.eof -> l.ch = 0;
     lexrun_total                 lexer.New + k NextToken calls return, for every script s and k;
     bufio_tokenize_total         Tokenize returns on every script: one EOF, last, sticky;
     lexrun_total_tracked / lexrun_total_error_is_tracked / driver_reports_read_error_total /
     driver_returns_read_error_total / parse_reports_read_error
                                  the C15 statements without a fuel hypothesis. *)
From Coq Require Import List NArith Bool Arith Lia.
From DC Require Import Base.Utf8 Base.Stream Base.Item Gen.TokenTable.
From DC Require Import Lexer.LexerModel Lexer.LexerSim Lexer.LexerTotalGen.
From DC Require Import Stream.Simulation Stream.BufioModel Stream.BufioProof Stream.BufioMeasure.
From DC Require Driver.DriverModel Driver.DriverProof.
Import ListNotations.

Notation blex := (@lex bstate).

(* the remaining work of a lexer over bufio, and its invariant *)
Definition bufio_mu (l : blex) : nat := LexerTotalGen.mu bmu l.
Definition bufio_wf (l : blex) : Prop := LexerTotalGen.wf l.

(* the least sufficient fuel for a script *)
Definition lexfuel (s : list chunk) : nat := S (length (data_of s)).

(* ---------- NextToken always returns ---------- *)

Theorem next_token_bufio_total : forall fuel (l : blex),
  bufio_wf l -> bufio_mu l < fuel ->
  exists it l', next_token bufio_stream fuel l = Some (it, l') /\ bufio_wf l' /\ bufio_mu l' <= bufio_mu l.
Proof.
  intros fuel l W Hm.
  destruct (LexerTotalGen.next_token_ok bufio_stream bmu bufio_stream_peek_mu bufio_stream_read_mu
              fuel l W Hm) as (it & l' & E & W' & Hcase).
  exists it, l'. split; [exact E|]. split; [exact W'|].
  unfold bufio_mu. destruct Hcase as [(_ & _ & H)|(_ & H)]; lia.
Qed.

(* lexer.New(r) followed by k NextToken calls, for every script and every k *)
Theorem lexrun_total : forall s k fuel, length (data_of s) < fuel ->
  exists items lx, lexrun s k fuel = Some (items, lx) /\ length items = k.
Proof.
  intros s k fuel Hf. unfold lexrun.
  destruct (LexerTotalGen.run_lexer_init_total bufio_stream bmu bufio_stream_peek_mu
              bufio_stream_read_mu (bufio_init s) k fuel) as (items & lx & E & Hlen & _).
  - rewrite bmu_init. exact Hf.
  - exists items, lx. split; [exact E|exact Hlen].
Qed.

Corollary lexrun_total_lexfuel : forall s k,
  exists items lx, lexrun s k (lexfuel s) = Some (items, lx) /\ length items = k.
Proof. intros s k. apply lexrun_total. unfold lexfuel. lia. Qed.

(* the statement in the "there is a fuel such that for all larger fuel" form *)
Corollary lexrun_never_out_of_fuel : forall s k,
  exists fuel0, forall fuel, fuel0 <= fuel -> lexrun s k fuel <> None.
Proof.
  intros s k. exists (lexfuel s). intros fuel Hf.
  destruct (lexrun_total s k fuel) as (items & lx & E & _); [unfold lexfuel in Hf; lia|].
  rewrite E. discriminate.
Qed.

(* Tokenize(r) over ANY scripted reader: returns, exactly one EOF and it is last, at most one token
   per data byte plus one, NextToken after EOF keeps returning EOF (C12 over arbitrary readers;
   C14's bufio_tokens_total has the same conclusion for well-behaved scripts only) *)
Theorem bufio_tokenize_total : forall s,
  exists pre e,
    bufio_tokens s = Some (pre ++ [e]) /\ it_tok e = T_EOF /\
    Forall (fun i => it_tok i <> T_EOF) pre /\ length (pre ++ [e]) <= length (data_of s) + 1 /\
    forall k, bufio_next_tokens (length (pre ++ [e]) + k) s = Some ((pre ++ [e]) ++ repeat e k).
Proof.
  intros s. unfold bufio_tokens, bufio_next_tokens.
  destruct (LexerTotalGen.tokenize_fuel_total bufio_stream bmu bufio_stream_peek_mu
              bufio_stream_read_mu (bufio_init s) (length (data_of s) + 2))
    as (pre & e & E & He & Hpre & Hlen & Hst).
  - rewrite bmu_init. lia.
  - rewrite bmu_init in Hlen. exists pre, e. auto.
Qed.

(* ---------- C15 at the lexer, without the fuel hypothesis ---------- *)

Theorem lexrun_total_tracked : forall s k fuel, length (data_of s) < fuel ->
  exists items lx,
    lexrun s k fuel = Some (items, lx) /\ length items = k /\
    reachable s (l_src lx) /\
    diverged (l_src lx) = false /\
    tracked_err (l_src lx) = first_read_error (l_src lx) /\
    script_errs s = read_errors (l_src lx) ++ script_errs (script (l_src lx)).
Proof.
  intros s k fuel Hf. destruct (lexrun_total s k fuel Hf) as (items & lx & E & Hlen).
  exists items, lx. split; [exact E|]. split; [exact Hlen|].
  split; [exact (lexrun_reachable s k fuel items lx E)|].
  exact (lexrun_tracked s k fuel items lx E).
Qed.

(* THE property at the lexer: the run exists, and if any Read performed during it returned a
   non-EOF error, the first such error e is what Lexer.Err() returns (and it is the first non-EOF
   error of the script) *)
Theorem lexrun_total_error_is_tracked : forall s k fuel, length (data_of s) < fuel ->
  exists items lx,
    lexrun s k fuel = Some (items, lx) /\
    (forall e, first_read_error (l_src lx) = Some e ->
       tracked_err (l_src lx) = Some e /\ hd_error (script_errs s) = Some e) /\
    (tracked_err (l_src lx) = None -> read_errors (l_src lx) = []).
Proof.
  intros s k fuel Hf. destruct (lexrun_total s k fuel Hf) as (items & lx & E & _).
  exists items, lx. split; [exact E|]. split.
  - intros e He. exact (lexrun_error_is_tracked s k fuel items lx e E He).
  - exact (lexrun_no_error_untracked s k fuel items lx E).
Qed.

(* ---------- the driver ---------- *)

Section DriverTotal.
  Import DriverModel.
  Variables stmt err : Type.
  Variable ps : list item -> option stmt * list item * list err.
  Variable mk_parallel : stmt -> list stmt -> stmt.
  Variable ctx_err : ctx_error.

  (* whatever ParseStatements returns (context never cancelled) after a run in which a Read returned
     a non-EOF error is the read error wrapping it *)
  Theorem driver_reports_read_error_total : forall done s k fuel,
    (forall j, done j = false) ->
    length (data_of s) < fuel ->
    exists items lx,
      lexrun s k fuel = Some (items, lx) /\
      forall e, first_read_error (l_src lx) = Some e ->
        tracked_err (l_src lx) = Some e /\
        forall ts ss er rest,
          run ps mk_parallel done ctx_err (read_failed_of (l_src lx)) ts = Finished ss er rest ->
          er = ReadErr /\ rest = [].
  Proof.
    intros done s k fuel Hd Hf. destruct (lexrun_total s k fuel Hf) as (items & lx & E & _).
    exists items, lx. split; [exact E|]. intros e He.
    split; [exact (proj1 (lexrun_error_is_tracked s k fuel items lx e E He))|].
    intros ts ss er rest H.
    destruct (driver_reports_read_error stmt err ps mk_parallel ctx_err done s k fuel items lx e ts
                ss er rest Hd E He H) as (E1 & E2 & _). auto.
  Qed.

  (* THE property at the driver, unconditional in the lexer: for every script s and every number k
     of NextToken calls the parser makes, the lexer run exists; if some Read performed during it
     returned a non-EOF error, e being the first, then ParseStatements with a never-cancelled
     context (and a statement parser that makes progress: the C16 hypotheses) returns
     ReadErr = fmt.Errorf("read error: %w", p.lexer.Err()) and p.lexer.Err() = e. *)
  Theorem driver_returns_read_error_total : forall done s k fuel,
    (forall ts, ts <> [] -> length (DriverProof.rem (ps ts)) < length ts) ->
    DriverProof.rem (ps []) = [] ->
    (forall j, done j = false) ->
    length (data_of s) < fuel ->
    exists items lx,
      lexrun s k fuel = Some (items, lx) /\
      forall e, first_read_error (l_src lx) = Some e ->
        tracked_err (l_src lx) = Some e /\
        forall ts, exists ss,
          parse_statements ps mk_parallel done ctx_err (read_failed_of (l_src lx)) ts =
            Some (ss, ReadErr).
  Proof.
    intros done s k fuel Hprog Heof Hd Hf. destruct (lexrun_total s k fuel Hf) as (items & lx & E & _).
    exists items, lx. split; [exact E|]. intros e He.
    split; [exact (proj1 (lexrun_error_is_tracked s k fuel items lx e E He))|].
    intros ts.
    destruct (driver_returns_read_error stmt err ps mk_parallel ctx_err done s k fuel items lx e ts
                Hprog Heof Hd E He) as (ss & H & _).
    exists ss. exact H.
  Qed.

  (* the same with the canonical fuel, the parser's token list being the one the lexer produced *)
  Corollary parse_reports_read_error : forall s k,
    (forall ts, ts <> [] -> length (DriverProof.rem (ps ts)) < length ts) ->
    DriverProof.rem (ps []) = [] ->
    exists items lx,
      lexrun s k (lexfuel s) = Some (items, lx) /\
      forall e, first_read_error (l_src lx) = Some e ->
        tracked_err (l_src lx) = Some e /\
        exists ss,
          parse_statements ps mk_parallel never ctx_err (read_failed_of (l_src lx))
            (driver_tokens items) = Some (ss, ReadErr).
  Proof.
    intros s k Hprog Heof.
    destruct (driver_returns_read_error_total never s k (lexfuel s) Hprog Heof (fun _ => eq_refl))
      as (items & lx & E & H); [unfold lexfuel; lia|].
    exists items, lx. split; [exact E|]. intros e He. destruct (H e He) as [Ht Hp].
    split; [exact Ht|apply Hp].
  Qed.
End DriverTotal.

(* ---------- non-vacuity ---------- *)
Local Open Scope N_scope.

(* a hostile script: empty reads, a transient error in the middle of a token, data with an error,
   an explicit EOF followed by more data, 150 empty reads in a row (io.ErrNoProgress) *)
Definition hostile_script : list chunk :=
  [Data []; Data [83; 69]; Err 7; Data [76; 69; 67; 84; 32]; DataErr [49; 32] 9; Err 0; Data [50]]
  ++ repeat (Data []) 150 ++ [Data [51]].

Example hostile_script_fuel : lexfuel hostile_script = 12%nat.
Proof. reflexivity. Qed.

(* with the fuel of the theorem: "SE" is an identifier, then the failed ReadRune is taken for the
   end of input; error 7 is tracked (the later error 9 is never read) *)
Example hostile_script_run :
  option_map (fun r => (map it_tok (fst r), tracked_err (l_src (snd r)), read_errors (l_src (snd r))))
             (lexrun hostile_script 3 (lexfuel hostile_script)) =
  Some ([T_IDENT; T_EOF; T_EOF], Some 7, [7]).
Proof. vm_compute. reflexivity. Qed.

(* with one unit less the model does run out of fuel on some scripts: the bound is tight up to the
   constant *)
Example lexfuel_needed :
  lexrun [Data [97; 98; 99]] 1 3%nat = None /\ lexrun [Data [97; 98; 99]] 1 4%nat <> None.
Proof. vm_compute. split; [reflexivity|discriminate]. Qed.
