(* C13, the specification side: what "line L, column C of the byte at offset off" means for a byte
   string, independently of the lexer.  Nothing here mentions Lexer/LexerModel.v.

   Reading (DESIGN.md section 7): a token.Position designates a RUNE of the input by the 1-based offset
   of the rune's LAST byte (equivalently: the number of bytes up to and including that rune).  Runes are
   what bufio.Reader.ReadRune delivers = repeated Base/Utf8.decode_rune; an invalid byte is a rune
   (U+FFFD) of width 1.  Line = 1 + the number of '\n' runes strictly before the rune; column = 1 +
   the number of runes strictly before it and after the last '\n' before it (so the first rune of a
   line has column 1 and a '\n' itself is the last column of the line it ends). *)
From Coq Require Import List NArith Bool.
From DC Require Import Base.Utf8 Base.Item.
Import ListNotations.
Local Open Scope N_scope.

(* the runes of a byte string, each with the number of bytes it occupies *)
Fixpoint runes_fuel (fuel : nat) (bs : list N) : list (N * nat) :=
  match fuel with
  | O => []
  | S f =>
      match bs with
      | [] => []
      | _ => let '(r, sz) := decode_rune bs in (r, sz) :: runes_fuel f (skipn sz bs)
      end
  end.
Definition runes_of (bs : list N) : list (N * nat) := runes_fuel (length bs) bs.

(* `before` = the runes strictly before the designated one, in source order *)
Definition line_after (before : list N) : N := 1 + N.of_nat (count_occ N.eq_dec before 10).

(* number of leading elements that are not '\n' *)
Fixpoint run_no_nl (l : list N) : nat :=
  match l with
  | [] => O
  | r :: t => if r =? 10 then O else S (run_no_nl t)
  end.
(* the runes after the last '\n' of `before` are the leading non-'\n' run of its reversal *)
Definition col_after (before : list N) : N := 1 + N.of_nat (run_no_nl (rev before)).

(* walk the runes; `start` = bytes before the rune under inspection, `before` = runes before it.
   Result: (byte index where the rune starts, the rune, its size, the runes before it). *)
Fixpoint find_rune_end (rs : list (N * nat)) (start : nat) (before : list N) (off : N)
  : option (nat * N * nat * list N) :=
  match rs with
  | [] => None
  | (r, sz) :: rs' =>
      if N.of_nat (start + sz) =? off then Some (start, r, sz, before)
      else find_rune_end rs' (start + sz)%nat (before ++ [r]) off
  end.

(* the rune whose last byte is the off-th byte (1-based) of bs, if a rune ends there *)
Definition rune_ending_at (bs : list N) (off : N) : option (nat * N * nat * list N) :=
  find_rune_end (runes_of bs) O [] off.

(* the position record that designates that rune *)
Definition pos_of_rune_end (bs : list N) (off : N) : option pos :=
  match rune_ending_at bs off with
  | Some (_, _, _, before) => Some {| p_off := off; p_line := line_after before; p_col := col_after before |}
  | None => None
  end.

(* (rune, size) when byte index k (0-based) is the first byte of a rune of bs *)
Fixpoint find_rune_start (rs : list (N * nat)) (start k : nat) : option (N * nat) :=
  match rs with
  | [] => None
  | (r, sz) :: rs' => if Nat.eqb start k then Some (r, sz) else find_rune_start rs' (start + sz)%nat k
  end.
Definition rune_starts_at (bs : list N) (k : nat) : option (N * nat) := find_rune_start (runes_of bs) O k.

(* p is a prefix of s, on byte strings *)
Fixpoint bytes_prefix (p s : list N) : bool :=
  match p, s with
  | [], _ => true
  | x :: p', y :: s' => (x =? y) && bytes_prefix p' s'
  | _ :: _, [] => false
  end.

(* sanity: "e-acute, newline, two spaces, x" = C3 A9 0A 20 20 78: the rune ending at byte 2 is e-acute at 1:1,
   '\n' (ending at byte 3) is 1:2, x (ending at byte 6) is 2:3; no rune ends at byte 1. *)
Example spec_ex1 :
  pos_of_rune_end [195; 169; 10; 32; 32; 120] 2 = Some {| p_off := 2; p_line := 1; p_col := 1 |} /\
  pos_of_rune_end [195; 169; 10; 32; 32; 120] 3 = Some {| p_off := 3; p_line := 1; p_col := 2 |} /\
  pos_of_rune_end [195; 169; 10; 32; 32; 120] 6 = Some {| p_off := 6; p_line := 2; p_col := 3 |} /\
  pos_of_rune_end [195; 169; 10; 32; 32; 120] 1 = None /\
  pos_of_rune_end [195; 169; 10; 32; 32; 120] 7 = None /\
  pos_of_rune_end [195; 169; 10; 32; 32; 120] 0 = None /\
  rune_starts_at [195; 169; 10; 32; 32; 120] 0 = Some (233, 2%nat) /\
  rune_starts_at [195; 169; 10; 32; 32; 120] 1 = None /\
  rune_starts_at [195; 169; 10; 32; 32; 120] 5 = Some (120, 1%nat).
Proof. vm_compute. repeat split. Qed.
