(* Executable model of /repo/lexer/lexer.go, function by function, parametric in the stream
   implementation (Base/Stream.v).  Definitions only; proofs are in LexerTotal.v, LexerPos.v, ...
   Every loop runs on explicit fuel and returns None when it is exhausted; the theorems show
   that with the fuel `tokenize` supplies this never happens.  *)
From Coq Require Import List NArith Bool.
From DC Require Import Base.Utf8 Base.Unicode Base.Stream Base.Item Gen.TokenTable.
Import ListNotations.
Local Open Scope bool_scope.
Local Open Scope N_scope.

(* ---------- small string helpers ---------- *)

Fixpoint bytes_eqb (a b : list N) : bool :=
  match a, b with
  | [], [] => true
  | x :: a', y :: b' => (x =? y) && bytes_eqb a' b'
  | _, _ => false
  end.

(* strings.Builder, kept reversed *)
Definition sb := list N.
Definition wr (r : N) (b : sb) : sb := rev_append (encode_rune r) b.   (* WriteRune *)
Definition wb (x : N) (b : sb) : sb := x :: b.                         (* WriteByte *)
(* List.rev is quadratic; rev_append b [] = rev b (rev_append_rev) *)
Definition frev {A : Type} (l : list A) : list A := rev_append l [].
Definition sb_str (b : sb) : list N := frev b.

(* strings.TrimRight(s, ";") on the reversed builder *)
Fixpoint trim_semis_rev (b : sb) : sb :=
  match b with
  | 59 :: b' => trim_semis_rev b'
  | _ => b
  end.

(* ---------- character classes ---------- *)

Definition is_ch_ws (r : N) : bool :=   (* isClickHouseWhitespace *)
  (r =? 65279) || (r =? 6158) || (r =? 8203) || (r =? 8204) || (r =? 8205) || (r =? 8288).
Definition is_ws (r : N) : bool := is_space r || is_ch_ws r.
Definition is_ident_start (r : N) : bool := (r =? 95) || is_letter r.
Definition is_ident_char (r : N) : bool := (r =? 95) || (r =? 36) || is_letter r || is_digit r.
Definition is_hex_digit (r : N) : bool :=
  is_digit r || in_range 97 102 r || in_range 65 70 r.
Definition hex_value (r : N) : N :=
  if in_range 48 57 r then r - 48
  else if in_range 97 102 r then r - 97 + 10
  else if in_range 65 70 r then r - 65 + 10
  else 0.
Definition is_ident_continue_byte (b : N) : bool :=
  in_range 97 122 b || in_range 65 90 b || in_range 48 57 b || (b =? 95).

(* ---------- token.Lookup over the generated table ---------- *)

(* init(): for i := keyword_beg+1; i < keyword_end; i++ { Keywords[tokens[i]] = i } -- a later
   entry with the same spelling overwrites an earlier one, hence "last match wins". *)
Definition lookup (s : list N) : N :=
  fold_left (fun acc e => let '(i, _, sp) := e in
                          if (keyword_beg <? i) && (i <? keyword_end) && bytes_eqb sp s then i else acc)
            token_table T_IDENT.

Definition is_keyword (t : N) : bool := (keyword_beg <? t) && (t <? keyword_end).

Definition token_string (t : N) : list N :=
  match find (fun e => let '(i, _, _) := e in i =? t) token_table with
  | Some (_, _, sp) => sp
  | None => []
  end.

Section Lexer.
Context {S : Type} (ops : stream_ops S).

Record lex := mkLex { l_src : S; l_ch : N; l_pos : pos; l_eof : bool }.

Definition set_src (l : lex) (s : S) : lex :=
  {| l_src := s; l_ch := l_ch l; l_pos := l_pos l; l_eof := l_eof l |}.

Definition mk_item (t : N) (v : list N) (p : pos) (q : bool) : item :=
  {| it_tok := t; it_val := v; it_pos := p; it_quoted := q |}.

(* func (l *Lexer) readChar() *)
Definition read_char (l : lex) : lex :=
  if l_eof l then {| l_src := l_src l; l_ch := 0; l_pos := l_pos l; l_eof := true |}
  else
    match s_read_rune ops (l_src l) with
    | (None, s') => {| l_src := s'; l_ch := 0; l_pos := l_pos l; l_eof := true |}
    | (Some (r, size), s') =>
        let p := l_pos l in
        let p' :=
          if l_ch l =? 10
          then {| p_off := p_off p + N.of_nat size; p_line := p_line p + 1; p_col := 1 |}
          else {| p_off := p_off p + N.of_nat size; p_line := p_line p; p_col := p_col p + 1 |} in
        {| l_src := s'; l_ch := r; l_pos := p'; l_eof := false |}
    end.

Definition init_lex (s : S) : lex :=
  read_char {| l_src := s; l_ch := 0; l_pos := {| p_off := 0; p_line := 1; p_col := 0 |}; l_eof := false |}.

(* func (l *Lexer) peekChar() rune *)
Definition peek_char (l : lex) : N * lex :=
  if l_eof l then (0, l)
  else
    let '(bs, s') := s_peek ops 1%nat (l_src l) in
    match bs with
    | [] => (0, set_src l s')
    | _ => (fst (decode_rune bs), set_src l s')
    end.

Fixpoint nth_rune (i : nat) (bs : list N) : N :=
  match bs with
  | [] => 0
  | _ => let '(r, sz) := decode_rune bs in
         match i with
         | O => r
         | Datatypes.S i' => nth_rune i' (skipn sz bs)
         end
  end.

(* func (l *Lexer) peekCharN(n int) rune *)
Definition peek_char_n (n : nat) (l : lex) : N * lex :=
  if l_eof l || Nat.ltb n 1 then (0, l)
  else
    let '(bs, s') := s_peek ops (n * 4)%nat (l_src l) in
    (nth_rune (n - 1) bs, set_src l s').

(* generic fuelled loop: body returns (state, continue?) *)
Fixpoint loop {A : Type} (fuel : nat) (body : A -> A * bool) (a : A) : option A :=
  match fuel with
  | O => None
  | Datatypes.S f => let '(a', c) := body a in if c then loop f body a' else Some a'
  end.

(* the same with a body that can itself run out of fuel *)
Fixpoint loopo {A : Type} (fuel : nat) (body : A -> option (A * bool)) (a : A) : option A :=
  match fuel with
  | O => None
  | Datatypes.S f =>
      match body a with
      | None => None
      | Some (a', c) => if c then loopo f body a' else Some a'
      end
  end.

Definition bind {A B : Type} (x : option A) (f : A -> option B) : option B :=
  match x with Some a => f a | None => None end.

(* for cond(l.ch) { sb.WriteRune(l.ch); l.readChar() } *)
Definition take_while (fuel : nat) (cond : N -> bool) (st : lex * sb) : option (lex * sb) :=
  loop fuel (fun '(l, b) => if cond (l_ch l) then ((read_char l, wr (l_ch l) b), true) else ((l, b), false)) st.

(* for cond(l.ch) { l.readChar() } *)
Definition skip_while (fuel : nat) (cond : N -> bool) (l : lex) : option lex :=
  loop fuel (fun l => if cond (l_ch l) then (read_char l, true) else (l, false)) l.

(* func (l *Lexer) skipWhitespace() *)
Definition skip_whitespace (fuel : nat) (l : lex) : option lex := skip_while fuel is_ws l.

(* ---------- comments ---------- *)

Definition not_eol (l : lex) : bool := negb (l_ch l =? 10) && negb (l_ch l =? 0) && negb (l_eof l).

Definition to_eol (fuel : nat) (stop_semi : bool) (st : lex * sb) : option (lex * sb) :=
  loop fuel (fun '(l, b) =>
    if not_eol l && negb (stop_semi && (l_ch l =? 59))
    then ((read_char l, wr (l_ch l) b), true) else ((l, b), false)) st.

Definition read_line_comment (fuel : nat) (l : lex) : option (item * lex) :=
  let pos := l_pos l in
  let b := wr (l_ch l) [] in let l := read_char l in
  let b := wr (l_ch l) b in let l := read_char l in
  bind (to_eol fuel false (l, b)) (fun '(l, b) =>
  Some (mk_item T_LINE_COMMENT (sb_str (trim_semis_rev b)) pos false, l)).

Definition read_hash_comment (fuel : nat) (l : lex) : option (item * lex) :=
  let pos := l_pos l in
  let b := wr (l_ch l) [] in let l := read_char l in
  bind (to_eol fuel false (l, b)) (fun '(l, b) =>
  Some (mk_item T_LINE_COMMENT (sb_str (trim_semis_rev b)) pos false, l)).

Definition read_unicode_minus_comment (fuel : nat) (l : lex) : option (item * lex) :=
  let pos := l_pos l in
  let b := wr (l_ch l) [] in let l := read_char l in
  bind (to_eol fuel true (l, b)) (fun '(l, b) =>
  Some (mk_item T_LINE_COMMENT (sb_str b) pos false, l)).

(* state of the block-comment loop: lexer, builder, nesting *)
Definition block_body (st : lex * sb * nat) : (lex * sb * nat) * bool :=
  let '(l, b, nest) := st in
  if negb (l_eof l) && Nat.ltb 0 nest then
    let '(pk, l1) := if (l_ch l =? 42) || (l_ch l =? 47) then peek_char l else (0, l) in
    if (l_ch l =? 42) && (pk =? 47) then
      let b := wr (l_ch l1) b in let l2 := read_char l1 in
      let b := wr (l_ch l2) b in let l3 := read_char l2 in
      ((l3, b, (nest - 1)%nat), true)
    else if (l_ch l =? 47) && (pk =? 42) then
      let b := wr (l_ch l1) b in let l2 := read_char l1 in
      let b := wr (l_ch l2) b in let l3 := read_char l2 in
      ((l3, b, Datatypes.S nest), true)
    else ((read_char l1, wr (l_ch l1) b, nest), true)
  else (st, false).

Definition read_block_comment (fuel : nat) (l : lex) : option (item * lex) :=
  let pos := l_pos l in
  let b := wr (l_ch l) [] in let l := read_char l in
  let b := wr (l_ch l) b in let l := read_char l in
  bind (loop fuel block_body (l, b, 1%nat)) (fun '(l, b, _) =>
  Some (mk_item T_LINE_COMMENT (sb_str b) pos false, l)).

(* ---------- strings ---------- *)

(* the escape switch shared by readString and readBacktickIdentifier (the latter also knows \`).
   Called with l.ch = the character after the backslash, not at eof.  Result: new state and
   whether the trailing `l.readChar()` of the Go code is executed (false = the inner `continue`). *)
Definition escape_switch (backtick : bool) (l : lex) (b : sb) : lex * sb * bool :=
  let c := l_ch l in
  if c =? 39 then (l, wr 39 b, true)
  else if c =? 34 then (l, wr 34 b, true)
  else if c =? 92 then (l, wr 92 b, true)
  else if backtick && (c =? 96) then (l, wr 96 b, true)
  else if c =? 110 then (l, wr 10 b, true)
  else if c =? 116 then (l, wr 9 b, true)
  else if c =? 114 then (l, wr 13 b, true)
  else if c =? 48 then (l, wr 0 b, true)
  else if c =? 97 then (l, wr 7 b, true)
  else if c =? 98 then (l, wr 8 b, true)
  else if c =? 102 then (l, wr 12 b, true)
  else if c =? 118 then (l, wr 11 b, true)
  else if c =? 101 then (l, wr 27 b, true)
  else if c =? 120 then
    let l1 := read_char l in
    if l_eof l1 then (l1, b, true)
    else
      let hex1 := l_ch l1 in
      let l2 := read_char l1 in
      if l_eof l2 then (l2, wr (hex_value hex1) b, false)
      else (l2, wb (hex_value hex1 * 16 + hex_value (l_ch l2)) b, true)
  else (l, wr c (wr 92 b), true).

Definition quoted_body (quote : N) (backtick : bool) (st : lex * sb) : (lex * sb) * bool :=
  let '(l, b) := st in
  if l_eof l then (st, false)
  else if l_ch l =? quote then
    let '(pk, l1) := peek_char l in
    if pk =? quote then ((read_char (read_char l1), wr (l_ch l1) b), true)
    else ((read_char l1, b), false)
  else if l_ch l =? 92 then
    let l1 := read_char l in
    if l_eof l1 then ((l1, b), false)
    else
      let '(l2, b2, adv) := escape_switch backtick l1 b in
      ((if adv then read_char l2 else l2, b2), true)
  else ((read_char l, wr (l_ch l) b), true).

Definition read_string (fuel : nat) (l : lex) : option (item * lex) :=
  let pos := l_pos l in
  let l := read_char l in
  bind (loop fuel (quoted_body 39 false) (l, [])) (fun '(l, b) =>
  Some (mk_item T_STRING (sb_str b) pos false, l)).

Definition read_backtick_identifier (fuel : nat) (l : lex) : option (item * lex) :=
  let pos := l_pos l in
  let l := read_char l in
  bind (loop fuel (quoted_body 96 true) (l, [])) (fun '(l, b) =>
  Some (mk_item T_IDENT (sb_str b) pos false, l)).

Definition hex_string_body (st : lex * sb) : (lex * sb) * bool :=
  let '(l, b) := st in
  if l_eof l then (st, false)
  else if l_ch l =? 39 then ((read_char l, b), false)
  else
    let hex1 := l_ch l in
    let l1 := read_char l in
    if l_eof l1 || (l_ch l1 =? 39) then
      let b := wb (hex_value hex1) b in
      ((if l_ch l1 =? 39 then read_char l1 else l1, b), false)
    else
      ((read_char l1, wb (hex_value hex1 * 16 + hex_value (l_ch l1)) b), true).

Definition read_hex_string (fuel : nat) (l : lex) : option (item * lex) :=
  let pos := l_pos l in
  let l := read_char l in
  bind (loop fuel hex_string_body (l, [])) (fun '(l, b) =>
  Some (mk_item T_STRING (sb_str b) pos false, l)).

(* bits are collected in reverse order *)
Definition bin_string_body (st : lex * list N) : (lex * list N) * bool :=
  let '(l, bits) := st in
  if l_eof l then (st, false)
  else if l_ch l =? 39 then ((read_char l, bits), false)
  else
    let bits := if (l_ch l =? 48) || (l_ch l =? 49) then (l_ch l - 48) :: bits else bits in
    ((read_char l, bits), true).

(* value of up to 8 bits, most significant first *)
Definition byte_of_bits (bs : list N) : N := fold_left (fun acc x => (acc * 2 + x) mod 256) bs 0.

Fixpoint chunk8 (fuel : nat) (bs : list N) : list N :=
  match fuel with
  | O => []
  | Datatypes.S f =>
      match bs with
      | [] => []
      | _ => byte_of_bits (firstn 8 bs) :: chunk8 f (skipn 8 bs)
      end
  end.

Definition bits_to_bytes (bits : list N) : list N :=   (* bits in source order *)
  match bits with
  | [] => []
  | _ =>
      let rem := Nat.modulo (length bits) 8 in
      let padded := if Nat.eqb rem 0 then bits else repeat 0 (8 - rem)%nat ++ bits in
      chunk8 (Datatypes.S (length padded)) padded
  end.

Definition read_binary_string (fuel : nat) (l : lex) : option (item * lex) :=
  let pos := l_pos l in
  let l := read_char l in
  bind (loop fuel bin_string_body (l, [])) (fun '(l, bits) =>
  Some (mk_item T_STRING (bits_to_bytes (frev bits)) pos false, l)).

Definition dquoted_body (st : lex * sb) : (lex * sb) * bool :=
  let '(l, b) := st in
  if l_eof l then (st, false)
  else if l_ch l =? 34 then
    let l1 := read_char l in
    if l_ch l1 =? 34 then ((read_char l1, wr 34 b), true) else ((l1, b), false)
  else if l_ch l =? 92 then
    let l1 := read_char l in
    if negb (l_eof l1) then ((read_char l1, wr (l_ch l1) b), true) else ((l1, b), true)
  else ((read_char l, wr (l_ch l) b), true).

Definition read_quoted_identifier (fuel : nat) (l : lex) : option (item * lex) :=
  let pos := l_pos l in
  let l := read_char l in
  bind (loop fuel dquoted_body (l, [])) (fun '(l, b) =>
  Some (mk_item T_IDENT (sb_str b) pos true, l)).

Definition until_close (fuel : nat) (close : N) (st : lex * sb) : option (lex * sb) :=
  loop fuel (fun '(l, b) =>
    if negb (l_eof l) && negb (l_ch l =? close) then ((read_char l, wr (l_ch l) b), true)
    else ((l, b), false)) st.

(* readUnicodeString: the closing quote is always U+2019 *)
Definition read_unicode_string (fuel : nat) (l : lex) : option (item * lex) :=
  let pos := l_pos l in
  let l := read_char l in
  bind (until_close fuel 8217 (l, [])) (fun '(l, b) =>
  let l := if l_ch l =? 8217 then read_char l else l in
  Some (mk_item T_STRING (sb_str b) pos false, l)).

(* readUnicodeQuotedIdentifier: the closing quote is always U+201D *)
Definition read_unicode_quoted_identifier (fuel : nat) (l : lex) : option (item * lex) :=
  let pos := l_pos l in
  let l := read_char l in
  bind (until_close fuel 8221 (l, [])) (fun '(l, b) =>
  let l := if l_ch l =? 8221 then read_char l else l in
  Some (mk_item T_IDENT (sb_str b) pos true, l)).

Definition read_parameter (fuel : nat) (l : lex) : option (item * lex) :=
  let pos := l_pos l in
  let l := read_char l in
  bind (until_close fuel 125 (l, [])) (fun '(l, b) =>
  let l := if l_ch l =? 125 then read_char l else l in
  Some (mk_item T_PARAM (sb_str b) pos false, l)).

(* ---------- dollar quoting ---------- *)

(* the tag-scanning loop of tryReadDollarTag over the peeked bytes: returns (tag bytes reversed, rest) *)
Fixpoint scan_tag (fuel : nat) (bs : list N) (tag : sb) : sb * list N :=
  match fuel with
  | O => (tag, bs)
  | Datatypes.S f =>
      match bs with
      | [] => (tag, bs)
      | _ =>
          let '(r, sz) := decode_rune bs in
          if is_letter r || is_digit r || (r =? 95) then scan_tag f (skipn sz bs) (wr r tag)
          else (tag, bs)
      end
  end.

Fixpoint is_prefix (p s : list N) : bool :=
  match p, s with
  | [], _ => true
  | x :: p', y :: s' => (x =? y) && is_prefix p' s'
  | _ :: _, [] => false
  end.

(* does `pat` occur in s at some position i with i + len pat <= len s *)
Fixpoint find_sub (pat s : list N) : bool :=
  if is_prefix pat s then true
  else match s with
       | [] => false
       | _ :: s' => find_sub pat s'
       end.

Fixpoint iter_read (n : nat) (l : lex) : lex :=
  match n with
  | O => l
  | Datatypes.S n' => iter_read n' (read_char l)
  end.

(* func (l *Lexer) tryReadDollarTag() string   -- [] stands for "" *)
Definition try_read_dollar_tag (l : lex) : list N * lex :=
  let '(bs, s') := s_peek ops 8192%nat (l_src l) in
  let l := set_src l s' in
  match bs with
  | [] => ([], l)
  | _ =>
      let '(r, sz) := decode_rune bs in
      if negb (is_letter r) && negb (r =? 95) then ([], l)
      else
        let '(tagr, rest) := scan_tag (length bs) (skipn sz bs) (wr r []) in
        let tag := sb_str tagr in
        match rest with
        | [] => ([], l)
        | _ =>
            let '(r2, sz2) := decode_rune rest in
            if negb (r2 =? 36) then ([], l)
            else
              let closing := 36 :: tag ++ [36] in
              if find_sub closing (skipn sz2 rest) then
                let l := read_char l in
                let l := iter_read (length tag) l in
                let l := read_char l in
                (tag, l)
              else ([], l)
        end
  end.

(* the `match` loop of readDollarQuotedString: for i := 1; i < len(closingDelim) && match; i++ *)
Fixpoint delim_match (i : nat) (rest : list N) (l : lex) : bool * lex :=
  match rest with
  | [] => (true, l)
  | c :: rest' =>
      let '(pk, l1) := peek_char_n i l in
      if pk =? c then delim_match (Datatypes.S i) rest' l1 else (false, l1)
  end.

Definition dollar_body (closing : list N) (st : lex * sb) : (lex * sb) * bool :=
  let '(l, b) := st in
  if l_eof l then (st, false)
  else if l_ch l =? 36 then
    let '(m, l1) := delim_match 1%nat (tl closing) l in
    if m then ((iter_read (length closing) l1, b), false)
    else ((read_char l1, wr (l_ch l1) b), true)
  else ((read_char l, wr (l_ch l) b), true).

(* func (l *Lexer) readDollarQuotedString(tag string) *)
Definition read_dollar_quoted_string (fuel : nat) (tag : list N) (l : lex) : option (item * lex) :=
  let pos := l_pos l in
  let l := match tag with [] => read_char (read_char l) | _ => l end in
  let closing := 36 :: tag ++ [36] in
  bind (loop fuel (dollar_body closing) (l, [])) (fun '(l, b) =>
  Some (mk_item T_STRING (sb_str b) pos false, l)).

Definition read_dollar_identifier (fuel : nat) (l : lex) : option (item * lex) :=
  let pos := l_pos l in
  let b := wr (l_ch l) [] in let l := read_char l in
  bind (take_while fuel (fun c => is_ident_char c || (c =? 36)) (l, b)) (fun '(l, b) =>
  Some (mk_item T_IDENT (sb_str b) pos false, l)).

(* ---------- numbers ---------- *)

(* for l.ch == '_' && unicode.IsDigit(l.peekChar()) { l.readChar() } *)
Definition skip_underscores (fuel : nat) (l : lex) : option lex :=
  loop fuel (fun l =>
    if l_ch l =? 95 then
      let '(pk, l1) := peek_char l in
      if is_digit pk then (read_char l1, true) else (l1, false)
    else (l, false)) l.

(* for unicode.IsDigit(l.ch) { write; readChar; <underscore loop> }   (fuel2 for the inner loop) *)
Definition digits_us (fuel : nat) (st : lex * sb) : option (lex * sb) :=
  loopo fuel (fun '(l, b) =>
    if is_digit (l_ch l) then
      let b := wr (l_ch l) b in
      let l := read_char l in
      match skip_underscores fuel l with
      | Some l' => Some ((l', b), true)
      | None => None
      end
    else Some ((l, b), false)) st.

(* "if l.ch == '.' { nextCh := l.peekChar(); if IsDigit(nextCh) || (!isIdentStart(nextCh) && nextCh != '.') {...} }" *)
Definition fraction_part (fuel : nat) (st : lex * sb) : option (lex * sb) :=
  let '(l, b) := st in
  if l_ch l =? 46 then
    let '(nx, l1) := peek_char l in
    if is_digit nx || (negb (is_ident_start nx) && negb (nx =? 46)) then
      digits_us fuel (read_char l1, wr (l_ch l1) b)
    else Some (l1, b)
  else Some st.

Definition exponent_part (fuel : nat) (st : lex * sb) : option (lex * sb) :=
  let '(l, b) := st in
  if (l_ch l =? 101) || (l_ch l =? 69) then
    let b := wr (l_ch l) b in let l := read_char l in
    let '(l, b) := if (l_ch l =? 43) || (l_ch l =? 45) then (read_char l, wr (l_ch l) b) else (l, b) in
    digits_us fuel (l, b)
  else Some st.

(* the hex tail after "0x": hex digits/underscores, optional .hex, optional p[+-]digits *)
Definition hex_tail (fuel : nat) (st : lex * sb) : option (lex * sb) :=
  bind (take_while fuel (fun c => is_hex_digit c || (c =? 95)) st) (fun '(l, b) =>
  bind (if l_ch l =? 46 then take_while fuel is_hex_digit (read_char l, wr (l_ch l) b) else Some (l, b)) (fun '(l, b) =>
  if (l_ch l =? 112) || (l_ch l =? 80) then
    let b := wr (l_ch l) b in let l := read_char l in
    let '(l, b) := if (l_ch l =? 43) || (l_ch l =? 45) then (read_char l, wr (l_ch l) b) else (l, b) in
    take_while fuel is_digit (l, b)
  else Some (l, b))).

Definition is_bin_char (c : N) : bool := (c =? 48) || (c =? 49) || (c =? 95).
Definition is_oct_char (c : N) : bool := in_range 48 55 c || (c =? 95).

Definition num_item (pos : pos) (st : lex * sb) : option (item * lex) :=
  let '(l, b) := st in Some (mk_item T_NUMBER (sb_str b) pos false, l).
Definition ident_item (pos : pos) (st : lex * sb) : option (item * lex) :=
  let '(l, b) := st in Some (mk_item T_IDENT (sb_str b) pos false, l).

(* integer part, fraction, exponent *)
Definition number_general (fuel : nat) (pos : pos) (st : lex * sb) : option (item * lex) :=
  bind (digits_us fuel st) (fun st =>
  bind (fraction_part fuel st) (fun st =>
  bind (exponent_part fuel st) (num_item pos))).

(* func (l *Lexer) readNumber() *)
Definition read_number (fuel : nat) (l : lex) : option (item * lex) :=
  let pos := l_pos l in
  let st0 := if l_ch l =? 46 then (read_char l, wr (l_ch l) []) else (l, []) in
  let l := fst st0 in let b := snd st0 in
  if l_ch l =? 48 then
    let b := wr (l_ch l) b in let l := read_char l in
    if (l_ch l =? 120) || (l_ch l =? 88) then
      bind (hex_tail fuel (read_char l, wr (l_ch l) b)) (num_item pos)
    else if (l_ch l =? 98) || (l_ch l =? 66) then
      bind (take_while fuel is_bin_char (read_char l, wr (l_ch l) b)) (num_item pos)
    else if (l_ch l =? 111) || (l_ch l =? 79) then
      bind (take_while fuel is_oct_char (read_char l, wr (l_ch l) b)) (num_item pos)
    else number_general fuel pos (l, b)
  else number_general fuel pos (l, b).

(* "for l.ch == '_' && IsDigit(l.peekChar()) { l.readChar(); for IsDigit(l.ch) { write; readChar } }" *)
Definition us_digit_groups (fuel : nat) (st : lex * sb) : option (lex * sb) :=
  loopo fuel (fun '(l, b) =>
    if l_ch l =? 95 then
      let '(pk, l1) := peek_char l in
      if is_digit pk then
        match take_while fuel is_digit (read_char l1, b) with
        | Some st' => Some (st', true)
        | None => None
        end
      else Some ((l1, b), false)
    else Some ((l, b), false)) st.

(* the part of readNumberOrIdent after the identifier tests: underscore groups, fraction, exponent,
   then the late 0x / 0b / 0o handling *)
Definition number_rest (fuel : nat) (pos : pos) (start_ch : N) (st : lex * sb) : option (item * lex) :=
  bind (us_digit_groups fuel st) (fun st =>
  bind (fraction_part fuel st) (fun st =>
  bind (exponent_part fuel st) (fun st =>
  let l := fst st in let b := snd st in
  let val0 := bytes_eqb (sb_str b) [48] in
  let after_hex_bin :=
    if val0 && ((l_ch l =? 120) || (l_ch l =? 88)) then
      hex_tail fuel (read_char l, wr (l_ch l) b)
    else if val0 && ((l_ch l =? 98) || (l_ch l =? 66)) then
      let pk := fst (peek_char l) in let l1 := snd (peek_char l) in
      if (pk =? 48) || (pk =? 49) then
        take_while fuel is_bin_char (read_char l1, wr (l_ch l1) b)
      else Some (l1, b)
    else Some (l, b) in
  bind after_hex_bin (fun st =>
  let l := fst st in let b := snd st in
  let after_oct :=
    if (start_ch =? 48) && Nat.eqb (length b) 1 && ((l_ch l =? 111) || (l_ch l =? 79)) then
      take_while fuel is_oct_char (read_char l, wr (l_ch l) b)
    else Some (l, b) in
  bind after_oct (num_item pos))))).

(* func (l *Lexer) readNumberOrIdent() *)
Definition read_number_or_ident (fuel : nat) (l : lex) : option (item * lex) :=
  let pos := l_pos l in
  let start_ch := l_ch l in
  bind (take_while fuel is_digit (l, [])) (fun st =>
  let l := fst st in let b := snd st in
  (* digits followed by '_' and a letter or '_' *)
  let us_ident := (l_ch l =? 95) && (is_letter (fst (peek_char l)) || (fst (peek_char l) =? 95)) in
  let l := if l_ch l =? 95 then snd (peek_char l) else l in
  if us_ident then
    bind (take_while fuel is_ident_char (read_char l, wr (l_ch l) b)) (ident_item pos)
  else
  (* digits directly followed by a letter *)
  let c := l_ch l in
  let is_e := (c =? 101) || (c =? 69) in
  let pk := fst (peek_char l) in
  let is_exp := is_e && (is_digit pk || (pk =? 43) || (pk =? 45)) in
  let is_base := bytes_eqb (sb_str b) [48] &&
        ((c =? 120) || (c =? 88) || (c =? 98) || (c =? 66) || (c =? 111) || (c =? 79)) in
  let letter_ident := is_letter c && negb is_exp && negb is_base in
  let l := if is_letter c && is_e then snd (peek_char l) else l in
  if letter_ident then
    bind (take_while fuel is_ident_char (l, b)) (ident_item pos)
  else number_rest fuel pos start_ch (l, b)).

(* func (l *Lexer) isIdentifierAfterDot() bool *)
Fixpoint skip_ascii_digits (bs : list N) : nat * list N :=
  match bs with
  | c :: bs' => if in_range 48 57 c then let '(n, r) := skip_ascii_digits bs' in (Datatypes.S n, r) else (O, bs)
  | [] => (O, [])
  end.

Definition is_identifier_after_dot (l : lex) : bool * lex :=
  let '(bs, s') := s_peek ops 32%nat (l_src l) in
  let l := set_src l s' in
  match bs with
  | [] => (false, l)
  | _ =>
      let '(n, rest) := skip_ascii_digits bs in
      if Nat.eqb n 0 then (false, l)
      else
        let us_case :=
          match rest with
          | 95 :: c :: _ => is_ident_continue_byte c
          | _ => false
          end in
        (* idx stays advanced past the underscore when the underscore test fails *)
        let rest := match rest with 95 :: r => r | _ => rest end in
        if us_case then (true, l)
        else
          match rest with
          | [] => (false, l)
          | c0 :: rest' =>
              let '(ch, _) := decode_rune rest in
              if is_letter ch then
                let exp :=
                  ((ch =? 101) || (ch =? 69)) &&
                  match rest' with
                  | nx :: _ => in_range 48 57 nx || (nx =? 43) || (nx =? 45)
                  | [] => false
                  end in
                (negb exp, l)
              else (false, l)
          end
  end.

(* ---------- identifiers ---------- *)

(* strings.ToUpper of a string built by WriteRune from `runes` *)
Definition upper_bytes (runes : list N) : list N := flat_map (fun r => encode_rune (to_upper r)) runes.

(* for isIdentChar(l.ch) { sb.WriteRune(l.ch); l.readChar() } collecting the runes (reversed) *)
Definition take_ident_runes (fuel : nat) (st : lex * list N) : option (lex * list N) :=
  loop fuel (fun '(l, rs) => if is_ident_char (l_ch l) then ((read_char l, l_ch l :: rs), true) else ((l, rs), false)) st.

(* func (l *Lexer) readIdentifier() *)
Definition read_identifier (fuel : nat) (l : lex) : option (item * lex) :=
  let pos := l_pos l in
  let c := l_ch l in
  let '(pk, l) := if (c =? 120) || (c =? 88) || (c =? 98) || (c =? 66) then peek_char l else (0, l) in
  if ((c =? 120) || (c =? 88)) && (pk =? 39) then read_hex_string fuel (read_char l)
  else if ((c =? 98) || (c =? 66)) && (pk =? 39) then read_binary_string fuel (read_char l)
  else
    bind (take_ident_runes fuel (l, [])) (fun '(l, rs) =>
    let runes := frev rs in
    let ident := flat_map encode_rune runes in
    Some (mk_item (lookup (upper_bytes runes)) ident pos false, l)).

(* ---------- NextToken ---------- *)

Definition simple (t : N) (v : list N) (pos : pos) (l : lex) : option (item * lex) :=
  Some (mk_item t v pos false, l).

Definition next_token (fuel : nat) (l : lex) : option (item * lex) :=
  bind (skip_whitespace fuel l) (fun l =>
  let pos := l_pos l in
  let c := l_ch l in
  if l_eof l || (c =? 0) then simple T_EOF [] pos l
  else
  (* one peek serves every `l.peekChar()` of the dispatch: the reader is not advanced in between *)
  let needs_peek :=
    (c =? 45) || (c =? 47) || (c =? 33) || (c =? 60) || (c =? 62) || (c =? 124) || (c =? 58) ||
    (c =? 46) || (c =? 36) || (c =? 64) in
  let '(pk, l) := if needs_peek then peek_char l else (0, l) in
  if (c =? 45) && (pk =? 45) then read_line_comment fuel l
  else if c =? 35 then read_hash_comment fuel l
  else if (c =? 47) && (pk =? 42) then read_block_comment fuel l
  else if c =? 8722 then read_unicode_minus_comment fuel l
  else if c =? 43 then simple T_PLUS [43] pos (read_char l)
  else if c =? 45 then
    if pk =? 62 then simple T_ARROW [45; 62] pos (read_char (read_char l))
    else simple T_MINUS [45] pos (read_char l)
  else if c =? 42 then simple T_ASTERISK [42] pos (read_char l)
  else if c =? 47 then simple T_SLASH [47] pos (read_char l)
  else if c =? 37 then simple T_PERCENT [37] pos (read_char l)
  else if c =? 61 then
    let l1 := read_char l in
    if l_ch l1 =? 61 then simple T_EQ [61; 61] pos (read_char l1) else simple T_EQ [61] pos l1
  else if c =? 33 then
    if pk =? 61 then simple T_NEQ [33; 61] pos (read_char (read_char l))
    else simple T_ILLEGAL [33] pos (read_char l)
  else if c =? 60 then
    if pk =? 61 then
      let l2 := read_char (read_char l) in
      if l_ch l2 =? 62 then simple T_NULL_SAFE_EQ [60; 61; 62] pos (read_char l2)
      else simple T_LTE [60; 61] pos l2
    else if pk =? 62 then simple T_NEQ [60; 62] pos (read_char (read_char l))
    else simple T_LT [60] pos (read_char l)
  else if c =? 62 then
    if pk =? 61 then simple T_GTE [62; 61] pos (read_char (read_char l))
    else simple T_GT [62] pos (read_char l)
  else if c =? 124 then
    if pk =? 124 then simple T_CONCAT [124; 124] pos (read_char (read_char l))
    else simple T_ILLEGAL [124] pos (read_char l)
  else if c =? 58 then
    if pk =? 58 then simple T_COLONCOLON [58; 58] pos (read_char (read_char l))
    else simple T_COLON [58] pos (read_char l)
  else if c =? 40 then simple T_LPAREN [40] pos (read_char l)
  else if c =? 41 then simple T_RPAREN [41] pos (read_char l)
  else if c =? 91 then simple T_LBRACKET [91] pos (read_char l)
  else if c =? 93 then simple T_RBRACKET [93] pos (read_char l)
  else if c =? 123 then read_parameter fuel l
  else if c =? 125 then simple T_RBRACE [125] pos (read_char l)
  else if c =? 44 then simple T_COMMA [44] pos (read_char l)
  else if c =? 46 then
    if is_digit pk then
      let '(idp, l1) := is_identifier_after_dot l in
      if idp then simple T_DOT [46] pos (read_char l1) else read_number fuel l1
    else simple T_DOT [46] pos (read_char l)
  else if c =? 59 then simple T_SEMICOLON [59] pos (read_char l)
  else if c =? 63 then simple T_QUESTION [63] pos (read_char l)
  else if c =? 94 then simple T_CARET [94] pos (read_char l)
  else if c =? 36 then
    if pk =? 36 then read_dollar_quoted_string fuel [] l
    else
      let '(tag, l1) := try_read_dollar_tag l in
      match tag with
      | [] => read_dollar_identifier fuel l1
      | _ => read_dollar_quoted_string fuel tag l1
      end
  else if c =? 39 then read_string fuel l
  else if (c =? 8216) || (c =? 8217) then read_unicode_string fuel l
  else if c =? 34 then read_quoted_identifier fuel l
  else if (c =? 8220) || (c =? 8221) then read_unicode_quoted_identifier fuel l
  else if c =? 96 then read_backtick_identifier fuel l
  else if c =? 64 then
    if pk =? 64 then
      let l2 := read_char (read_char l) in
      if is_ident_start (l_ch l2) || is_digit (l_ch l2) then
        bind (take_while fuel is_ident_char (l2, [64; 64])) (fun '(l3, b) =>
        simple T_IDENT (sb_str b) pos l3)
      else simple T_IDENT [64; 64] pos l2
    else simple T_IDENT [64] pos (read_char l)
  else if is_digit c then read_number_or_ident fuel l
  else if is_ident_start c then read_identifier fuel l
  else simple T_ILLEGAL (encode_rune c) pos (read_char l)).

(* func Tokenize(r io.Reader) []Item *)
Fixpoint tokenize_loop (n fuel : nat) (l : lex) : option (list item) :=
  match n with
  | O => None
  | Datatypes.S n' =>
      bind (next_token fuel l) (fun '(it, l') =>
      if it_tok it =? T_EOF then Some [it]
      else bind (tokenize_loop n' fuel l') (fun its => Some (it :: its)))
  end.

Definition tokenize_fuel (fuel : nat) (s : S) : option (list item) :=
  tokenize_loop fuel fuel (init_lex s).

(* k successive calls of NextToken (used to state that EOF is sticky) *)
Fixpoint next_n (k fuel : nat) (l : lex) : option (list item) :=
  match k with
  | O => Some []
  | Datatypes.S k' =>
      bind (next_token fuel l) (fun '(it, l') =>
      bind (next_n k' fuel l') (fun its => Some (it :: its)))
  end.

End Lexer.

Arguments l_src {S}.
Arguments l_ch {S}.
Arguments l_pos {S}.
Arguments l_eof {S}.
Arguments mkLex {S}.

(* The lexer over the pure stream. *)
Definition tokenize (bs : list N) : option (list item) :=
  tokenize_fuel pure_stream (length bs + 2)%nat bs.

(* the first k results of NextToken on a fresh lexer over bs *)
Definition next_tokens (k : nat) (bs : list N) : option (list item) :=
  next_n pure_stream k (length bs + 2)%nat (init_lex pure_stream bs).
