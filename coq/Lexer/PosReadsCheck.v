(* C05, parser/printer part (G): the generated inventory of position reads and raw token-value
   comparisons (Gen/PosReads.v, produced by /verif/translator/cmd/posreadgen on every run), the checker
   that decides it, and the argument for why a program whose observations are in the allowed classes
   cannot distinguish two token lists with the same signature.

   TRUSTED (not proved here): the translator's soundness claim -- every way the Go code of packages
   parser, internal/explain and ast can observe a token.Position (or one of its fields) or a raw
   lexer.Item.Value is an entry of the inventory, with the class the translator prints (the claim is
   spelled out in /verif/translator/cmd/posreadgen/main.go, constant soundnessClaim, and copied
   into /verif/build/posreadgen_report.json).  The abstract machine below is the reading of the
   classes; it is not derived from the Go code. *)
From Coq Require Import String.
From Coq Require Import List NArith Bool Lia Arith.
From DC Require Import Base.Utf8 Base.Item Gen.TokenTable Lexer.LexerModel Lexer.LexerLayoutSpec
  Gen.PosReads Gen.PosReadsAllowed.
Import ListNotations.
Local Open Scope bool_scope.

(* ====================================================================== *)
(* 1. the checker                                                           *)
(* ====================================================================== *)

Definition mem (s : string) (l : list string) : bool := existsb (String.eqb s) l.

Definition is_ascii_letter (b : N) : bool := in_range 65 90 b || in_range 97 122 b.
Definition letter_free (c : list N) : bool := forallb (fun b => negb (is_ascii_letter b)) c.

Definition keyword_spellings : list (list N) :=
  map (fun e : N * list N * list N => snd e)
      (filter (fun e : N * list N * list N => is_keyword (fst (fst e))) token_table).

Definition ci_eq (a b : list N) : bool := bytes_eqb (map ascii_upper a) (map ascii_upper b).
Definition keyword_hit (c : list N) : bool := existsb (ci_eq c) keyword_spellings.

(* a position read is fine when it only moves the value, builds an error message, guards progress, or
   is one of the allow-listed spaced-detection sites (the property's stated exception) *)
Definition pos_entry_ok (spaced known : list string) (e : string * string * N) : bool :=
  let '(key, cls, _) := e in
  if String.eqb cls "copy-into-node" then true
  else if String.eqb cls "error-message" then true
  else if String.eqb cls "progress-guard" then true
  else if String.eqb cls "spaced-detection" then mem key spaced
  else mem key known.        (* "other", or a class this checker does not know *)

(* a comparison of a raw token value is fine when it goes through ToUpper/ToLower/EqualFold, or when
   none of its constants contains an ASCII letter (then letter case cannot change its outcome), or
   when it is allow-listed with a justification *)
Definition value_entry_ok (allowed known : list string) (e : string * string * list (list N) * N) : bool :=
  let '(key, cls, consts, _) := e in
  if String.eqb cls "case-insensitive" then true
  else forallb letter_free consts || mem key allowed || mem key known.

Definition flag_entry_ok (allowed : list string) (e : string * N) : bool := mem (fst e) allowed.

Definition check_pos_reads (inv : list (string * string * N)) (spaced known : list string) : bool :=
  forallb (pos_entry_ok spaced known) inv.
Definition check_value_compares (inv : list (string * string * list (list N) * N)) (allowed known : list string) : bool :=
  forallb (value_entry_ok allowed known) inv.
Definition check_flag_reads (inv : list (string * N)) (allowed : list string) : bool :=
  forallb (flag_entry_ok allowed) inv.

(* every allow-list entry still names a site of the tree (a stale entry is an error too) *)
Definition allow_fresh (allow : list string) (keys : list string) : bool :=
  forallb (fun k => mem k keys) allow.

Definition pos_keys_of (cls : string) (inv : list (string * string * N)) : list string :=
  map (fun e => fst (fst e)) (filter (fun e : string * string * N => String.eqb (snd (fst e)) cls) inv).

Definition check_inventory (known_leaks known_cs : list string) : bool :=
  check_pos_reads pos_reads allowed_spaced known_leaks &&
  check_value_compares value_compares allowed_case_sensitive known_cs &&
  check_flag_reads spaced_flag_reads allowed_spaced_flag_reads &&
  allow_fresh allowed_spaced (pos_keys_of "spaced-detection" pos_reads) &&
  allow_fresh allowed_spaced_flag_reads (map fst spaced_flag_reads) &&
  allow_fresh allowed_case_sensitive (map (fun e => fst (fst (fst e))) value_compares).

(* the entries that fail when nothing is excused: the findings of today's tree *)
Definition pos_violations : list string :=
  map (fun e => fst (fst e)) (filter (fun e => negb (pos_entry_ok allowed_spaced [] e)) pos_reads).
Definition value_violations : list string :=
  map (fun e => fst (fst (fst e))) (filter (fun e => negb (value_entry_ok allowed_case_sensitive [] e)) value_compares).
(* case-sensitive comparisons one of whose constants is a keyword spelling in some letter case *)
Definition keyword_case_hits : list string :=
  map (fun e => fst (fst (fst e)))
      (filter (fun e : string * string * list (list N) * N =>
                 negb (String.eqb (snd (fst (fst e))) "case-insensitive") && existsb keyword_hit (snd (fst e)))
              value_compares).

(* The obligation, modulo the KNOWN FINDINGS (Gen/PosReadsAllowed.v: known_position_leaks,
   known_case_sensitive -- present and reported, not justified). *)
Lemma inventory_ok_modulo_known : check_inventory known_position_leaks known_case_sensitive = true.
Proof. vm_compute. reflexivity. Qed.

(* the known findings are exactly the violations: nothing is excused that does not occur, and nothing
   else fails *)
Lemma known_are_the_violations :
  pos_violations = known_position_leaks /\ value_violations = known_case_sensitive.
Proof. vm_compute. split; reflexivity. Qed.

(* the one keyword-case hit of today's tree is the known finding `name == "view"` *)
Lemma keyword_case_hits_known : forallb (fun k => mem k known_case_sensitive) keyword_case_hits = true.
Proof. vm_compute. reflexivity. Qed.

(* ====================================================================== *)
(* 2. why the classes are harmless: an abstract machine                     *)
(* ====================================================================== *)

(* A program reads a token list through a cursor (with look-ahead d) and one saved cursor (the
   `startPos := p.current.Pos` idiom).  What it may ask about a token: *)
Inductive obs : Type :=
| OKind                    (* p.current.Token *)
| OUpper                   (* strings.ToUpper(p.current.Value), compared with anything *)
| ORawEq (c : list N)      (* p.current.Value == c       -- case-sensitive compare site *)
| ORawPrefix (c : list N)  (* strings.HasPrefix(p.current.Value, c) *)
| OQuoted                  (* p.current.Quoted *)
| OSamePos                 (* p.current.Pos == startPos  -- progress guard *)
| OGap                     (* p.current.Pos.Offset > saved.Offset + 1  -- spaced detection *)
| OLine.                   (* p.peek.Pos.Line != p.current.Pos.Line  -- NOT an allowed class *)

Definition allowed_obs (o : obs) : bool :=
  match o with
  | ORawEq c | ORawPrefix c => letter_free c
  | OLine => false
  | _ => true
  end.

Definition dummy_item : item := mk_item T_EOF [] {| p_off := 0; p_line := 0; p_col := 0 |} false.
(* the token at index i; past the end the parser keeps seeing the last token (EOF) *)
Definition tok (ts : list item) (i : nat) : item := nth (Nat.min i (length ts - 1)) ts dummy_item.

Definition b2a (b : bool) : list N := [if b then 1%N else 0%N].

Definition answer (ts : list item) (cur saved : nat) (o : obs) (d : nat) : list N :=
  match o with
  | OKind => [it_tok (tok ts (cur + d))]
  | OUpper => map ascii_upper (it_val (tok ts (cur + d)))
  | ORawEq c => b2a (bytes_eqb (it_val (tok ts (cur + d))) c)
  | ORawPrefix c => b2a (is_prefix c (it_val (tok ts (cur + d))))
  | OQuoted => b2a (it_quoted (tok ts (cur + d)))
  | OSamePos => b2a (pos_eqb (it_pos (tok ts cur)) (it_pos (tok ts saved)))
  | OGap => b2a (p_off (it_pos (tok ts saved)) + 1 <? p_off (it_pos (tok ts cur)))%N
  | OLine => b2a (negb (p_line (it_pos (tok ts (cur + 1))) =? p_line (it_pos (tok ts cur)))%N)
  end.

Lemma obs_eq_gap : forall o, o = OGap \/ o <> OGap.
Proof. intros []; try (right; discriminate). left; reflexivity. Qed.

Section Machine.
Variable Q : Type.

Inductive act : Type :=
| Halt
| Advance (q : Q)                              (* p.nextToken() *)
| Save (q : Q)                                 (* startPos := p.current.Pos *)
| Ask (o : obs) (d : nat) (k : list N -> Q)    (* branch on an observation *)
| OutVal (d : nat) (q : Q)                     (* copy the raw value into the tree (names keep their spelling) *)
| OutPos (d : nat) (q : Q).                    (* copy-into-node *)

Variable prog : Q -> act.

Inductive event : Type :=
| EAsk (o : obs) (d cur saved : nat) (a : list N)
| EVal (kind : N) (v : list N)
| EPos (p : pos).

Fixpoint run (fuel : nat) (ts : list item) (q : Q) (cur saved : nat) : list event :=
  match fuel with
  | O => []
  | S f =>
      match prog q with
      | Halt => []
      | Advance q' => run f ts q' (Nat.min (S cur) (length ts - 1)) saved
      | Save q' => run f ts q' cur cur
      | Ask o d k => let a := answer ts cur saved o d in EAsk o d cur saved a :: run f ts (k a) cur saved
      | OutVal d q' => EVal (it_tok (tok ts (cur + d))) (it_val (tok ts (cur + d))) :: run f ts q' cur saved
      | OutPos d q' => EPos (it_pos (tok ts (cur + d))) :: run f ts q' cur saved
      end
  end.

Definition prog_ok : Prop := forall q o d k, prog q = Ask o d k -> allowed_obs o = true.

(* two events are indistinguishable: same question, same answer; copied values equal up to the case of
   keyword-token values; copied positions arbitrary *)
Definition ev_rel (e e' : event) : Prop :=
  match e, e' with
  | EAsk o d c s a, EAsk o' d' c' s' a' => o = o' /\ d = d' /\ c = c' /\ s = s' /\ a = a'
  | EVal k v, EVal k' v' => norm_sig (k, v, false) = norm_sig (k', v', false)
  | EPos _, EPos _ => True
  | _, _ => False
  end.

(* the token lists have the same signature (what LexerLayout.v preserves) *)
Definition sim (ts ts' : list item) : Prop :=
  length ts = length ts' /\
  forall i, norm_sig (sig_item (tok ts i)) = norm_sig (sig_item (tok ts' i)).

(* token positions are pairwise different (offsets increase along the list) *)
Definition pos_inj (ts : list item) : Prop :=
  forall i j, i < length ts -> j < length ts -> it_pos (nth i ts dummy_item) = it_pos (nth j ts dummy_item) -> i = j.

(* the spaced-detection answers of the first run are also the answers on the second list
   ("equal spacing flags at the allowed sites") *)
Definition gaps_agree (ts' : list item) (tr : list event) : Prop :=
  Forall (fun e => match e with
                   | EAsk OGap d c s a => answer ts' c s OGap d = a
                   | _ => True
                   end) tr.

(* ---- facts ---- *)

Lemma ascii_upper_letter_free : forall b, is_ascii_letter b = false -> ascii_upper b = b.
Proof.
  intros b H. unfold ascii_upper. unfold is_ascii_letter in H. apply orb_false_iff in H. destruct H as [_ H].
  rewrite H. reflexivity.
Qed.

Lemma ascii_upper_is_letter : forall b, is_ascii_letter (ascii_upper b) = is_ascii_letter b.
Proof.
  intros b. unfold ascii_upper, is_ascii_letter, in_range.
  destruct ((97 <=? b)%N && (b <=? 122)%N) eqn:C.
  - apply andb_prop in C. destruct C as [C1 C2]. apply N.leb_le in C1. apply N.leb_le in C2.
    replace (97 <=? b)%N with true by (symmetry; apply N.leb_le; lia).
    replace (b <=? 122)%N with true by (symmetry; apply N.leb_le; lia).
    replace (65 <=? b - 32)%N with true by (symmetry; apply N.leb_le; lia).
    replace (b - 32 <=? 90)%N with true by (symmetry; apply N.leb_le; lia).
    rewrite orb_true_r. reflexivity.
  - rewrite C. reflexivity.
Qed.

(* a comparison with a letter-free constant does not see letter case *)
Lemma upper_eq_letter_free : forall c v v', letter_free c = true ->
  map ascii_upper v = map ascii_upper v' -> bytes_eqb v c = bytes_eqb v' c.
Proof.
  induction c as [|x c IH]; intros [|y v] [|y' v'] Hc Hu; cbn in Hu |- *; try discriminate Hu; try reflexivity.
  cbn [letter_free forallb] in Hc. apply andb_prop in Hc. destruct Hc as [Hx Hc]. apply negb_true_iff in Hx.
  injection Hu as Hy Hv. rewrite (IH v v' Hc Hv). f_equal.
  destruct (N.eqb_spec y x) as [->|Hn]; destruct (N.eqb_spec y' x) as [->|Hn']; try reflexivity; exfalso.
  - rewrite (ascii_upper_letter_free x Hx) in Hy.
    assert (Hl : is_ascii_letter y' = false) by (rewrite <- ascii_upper_is_letter, <- Hy; exact Hx).
    rewrite (ascii_upper_letter_free y' Hl) in Hy. congruence.
  - rewrite (ascii_upper_letter_free x Hx) in Hy.
    assert (Hl : is_ascii_letter y = false) by (rewrite <- ascii_upper_is_letter, Hy; exact Hx).
    rewrite (ascii_upper_letter_free y Hl) in Hy. congruence.
Qed.

Lemma upper_prefix_letter_free : forall c v v', letter_free c = true ->
  map ascii_upper v = map ascii_upper v' -> is_prefix c v = is_prefix c v'.
Proof.
  induction c as [|x c IH]; intros [|y v] [|y' v'] Hc Hu; cbn in Hu |- *; try discriminate Hu; try reflexivity.
  cbn [letter_free forallb] in Hc. apply andb_prop in Hc. destruct Hc as [Hx Hc]. apply negb_true_iff in Hx.
  injection Hu as Hy Hv. rewrite (IH v v' Hc Hv). f_equal.
  destruct (N.eqb_spec x y) as [<-|Hn]; destruct (N.eqb_spec x y') as [<-|Hn']; try reflexivity; exfalso.
  - rewrite (ascii_upper_letter_free x Hx) in Hy.
    assert (Hl : is_ascii_letter y' = false) by (rewrite <- ascii_upper_is_letter, <- Hy; exact Hx).
    rewrite (ascii_upper_letter_free y' Hl) in Hy. congruence.
  - rewrite (ascii_upper_letter_free x Hx) in Hy.
    assert (Hl : is_ascii_letter y = false) by (rewrite <- ascii_upper_is_letter, Hy; exact Hx).
    rewrite (ascii_upper_letter_free y Hl) in Hy. congruence.
Qed.

Lemma norm_sig_inv : forall it it', norm_sig (sig_item it) = norm_sig (sig_item it') ->
  it_tok it = it_tok it' /\ it_quoted it = it_quoted it' /\
  map ascii_upper (it_val it) = map ascii_upper (it_val it') /\
  (is_keyword (it_tok it) = false -> it_val it = it_val it').
Proof.
  intros it it' H. unfold norm_sig, sig_item in H. injection H as Hk Hv Hq.
  rewrite <- Hk in Hv. repeat split; try assumption.
  - destruct (is_keyword (it_tok it)); [exact Hv|rewrite Hv; reflexivity].
  - intros Hnk. rewrite Hnk in Hv. exact Hv.
Qed.

Lemma tok_pos_same : forall ts, pos_inj ts -> forall i j,
  pos_eqb (it_pos (tok ts i)) (it_pos (tok ts j)) =
  Nat.eqb (Nat.min i (length ts - 1)) (Nat.min j (length ts - 1)) || Nat.eqb (length ts) 0.
Proof.
  intros ts Hinj i j. unfold tok.
  destruct ts as [|t0 ts0] eqn:Ets.
  { cbn [length Nat.eqb]. rewrite orb_true_r. destruct (Nat.min i (0 - 1)), (Nat.min j (0 - 1)); reflexivity. }
  rewrite <- Ets in *. assert (Hlen : 0 < length ts) by (rewrite Ets; cbn; lia).
  replace (Nat.eqb (length ts) 0) with false by (symmetry; apply Nat.eqb_neq; lia). rewrite orb_false_r.
  set (a := Nat.min i (length ts - 1)). set (b := Nat.min j (length ts - 1)).
  assert (Ha : a < length ts) by (unfold a; lia). assert (Hb : b < length ts) by (unfold b; lia).
  destruct (Nat.eqb_spec a b) as [->|Hne].
  - unfold pos_eqb. rewrite !N.eqb_refl. reflexivity.
  - destruct (pos_eqb _ _) eqn:E; [|reflexivity]. exfalso. apply Hne. apply Hinj; try assumption.
    unfold pos_eqb in E. apply andb_prop in E. destruct E as [E E3]. apply andb_prop in E. destruct E as [E1 E2].
    apply N.eqb_eq in E1. apply N.eqb_eq in E2. apply N.eqb_eq in E3.
    destruct (it_pos (nth a ts dummy_item)), (it_pos (nth b ts dummy_item)). cbn in *. congruence.
Qed.

(* the answers to allowed questions agree on lists with the same signature *)
Lemma answer_sim : forall ts ts' cur saved o d,
  sim ts ts' -> pos_inj ts -> pos_inj ts' -> allowed_obs o = true -> o <> OGap ->
  answer ts cur saved o d = answer ts' cur saved o d.
Proof.
  intros ts ts' cur saved o d [Hlen Hs] Hi Hi' Ha Hng.
  destruct (norm_sig_inv _ _ (Hs (cur + d))) as (Hk & Hq & Hu & Hraw).
  destruct o; cbn [answer allowed_obs] in *; try discriminate Ha.
  - rewrite Hk. reflexivity.
  - exact Hu.
  - rewrite (upper_eq_letter_free c _ _ Ha Hu). reflexivity.
  - rewrite (upper_prefix_letter_free c _ _ Ha Hu). reflexivity.
  - rewrite Hq. reflexivity.
  - rewrite (tok_pos_same ts Hi), (tok_pos_same ts' Hi'), Hlen. reflexivity.
  - contradiction.
Qed.

(* ---- the theorem ---- *)

Theorem runs_indistinguishable : forall ts ts', sim ts ts' -> pos_inj ts -> pos_inj ts' -> prog_ok ->
  forall fuel q cur saved,
  gaps_agree ts' (run fuel ts q cur saved) ->
  Forall2 ev_rel (run fuel ts q cur saved) (run fuel ts' q cur saved).
Proof.
  intros ts ts' Hsim Hi Hi' Hok. pose proof Hsim as [Hlen Hs].
  induction fuel as [|f IH]; intros q cur saved Hg; cbn [run] in *; [constructor|].
  destruct (prog q) as [|q'|q'|o d k|d q'|d q'] eqn:Ep.
  - constructor.
  - rewrite <- Hlen. apply IH. exact Hg.
  - apply IH. exact Hg.
  - inversion Hg as [|e tr Hhead Htail]. subst.
    assert (Ea : answer ts cur saved o d = answer ts' cur saved o d).
    { destruct (obs_eq_gap o) as [->|Hng]; [symmetry; exact Hhead|].
      apply answer_sim; try assumption. apply (Hok q o d k Ep). }
    rewrite <- Ea. constructor; [cbn; auto|]. apply IH. exact Htail.
  - inversion Hg as [|e tr Hhead Htail]. subst. constructor; [|apply IH; exact Htail].
    cbn [ev_rel]. destruct (norm_sig_inv _ _ (Hs (cur + d))) as (Hk & _ & Hu & Hraw).
    unfold norm_sig. rewrite <- Hk. destruct (is_keyword (it_tok (tok ts (cur + d)))) eqn:Ek.
    + rewrite Hu. reflexivity.
    + rewrite (Hraw eq_refl). reflexivity.
  - inversion Hg as [|e tr Hhead Htail]. subst. constructor; [exact I|apply IH; exact Htail].
Qed.

End Machine.
Arguments Halt {Q}.
Arguments Advance {Q}.
Arguments Save {Q}.
Arguments Ask {Q}.
Arguments OutVal {Q}.
Arguments OutPos {Q}.

(* ====================================================================== *)
(* 3. connection with the lexer theorems, examples                          *)
(* ====================================================================== *)

(* the parser's token list: nextToken drops comment tokens *)
Definition parser_tokens (its : list item) : list item := filter (fun it => negb (is_comment it)) its.

Lemma sig_of_parser_tokens : forall its,
  sig_of its = map (fun it => norm_sig (sig_item it)) (parser_tokens its).
Proof.
  intros its. unfold sig_of, sig_raw, parser_tokens. rewrite <- map_map. f_equal.
  induction its as [|it its IH]; [reflexivity|]. cbn [map filter].
  unfold not_comment_sig at 1, is_comment at 1, sig_item at 1. cbn [fst].
  destruct (negb (it_tok it =? T_LINE_COMMENT)%N); cbn [map]; rewrite IH; reflexivity.
Qed.

Lemma sim_of_sigs : forall ts ts',
  map (fun it => norm_sig (sig_item it)) ts = map (fun it => norm_sig (sig_item it)) ts' -> sim ts ts'.
Proof.
  intros ts ts' H. assert (Hlen : length ts = length ts').
  { rewrite <- (map_length (fun it => norm_sig (sig_item it)) ts), H. apply map_length. }
  split; [exact Hlen|]. intros i. unfold tok. rewrite <- Hlen.
  set (k := Nat.min i (length ts - 1)).
  rewrite <- (map_nth (fun it => norm_sig (sig_item it)) ts dummy_item k).
  rewrite <- (map_nth (fun it => norm_sig (sig_item it)) ts' dummy_item k).
  rewrite H. reflexivity.
Qed.

(* two texts with the same lexer signature give the parser token lists with the same signature *)
Theorem sim_of_lex_sig : forall x y its its',
  tokenize x = Some its -> tokenize y = Some its' -> lex_sig x = lex_sig y ->
  sim (parser_tokens its) (parser_tokens its').
Proof.
  intros x y its its' Ex Ey H. unfold lex_sig in H. rewrite Ex, Ey in H. cbn [option_map] in H.
  injection H as H. apply sim_of_sigs. rewrite <- !sig_of_parser_tokens. exact H.
Qed.

(* boolean form of pos_inj, for examples *)
Fixpoint pos_mem (p : pos) (l : list item) : bool :=
  match l with
  | [] => false
  | it :: l' => pos_eqb p (it_pos it) || pos_mem p l'
  end.
Fixpoint pos_nodup (l : list item) : bool :=
  match l with
  | [] => true
  | it :: l' => negb (pos_mem (it_pos it) l') && pos_nodup l'
  end.

Lemma pos_eqb_refl : forall p, pos_eqb p p = true.
Proof. intros p. unfold pos_eqb. rewrite !N.eqb_refl. reflexivity. Qed.

Lemma pos_mem_nth : forall l j p, j < length l -> it_pos (nth j l dummy_item) = p -> pos_mem p l = true.
Proof.
  induction l as [|it l IH]; intros j p Hj E; [cbn in Hj; lia|].
  cbn [pos_mem]. destruct j as [|j].
  - cbn in E. rewrite E, pos_eqb_refl. reflexivity.
  - cbn [nth length] in *. rewrite (IH j p); [apply orb_true_r|lia|exact E].
Qed.

Lemma pos_nodup_inj : forall l, pos_nodup l = true -> pos_inj l.
Proof.
  induction l as [|it l IH]; intros H i j Hi Hj E; [cbn in Hi; lia|].
  cbn [pos_nodup] in H. apply andb_prop in H. destruct H as [H1 H2]. apply negb_true_iff in H1.
  destruct i as [|i], j as [|j]; cbn [nth length] in *.
  - reflexivity.
  - exfalso. rewrite (pos_mem_nth l j (it_pos it)) in H1; [discriminate H1|lia|symmetry; exact E].
  - exfalso. rewrite (pos_mem_nth l i (it_pos it)) in H1; [discriminate H1|lia|exact E].
  - f_equal. apply (IH H2); [lia|lia|exact E].
Qed.

(* ---- an allowed program and a forbidden one ---- *)

(* a toy "parser": branch on the kind, compare the upper-cased value, copy positions and values, guard
   progress with a saved position, advance *)
Definition toy (q : nat) : act nat :=
  match q with
  | 0 => Ask OKind 0 (fun a => match a with [k] => if (k =? T_EOF)%N then 9 else 1 | _ => 9 end)
  | 1 => Save 2
  | 2 => Ask OUpper 0 (fun a => if bytes_eqb a [83; 69; 76; 69; 67; 84]%N then 3 else 4)
  | 3 => OutPos 0 5
  | 4 => OutVal 0 5
  | 5 => Advance 6
  | 6 => Ask OSamePos 0 (fun a => match a with [1%N] => 9 | _ => 0 end)
  | _ => Halt
  end.

Lemma toy_ok : prog_ok nat toy.
Proof.
  intros q o d k H. do 7 (destruct q as [|q]; [cbn in H; try discriminate H; injection H as <- _ _; reflexivity|]).
  cbn in H. discriminate H.
Qed.

Definition txt1 : list N := [115; 101; 108; 101; 99; 116; 32; 49; 32]%N.                 (* "select 1 " *)
Definition txt2 : list N := [83; 69; 76; 69; 67; 84; 47; 42; 42; 47; 10; 49; 10]%N.         (* "SELECT/**/\n1\n" *)

Definition toks_of (bs : list N) : list item :=
  match tokenize bs with Some its => parser_tokens its | None => [] end.

Example toy_same_run :
  Forall2 ev_rel (run nat toy 40 (toks_of txt1) 0 0 0) (run nat toy 40 (toks_of txt2) 0 0 0).
Proof.
  apply runs_indistinguishable.
  - apply sim_of_sigs. vm_compute. reflexivity.
  - apply pos_nodup_inj. vm_compute. reflexivity.
  - apply pos_nodup_inj. vm_compute. reflexivity.
  - exact toy_ok.
  - vm_compute. repeat constructor.
Qed.

(* the hypothesis prog_ok cannot be dropped: a program that looks at line numbers tells the two texts apart *)
Definition nosy (q : nat) : act nat :=
  match q with
  | 0 => Ask OLine 0 (fun a => 1)
  | _ => Halt
  end.

Example nosy_distinguishes :
  run nat nosy 5 (toks_of txt1) 0 0 0 <> run nat nosy 5 (toks_of txt2) 0 0 0.
Proof. vm_compute. discriminate. Qed.

(* the checker is not vacuous: each kind of mutation of the inventory is rejected *)
Local Open Scope string_scope.
Example reject_other :
  check_pos_reads [("parser|Parser.parseX|p.peek.Pos.Line", "other", 1%N)] allowed_spaced [] = false.
Proof. reflexivity. Qed.
Example reject_new_spaced :
  check_pos_reads [("parser|Parser.parseExpressionList|p.current.Pos.Offset > startOff+3", "spaced-detection", 1%N)]
                  allowed_spaced [] = false.
Proof. vm_compute. reflexivity. Qed.
Example reject_case_sensitive_keyword :
  check_value_compares [("parser|Parser.parseX|p.current.Value == ""ALL""", "case-sensitive", [[65; 76; 76]%N], 1%N)] [] [] = false.
Proof. vm_compute. reflexivity. Qed.
Example accept_punctuation :
  check_value_compares [("parser|Parser.parseDrop|p.current.Value == ""@""", "case-sensitive", [[64]%N], 2%N)] [] [] = true.
Proof. vm_compute. reflexivity. Qed.
