(* C05, lexer part 1: the lexer model does not observe positions, and its results do not depend on
   the amount of fuel (as long as it does not run out).

   `same_st l l'` : two lexer states that agree on everything but `l_pos`.
   For every scanner F of LexerModel.v:  same_st l l' -> F fuel l and F fuel' l' -- when both return
   Some -- return items with the same (kind, value, quoted) and states related by same_st.
   (That both return Some for the fuel `tokenize` supplies is LexerTotal.v.)  *)
From Coq Require Import List NArith Bool Lia Arith.
From DC Require Import Base.Utf8 Base.Unicode Base.UnicodeFacts Base.Stream Base.Item Gen.TokenTable
  Lexer.LexerModel Lexer.LexerTotal Lexer.LexerLayoutSpec.
Import ListNotations.
Local Open Scope bool_scope.

Definition same_st (l l' : plex) : Prop :=
  l_src l = l_src l' /\ l_ch l = l_ch l' /\ l_eof l = l_eof l'.

Definition orel {A : Type} (R : A -> A -> Prop) (r r' : option A) : Prop :=
  match r, r' with
  | Some a, Some a' => R a a'
  | _, _ => True
  end.

Definition R2 {B : Type} (st st' : plex * B) : Prop := same_st (fst st) (fst st') /\ snd st = snd st'.
Definition R3 {B C : Type} (st st' : plex * B * C) : Prop :=
  same_st (fst (fst st)) (fst (fst st')) /\ snd (fst st) = snd (fst st') /\ snd st = snd st'.
Definition Rtok (r r' : item * plex) : Prop := sig_item (fst r) = sig_item (fst r') /\ same_st (snd r) (snd r').

Lemma same_refl : forall l, same_st l l.
Proof. intros l. repeat split. Qed.
Lemma same_sym : forall l l', same_st l l' -> same_st l' l.
Proof. intros l l' (A & B & C). repeat split; congruence. Qed.
Lemma same_trans : forall a b c, same_st a b -> same_st b c -> same_st a c.
Proof. intros a b c (A & B & C) (A' & B' & C'). repeat split; congruence. Qed.

Lemma same_ch : forall l l', same_st l l' -> l_ch l' = l_ch l.
Proof. intros l l' (_ & H & _). symmetry. exact H. Qed.
Lemma same_eof : forall l l', same_st l l' -> l_eof l' = l_eof l.
Proof. intros l l' (_ & _ & H). symmetry. exact H. Qed.
Lemma same_src : forall l l', same_st l l' -> l_src l' = l_src l.
Proof. intros l l' (H & _ & _). symmetry. exact H. Qed.

Lemma same_rc : forall l l', same_st l l' -> same_st (rc l) (rc l').
Proof.
  intros [s c p e] [s' c' p' e'] (A & B & C). cbn in A, B, C. subst s' c' e'.
  unfold read_char. cbn [l_eof l_src l_ch l_pos].
  destruct e; [repeat split|].
  cbn [s_read_rune pure_stream]. unfold pure_read_rune.
  destruct s as [|b bs]; [repeat split|].
  destruct (decode_rune (b :: bs)) as [r sz]. repeat split.
Qed.

Definition pkc (l : plex) : N := fst (peek_char pure_stream l).
Definition pkn (n : nat) (l : plex) : N := fst (peek_char_n pure_stream n l).
Definition iadf (l : plex) : bool := fst (is_identifier_after_dot pure_stream l).
Definition dmf (i : nat) (rest : list N) (l : plex) : bool := fst (delim_match pure_stream i rest l).

Lemma peek_char_eta : forall l, peek_char pure_stream l = (pkc l, l).
Proof. intros l. unfold pkc. rewrite <- (peek_char_st l) at 3. destruct (peek_char pure_stream l); reflexivity. Qed.
Lemma peek_char_n_eta : forall n l, peek_char_n pure_stream n l = (pkn n l, l).
Proof. intros n l. unfold pkn. rewrite <- (peek_char_n_st n l) at 3. destruct (peek_char_n pure_stream n l); reflexivity. Qed.
Lemma iad_eta : forall l, is_identifier_after_dot pure_stream l = (iadf l, l).
Proof. intros l. unfold iadf. rewrite <- (is_identifier_after_dot_st l) at 3. destruct (is_identifier_after_dot pure_stream l); reflexivity. Qed.

Lemma same_peek : forall l l', same_st l l' -> pkc l' = pkc l.
Proof.
  unfold pkc. intros [s c p e] [s' c' p' e'] (A & B & C). cbn in A, B, C. subst s' c' e'.
  unfold peek_char. cbn [l_eof l_src]. destruct e; [reflexivity|].
  cbn [s_peek pure_stream]. unfold pure_peek.
  destruct (firstn (Nat.min 1 bufio_size) s); reflexivity.
Qed.
Lemma same_peek_n : forall n l l', same_st l l' -> pkn n l' = pkn n l.
Proof.
  unfold pkn. intros n [s c p e] [s' c' p' e'] (A & B & C). cbn in A, B, C. subst s' c' e'.
  unfold peek_char_n. cbn [l_eof l_src]. destruct (e || Nat.ltb n 1); reflexivity.
Qed.
Lemma same_iad : forall l l', same_st l l' -> iadf l' = iadf l.
Proof.
  unfold iadf. intros [s c p e] [s' c' p' e'] (A & B & C). cbn in A, B, C. subst s' c' e'.
  unfold is_identifier_after_dot. cbn [s_peek pure_stream l_src]. unfold pure_peek.
  repeat match goal with
         | |- context [match ?x with _ => _ end] => destruct x
         end; reflexivity.
Qed.

Lemma same_iter_read : forall n l l', same_st l l' -> same_st (iter_read pure_stream n l) (iter_read pure_stream n l').
Proof.
  induction n as [|n IH]; intros l l' H; cbn [iter_read]; [exact H|]. apply IH, same_rc, H.
Qed.

Lemma same_delim_match : forall rest i l l', same_st l l' -> dmf i rest l' = dmf i rest l.
Proof.
  unfold dmf. induction rest as [|c rest IH]; intros i l l' H; cbn [delim_match]; [reflexivity|].
  rewrite (peek_char_n_eta i l), (peek_char_n_eta i l'), (same_peek_n i l l' H).
  destruct (pkn i l =? c)%N; [apply IH; exact H|reflexivity].
Qed.
Lemma delim_match_eta : forall rest i l, delim_match pure_stream i rest l = (dmf i rest l, l).
Proof.
  intros rest i l. unfold dmf. rewrite <- (delim_match_st rest i l) at 3. destruct (delim_match pure_stream i rest l); reflexivity.
Qed.

Lemma same_try_tag : forall l l', same_st l l' ->
  fst (try_read_dollar_tag pure_stream l') = fst (try_read_dollar_tag pure_stream l) /\
  same_st (snd (try_read_dollar_tag pure_stream l)) (snd (try_read_dollar_tag pure_stream l')).
Proof.
  intros l l' H. unfold try_read_dollar_tag. cbn [s_peek pure_stream]. unfold pure_peek.
  assert (Hs : forall x : plex, set_src x (l_src x) = x) by (intros []; reflexivity). rewrite !Hs.
  rewrite (same_src l l' H).
  destruct (firstn (Nat.min 8192 bufio_size) (l_src l)) as [|b0 bs0]; [split; [reflexivity|exact H]|].
  destruct (decode_rune (b0 :: bs0)) as [r sz].
  destruct (negb (is_letter r) && negb (r =? 95)%N); [split; [reflexivity|exact H]|].
  destruct (scan_tag _ _ _) as [tagr rest].
  destruct rest as [|c0 rest0]; [split; [reflexivity|exact H]|].
  destruct (decode_rune (c0 :: rest0)) as [r2 sz2].
  destruct (negb (r2 =? 36)%N); [split; [reflexivity|exact H]|].
  destruct (find_sub _ _); [|split; [reflexivity|exact H]].
  cbn [fst snd]. split; [reflexivity|]. apply same_rc, same_iter_read, same_rc, H.
Qed.

(* ---- generic loop lemmas ---- *)

Lemma loop_rel : forall {A : Type} (R : A -> A -> Prop) (body : A -> A * bool),
  (forall a a', R a a' -> R (fst (body a)) (fst (body a')) /\ snd (body a) = snd (body a')) ->
  forall f f' a a', R a a' -> orel R (loop f body a) (loop f' body a').
Proof.
  intros A R body Hb. induction f as [|f IH]; intros f' a a' H; [exact I|].
  destruct f' as [|f']; [cbn; destruct (let '(a1, c) := body a in if c then loop f body a1 else Some a1); exact I|].
  cbn [loop]. destruct (Hb a a' H) as [H1 H2].
  destruct (body a) as [a1 c]; destruct (body a') as [a1' c']. cbn [fst snd] in *. subst c'.
  destruct c; [apply IH; exact H1|exact H1].
Qed.

Lemma loopo_rel : forall {A : Type} (R : A -> A -> Prop) (body body' : A -> option (A * bool)),
  (forall a a', R a a' -> orel (fun x x' => R (fst x) (fst x') /\ snd x = snd x') (body a) (body' a')) ->
  forall f f' a a', R a a' -> orel R (loopo f body a) (loopo f' body' a').
Proof.
  intros A R body body' Hb. induction f as [|f IH]; intros f' a a' H; [exact I|].
  destruct f' as [|f']; [cbn; destruct (match body a with Some _ => _ | None => _ end); exact I|].
  cbn [loopo]. pose proof (Hb a a' H) as Hx.
  destruct (body a) as [[a1 c]|]; [|exact I]. destruct (body' a') as [[a1' c']|]; [|destruct (if c then _ else _); exact I].
  cbn [orel fst snd] in Hx. destruct Hx as [H1 H2]. subst c'.
  destruct c; [apply IH; exact H1|exact H1].
Qed.

Lemma bind_rel : forall {A B : Type} (R : A -> A -> Prop) (Q : B -> B -> Prop) r r' (k k' : A -> option B),
  orel R r r' -> (forall a a', R a a' -> orel Q (k a) (k' a')) -> orel Q (bind r k) (bind r' k').
Proof.
  intros A B R Q r r' k k' H Hk. destruct r as [a|]; [|exact I].
  destruct r' as [a'|]; [|cbn; destruct (k a); exact I]. cbn. apply Hk, H.
Qed.

Lemma orel_some : forall {A : Type} (R : A -> A -> Prop) a a', R a a' -> orel R (Some a) (Some a').
Proof. intros; assumption. Qed.

(* ---- the rewriting tactic ---- *)

(* for every `rc b` in the goal with same_st a b known, add same_st (rc a) (rc b) *)
Ltac sat :=
  repeat match goal with
  | H : same_st ?a ?b |- context [read_char pure_stream ?b] =>
      lazymatch goal with
      | _ : same_st (read_char pure_stream a) (read_char pure_stream b) |- _ => fail
      | _ => pose proof (same_rc a b H)
      end
  end.

Ltac etas :=
  repeat first
    [ rewrite peek_char_eta
    | rewrite peek_char_n_eta
    | rewrite iad_eta
    | rewrite delim_match_eta ];
  cbn beta iota zeta.

(* express everything about the primed states through the unprimed ones *)
Ltac unprime :=
  repeat match goal with
  | H : same_st ?a ?b |- context [l_ch ?b] => rewrite (same_ch a b H)
  | H : same_st ?a ?b |- context [l_eof ?b] => rewrite (same_eof a b H)
  | H : same_st ?a ?b |- context [pkc ?b] => rewrite (same_peek a b H)
  | H : same_st ?a ?b |- context [pkn ?n ?b] => rewrite (same_peek_n n a b H)
  | H : same_st ?a ?b |- context [iadf ?b] => rewrite (same_iad a b H)
  | H : same_st ?a ?b |- context [dmf ?i ?r ?b] => rewrite (same_delim_match r i a b H)
  end.

Ltac ifs :=
  repeat match goal with
         | |- context [if ?c then _ else _] => destruct c
         end.

Ltac relfin :=
  cbn [fst snd orel]; unfold R2, R3, Rtok, sig_item; cbn [fst snd it_tok it_val it_quoted mk_item];
  repeat match goal with
         | |- _ /\ _ => split
         | |- same_st (read_char pure_stream _) (read_char pure_stream _) => apply same_rc
         | |- same_st (iter_read pure_stream _ _) (iter_read pure_stream _ _) => apply same_iter_read
         | |- same_st _ _ => assumption
         | |- _ = _ => reflexivity
         | |- True => exact I
         end.

(* a loop body on (lexer, builder) states *)
Ltac body2 :=
  let l := fresh "l" in let b := fresh "b" in let l' := fresh "l'" in let b' := fresh "b'" in
  let Hs := fresh "Hs" in let Hb := fresh "Hb" in
  intros [l b] [l' b'] [Hs Hb]; cbn [fst snd] in Hs, Hb; subst b';
  cbn beta iota zeta; etas; sat; unprime; ifs; relfin.

(* ---- simple loops ---- *)

Lemma skip_while_rel : forall cond f f' l l', same_st l l' ->
  orel same_st (skip_while pure_stream f cond l) (skip_while pure_stream f' cond l').
Proof.
  intros cond f f' l l' H. unfold skip_while. apply loop_rel; [|exact H].
  intros a a' Ha. sat. unprime. ifs; relfin.
Qed.

Lemma take_while_rel : forall cond f f' (st st' : plex * sb), R2 st st' ->
  orel R2 (take_while pure_stream f cond st) (take_while pure_stream f' cond st').
Proof.
  intros cond f f' st st' H. unfold take_while. apply loop_rel; [|exact H]. body2.
Qed.

Lemma to_eol_rel : forall stop f f' (st st' : plex * sb), R2 st st' ->
  orel R2 (to_eol pure_stream f stop st) (to_eol pure_stream f' stop st').
Proof.
  intros stop f f' st st' H. unfold to_eol. apply loop_rel; [|exact H].
  unfold not_eol. body2.
Qed.

Lemma until_close_rel : forall close f f' (st st' : plex * sb), R2 st st' ->
  orel R2 (until_close pure_stream f close st) (until_close pure_stream f' close st').
Proof.
  intros close f f' st st' H. unfold until_close. apply loop_rel; [|exact H]. body2.
Qed.

Lemma take_ident_runes_rel : forall f f' (st st' : plex * list N), R2 st st' ->
  orel R2 (take_ident_runes pure_stream f st) (take_ident_runes pure_stream f' st').
Proof.
  intros f f' st st' H. unfold take_ident_runes. apply loop_rel; [|exact H]. body2.
Qed.

Lemma block_body_rel : forall st st', R3 st st' ->
  R3 (fst (block_body pure_stream st)) (fst (block_body pure_stream st')) /\
  snd (block_body pure_stream st) = snd (block_body pure_stream st').
Proof.
  intros [[l b] n] [[l' b'] n'] (Hs & Hb & Hn). cbn [fst snd] in Hs, Hb, Hn. subst b' n'.
  unfold block_body. sat. unprime.
  destruct (negb (l_eof l) && Nat.ltb 0 n); [|relfin].
  destruct ((l_ch l =? 42)%N || (l_ch l =? 47)%N).
  - etas. sat. unprime. ifs; relfin.
  - cbn beta iota zeta. sat. unprime. ifs; relfin.
Qed.

Lemma escape_switch_rel : forall bt l l' b, same_st l l' ->
  same_st (fst (fst (escape_switch pure_stream bt l b))) (fst (fst (escape_switch pure_stream bt l' b))) /\
  snd (fst (escape_switch pure_stream bt l b)) = snd (fst (escape_switch pure_stream bt l' b)) /\
  snd (escape_switch pure_stream bt l b) = snd (escape_switch pure_stream bt l' b).
Proof.
  intros bt l l' b H. unfold escape_switch. cbn beta iota zeta. sat. unprime. ifs; relfin.
Qed.

Lemma quoted_body_rel : forall q bt st st', R2 st st' ->
  R2 (fst (quoted_body pure_stream q bt st)) (fst (quoted_body pure_stream q bt st')) /\
  snd (quoted_body pure_stream q bt st) = snd (quoted_body pure_stream q bt st').
Proof.
  intros q bt [l b] [l' b'] [Hs Hb]. cbn [fst snd] in Hs, Hb. subst b'.
  unfold quoted_body. etas. sat. unprime.
  destruct (l_eof l); [relfin|].
  destruct (l_ch l =? q)%N; [ifs; relfin|].
  destruct (l_ch l =? 92)%N; [|relfin].
  destruct (l_eof (rc l)); [relfin|].
  destruct (escape_switch_rel bt (rc l) (rc l') b (same_rc l l' Hs)) as (E1 & E2 & E3).
  destruct (escape_switch pure_stream bt (rc l) b) as [[l2 b2] adv].
  destruct (escape_switch pure_stream bt (rc l') b) as [[l2' b2'] adv'].
  cbn [fst snd] in *. subst b2' adv'. destruct adv; relfin.
Qed.

Lemma hex_string_body_rel : forall st st', R2 st st' ->
  R2 (fst (hex_string_body pure_stream st)) (fst (hex_string_body pure_stream st')) /\
  snd (hex_string_body pure_stream st) = snd (hex_string_body pure_stream st').
Proof. unfold hex_string_body. body2. Qed.

Lemma bin_string_body_rel : forall st st', @R2 (list N) st st' ->
  R2 (fst (bin_string_body pure_stream st)) (fst (bin_string_body pure_stream st')) /\
  snd (bin_string_body pure_stream st) = snd (bin_string_body pure_stream st').
Proof. unfold bin_string_body. body2. Qed.

Lemma dquoted_body_rel : forall st st', R2 st st' ->
  R2 (fst (dquoted_body pure_stream st)) (fst (dquoted_body pure_stream st')) /\
  snd (dquoted_body pure_stream st) = snd (dquoted_body pure_stream st').
Proof. unfold dquoted_body. body2. Qed.

Lemma dollar_body_rel : forall closing st st', R2 st st' ->
  R2 (fst (dollar_body pure_stream closing st)) (fst (dollar_body pure_stream closing st')) /\
  snd (dollar_body pure_stream closing st) = snd (dollar_body pure_stream closing st').
Proof. intros closing. unfold dollar_body. body2. Qed.

(* ---- scanners ---- *)

Ltac start_scan :=
  match goal with
  | Hs : same_st ?l ?l' |- _ => cbn beta iota zeta; etas; sat; unprime
  end.

(* continuation  fun '(l, b) => Some (mk_item ..., l')  after a loop on (lexer, builder) states *)
Ltac k2 :=
  let l1 := fresh "l1" in let b1 := fresh "b1" in let l1' := fresh "l1'" in let b1' := fresh "b1'" in
  let H1 := fresh "H1" in let H2 := fresh "H2" in
  intros [l1 b1] [l1' b1'] [H1 H2]; cbn [fst snd] in H1, H2; subst b1';
  cbn beta iota zeta; sat; unprime; ifs; relfin.

Lemma read_line_comment_rel : forall f f' l l', same_st l l' ->
  orel Rtok (read_line_comment pure_stream f l) (read_line_comment pure_stream f' l').
Proof.
  intros f f' l l' Hs. unfold read_line_comment. start_scan.
  eapply bind_rel; [apply to_eol_rel; relfin|k2].
Qed.

Lemma read_hash_comment_rel : forall f f' l l', same_st l l' ->
  orel Rtok (read_hash_comment pure_stream f l) (read_hash_comment pure_stream f' l').
Proof.
  intros f f' l l' Hs. unfold read_hash_comment. start_scan.
  eapply bind_rel; [apply to_eol_rel; relfin|k2].
Qed.

Lemma read_unicode_minus_comment_rel : forall f f' l l', same_st l l' ->
  orel Rtok (read_unicode_minus_comment pure_stream f l) (read_unicode_minus_comment pure_stream f' l').
Proof.
  intros f f' l l' Hs. unfold read_unicode_minus_comment. start_scan.
  eapply bind_rel; [apply to_eol_rel; relfin|k2].
Qed.

Lemma read_block_comment_rel : forall f f' l l', same_st l l' ->
  orel Rtok (read_block_comment pure_stream f l) (read_block_comment pure_stream f' l').
Proof.
  intros f f' l l' Hs. unfold read_block_comment. start_scan.
  eapply bind_rel; [apply (loop_rel R3); [apply block_body_rel|relfin]|].
  intros [[l1 b1] n1] [[l1' b1'] n1'] (H1 & H2 & H3). cbn [fst snd] in H1, H2, H3. subst b1' n1'. relfin.
Qed.

Lemma read_string_rel : forall f f' l l', same_st l l' ->
  orel Rtok (read_string pure_stream f l) (read_string pure_stream f' l').
Proof.
  intros f f' l l' Hs. unfold read_string. start_scan.
  eapply bind_rel; [apply (loop_rel R2); [apply quoted_body_rel|relfin]|k2].
Qed.

Lemma read_backtick_identifier_rel : forall f f' l l', same_st l l' ->
  orel Rtok (read_backtick_identifier pure_stream f l) (read_backtick_identifier pure_stream f' l').
Proof.
  intros f f' l l' Hs. unfold read_backtick_identifier. start_scan.
  eapply bind_rel; [apply (loop_rel R2); [apply quoted_body_rel|relfin]|k2].
Qed.

Lemma read_hex_string_rel : forall f f' l l', same_st l l' ->
  orel Rtok (read_hex_string pure_stream f l) (read_hex_string pure_stream f' l').
Proof.
  intros f f' l l' Hs. unfold read_hex_string. start_scan.
  eapply bind_rel; [apply (loop_rel R2); [apply hex_string_body_rel|relfin]|k2].
Qed.

Lemma read_binary_string_rel : forall f f' l l', same_st l l' ->
  orel Rtok (read_binary_string pure_stream f l) (read_binary_string pure_stream f' l').
Proof.
  intros f f' l l' Hs. unfold read_binary_string. start_scan.
  eapply bind_rel; [apply (loop_rel R2); [apply bin_string_body_rel|relfin]|k2].
Qed.

Lemma read_quoted_identifier_rel : forall f f' l l', same_st l l' ->
  orel Rtok (read_quoted_identifier pure_stream f l) (read_quoted_identifier pure_stream f' l').
Proof.
  intros f f' l l' Hs. unfold read_quoted_identifier. start_scan.
  eapply bind_rel; [apply (loop_rel R2); [apply dquoted_body_rel|relfin]|k2].
Qed.

Lemma read_unicode_string_rel : forall f f' l l', same_st l l' ->
  orel Rtok (read_unicode_string pure_stream f l) (read_unicode_string pure_stream f' l').
Proof.
  intros f f' l l' Hs. unfold read_unicode_string. start_scan.
  eapply bind_rel; [apply until_close_rel; relfin|k2].
Qed.

Lemma read_unicode_quoted_identifier_rel : forall f f' l l', same_st l l' ->
  orel Rtok (read_unicode_quoted_identifier pure_stream f l) (read_unicode_quoted_identifier pure_stream f' l').
Proof.
  intros f f' l l' Hs. unfold read_unicode_quoted_identifier. start_scan.
  eapply bind_rel; [apply until_close_rel; relfin|k2].
Qed.

Lemma read_parameter_rel : forall f f' l l', same_st l l' ->
  orel Rtok (read_parameter pure_stream f l) (read_parameter pure_stream f' l').
Proof.
  intros f f' l l' Hs. unfold read_parameter. start_scan.
  eapply bind_rel; [apply until_close_rel; relfin|k2].
Qed.

Lemma read_dollar_quoted_string_rel : forall f f' tag l l', same_st l l' ->
  orel Rtok (read_dollar_quoted_string pure_stream f tag l) (read_dollar_quoted_string pure_stream f' tag l').
Proof.
  intros f f' tag l l' Hs. unfold read_dollar_quoted_string. cbn beta iota zeta.
  eapply bind_rel; [apply (loop_rel R2); [apply dollar_body_rel|destruct tag; relfin]|k2].
Qed.

Lemma read_dollar_identifier_rel : forall f f' l l', same_st l l' ->
  orel Rtok (read_dollar_identifier pure_stream f l) (read_dollar_identifier pure_stream f' l').
Proof.
  intros f f' l l' Hs. unfold read_dollar_identifier. start_scan.
  eapply bind_rel; [apply take_while_rel; relfin|k2].
Qed.

(* ---- numbers ---- *)

Lemma skip_underscores_rel : forall f f' l l', same_st l l' ->
  orel same_st (skip_underscores pure_stream f l) (skip_underscores pure_stream f' l').
Proof.
  intros f f' l l' H. unfold skip_underscores. apply loop_rel; [|exact H].
  intros a a' Ha. etas. sat. unprime. ifs; relfin.
Qed.

Lemma digits_us_rel : forall f f' (st st' : plex * sb), R2 st st' ->
  orel R2 (digits_us pure_stream f st) (digits_us pure_stream f' st').
Proof.
  intros f f' st st' H. unfold digits_us. apply (loopo_rel R2); [|exact H].
  intros [l b] [l' b'] [Hs Hb]. cbn [fst snd] in Hs, Hb. subst b'. sat. unprime.
  destruct (is_digit (l_ch l)); [|relfin].
  pose proof (skip_underscores_rel f f' (rc l) (rc l') (same_rc l l' Hs)) as Hx.
  destruct (skip_underscores pure_stream f (rc l)) as [l1|]; [|exact I].
  destruct (skip_underscores pure_stream f' (rc l')) as [l1'|]; [|exact I].
  cbn [orel] in Hx. relfin.
Qed.

Lemma fraction_part_rel : forall f f' (st st' : plex * sb), R2 st st' ->
  orel R2 (fraction_part pure_stream f st) (fraction_part pure_stream f' st').
Proof.
  intros f f' [l b] [l' b'] [Hs Hb]. cbn [fst snd] in Hs, Hb. subst b'.
  unfold fraction_part. etas. sat. unprime.
  destruct (l_ch l =? 46)%N; [|relfin].
  destruct (is_digit (pkc l) || _); [|relfin].
  apply digits_us_rel. relfin.
Qed.

Lemma exponent_part_rel : forall f f' (st st' : plex * sb), R2 st st' ->
  orel R2 (exponent_part pure_stream f st) (exponent_part pure_stream f' st').
Proof.
  intros f f' [l b] [l' b'] [Hs Hb]. cbn [fst snd] in Hs, Hb. subst b'.
  unfold exponent_part. cbn beta iota zeta. sat. unprime.
  destruct ((l_ch l =? 101)%N || (l_ch l =? 69)%N); [|relfin].
  destruct ((l_ch (rc l) =? 43)%N || (l_ch (rc l) =? 45)%N); apply digits_us_rel; relfin.
Qed.

Lemma hex_tail_rel : forall f f' (st st' : plex * sb), R2 st st' ->
  orel R2 (hex_tail pure_stream f st) (hex_tail pure_stream f' st').
Proof.
  intros f f' st st' H. unfold hex_tail.
  eapply bind_rel; [apply take_while_rel; exact H|].
  intros [l b] [l' b'] [Hs Hb]. cbn [fst snd] in Hs, Hb. subst b'.
  eapply bind_rel with (R := R2).
  - sat. unprime. destruct (l_ch l =? 46)%N; [apply take_while_rel|]; relfin.
  - intros [l2 b2] [l2' b2'] [Hs2 Hb2]. cbn [fst snd] in Hs2, Hb2. subst b2'.
    cbn beta iota zeta. sat. unprime.
    destruct ((l_ch l2 =? 112)%N || (l_ch l2 =? 80)%N); [|relfin].
    destruct ((l_ch (rc l2) =? 43)%N || (l_ch (rc l2) =? 45)%N); apply take_while_rel; relfin.
Qed.

Lemma us_digit_groups_rel : forall f f' (st st' : plex * sb), R2 st st' ->
  orel R2 (us_digit_groups pure_stream f st) (us_digit_groups pure_stream f' st').
Proof.
  intros f f' st st' H. unfold us_digit_groups. apply (loopo_rel R2); [|exact H].
  intros [l b] [l' b'] [Hs Hb]. cbn [fst snd] in Hs, Hb. subst b'. etas. sat. unprime.
  destruct (l_ch l =? 95)%N; [|relfin].
  destruct (is_digit (pkc l)); [|relfin].
  pose proof (take_while_rel is_digit f f' (rc l, b) (rc l', b)) as Hx.
  destruct (take_while pure_stream f is_digit (rc l, b)) as [st1|]; [|exact I].
  destruct (take_while pure_stream f' is_digit (rc l', b)) as [st1'|]; [|exact I].
  cbn [orel fst snd]. split; [|reflexivity]. apply Hx. relfin.
Qed.

Lemma num_item_rel : forall p p' (st st' : plex * sb), R2 st st' -> orel Rtok (num_item p st) (num_item p' st').
Proof. intros p p' [l b] [l' b'] [Hs Hb]. cbn [fst snd] in Hs, Hb. subst b'. unfold num_item. relfin. Qed.
Lemma ident_item_rel : forall p p' (st st' : plex * sb), R2 st st' -> orel Rtok (ident_item p st) (ident_item p' st').
Proof. intros p p' [l b] [l' b'] [Hs Hb]. cbn [fst snd] in Hs, Hb. subst b'. unfold ident_item. relfin. Qed.

Lemma number_general_rel : forall f f' p p' (st st' : plex * sb), R2 st st' ->
  orel Rtok (number_general pure_stream f p st) (number_general pure_stream f' p' st').
Proof.
  intros f f' p p' st st' H. unfold number_general.
  eapply bind_rel; [apply digits_us_rel; exact H|]. intros st1 st1' H1.
  eapply bind_rel; [apply fraction_part_rel; exact H1|]. intros st2 st2' H2.
  eapply bind_rel; [apply exponent_part_rel; exact H2|]. intros st3 st3' H3.
  apply num_item_rel; exact H3.
Qed.

Lemma read_number_rel : forall f f' l l', same_st l l' ->
  orel Rtok (read_number pure_stream f l) (read_number pure_stream f' l').
Proof.
  intros f f' l l' Hs. unfold read_number. cbn beta iota zeta. sat. unprime.
  destruct (l_ch l =? 46)%N; cbn [fst snd]; sat; unprime.
  - destruct (l_ch (rc l) =? 48)%N; [|apply number_general_rel; relfin].
    destruct (_ || _); [eapply bind_rel; [apply hex_tail_rel; relfin|apply num_item_rel]|].
    destruct (_ || _); [eapply bind_rel; [apply take_while_rel; relfin|apply num_item_rel]|].
    destruct (_ || _); [eapply bind_rel; [apply take_while_rel; relfin|apply num_item_rel]|].
    apply number_general_rel; relfin.
  - destruct (l_ch l =? 48)%N; [|apply number_general_rel; relfin].
    destruct (_ || _); [eapply bind_rel; [apply hex_tail_rel; relfin|apply num_item_rel]|].
    destruct (_ || _); [eapply bind_rel; [apply take_while_rel; relfin|apply num_item_rel]|].
    destruct (_ || _); [eapply bind_rel; [apply take_while_rel; relfin|apply num_item_rel]|].
    apply number_general_rel; relfin.
Qed.

Lemma number_rest_rel : forall f f' p p' sc (st st' : plex * sb), R2 st st' ->
  orel Rtok (number_rest pure_stream f p sc st) (number_rest pure_stream f' p' sc st').
Proof.
  intros f f' p p' sc st st' H. unfold number_rest.
  eapply bind_rel; [apply us_digit_groups_rel; exact H|]. intros st1 st1' H1.
  eapply bind_rel; [apply fraction_part_rel; exact H1|]. intros st2 st2' H2.
  eapply bind_rel; [apply exponent_part_rel; exact H2|].
  intros [l b] [l' b'] [Hs Hb]. cbn [fst snd] in Hs, Hb. subst b'. cbn beta iota zeta. cbn [fst snd].
  eapply bind_rel with (R := R2).
  - etas. cbn [fst snd]. sat. unprime.
    destruct (bytes_eqb (sb_str b) [48%N] && _); [apply hex_tail_rel; relfin|].
    destruct (bytes_eqb (sb_str b) [48%N] && _); [|relfin].
    destruct (_ || _); [apply take_while_rel; relfin|relfin].
  - intros [l4 b4] [l4' b4'] [Hs4 Hb4]. cbn [fst snd] in Hs4, Hb4. subst b4'. cbn [fst snd].
    eapply bind_rel with (R := R2); [|intros; apply num_item_rel; assumption].
    sat. unprime. destruct (_ && _); [apply take_while_rel; relfin|relfin].
Qed.

Lemma read_number_or_ident_rel : forall f f' l l', same_st l l' ->
  orel Rtok (read_number_or_ident pure_stream f l) (read_number_or_ident pure_stream f' l').
Proof.
  intros f f' l l' Hs. unfold read_number_or_ident. unprime.
  eapply bind_rel; [apply take_while_rel; relfin|].
  intros [l1 b1] [l1' b1'] [H1 Hb]. cbn [fst snd] in H1, Hb. subst b1'. cbn beta iota zeta. cbn [fst snd].
  etas. cbn [fst snd].
  assert (Hl2 : forall (c : bool) (x : plex), (if c then x else x) = x) by (intros []; reflexivity).
  rewrite !Hl2. sat. unprime.
  destruct ((l_ch l1 =? 95)%N && _).
  - eapply bind_rel; [apply take_while_rel; relfin|intros; apply ident_item_rel; assumption].
  - destruct (is_letter (l_ch l1) && _ && _).
    + eapply bind_rel; [apply take_while_rel; relfin|intros; apply ident_item_rel; assumption].
    + apply number_rest_rel; relfin.
Qed.

Lemma read_identifier_rel : forall f f' l l', same_st l l' ->
  orel Rtok (read_identifier pure_stream f l) (read_identifier pure_stream f' l').
Proof.
  intros f f' l l' Hs. unfold read_identifier. cbn beta iota zeta. etas. unprime.
  set (cnd := ((l_ch l =? 120)%N || (l_ch l =? 88)%N || (l_ch l =? 98)%N || (l_ch l =? 66)%N)).
  assert (E1 : (if cnd then (pkc l, l) else (0%N, l)) = ((if cnd then pkc l else 0%N), l)) by (destruct cnd; reflexivity).
  assert (E2 : (if cnd then (pkc l, l') else (0%N, l')) = ((if cnd then pkc l else 0%N), l')) by (destruct cnd; reflexivity).
  rewrite E1, E2. cbn beta iota zeta.
  destruct (_ && _); [apply read_hex_string_rel; relfin|].
  destruct (_ && _); [apply read_binary_string_rel; relfin|].
  eapply bind_rel; [apply take_ident_runes_rel; relfin|].
  intros [l1 r1] [l1' r1'] [H1 Hb]. cbn [fst snd] in H1, Hb. subst r1'. relfin.
Qed.

(* ---- NextToken ---- *)

Ltac rel_simple := unfold simple; relfin.

Ltac rdispatch tac :=
  match goal with
  | |- orel _ (if ?c then _ else _) (if ?c then _ else _) => destruct c; [tac|]
  end.

Lemma next_token_rel : forall f f' l l', same_st l l' ->
  orel Rtok (next_token pure_stream f l) (next_token pure_stream f' l').
Proof.
  intros f f' l0 l0' Hs0. unfold next_token.
  eapply bind_rel; [apply skip_while_rel; exact Hs0|].
  intros l l' Hs. cbn beta iota zeta. unprime.
  destruct (l_eof l || (l_ch l =? 0)%N); [rel_simple|].
  etas.
  match goal with |- context [if ?c then (pkc l, l) else (0%N, l)] => set (np := c) end.
  assert (E1 : (if np then (pkc l, l) else (0%N, l)) = ((if np then pkc l else 0%N), l)) by (destruct np; reflexivity).
  assert (E2 : (if np then (pkc l', l') else (0%N, l')) = ((if np then pkc l else 0%N), l')).
  { rewrite (same_peek l l' Hs). destruct np; reflexivity. }
  rewrite E1, E2. cbn beta iota zeta. clear E1 E2.
  set (pk := if np then pkc l else 0%N). clearbody pk. clear np.
  etas. sat. unprime.
  rdispatch ltac:(apply read_line_comment_rel; assumption).
  rdispatch ltac:(apply read_hash_comment_rel; assumption).
  rdispatch ltac:(apply read_block_comment_rel; assumption).
  rdispatch ltac:(apply read_unicode_minus_comment_rel; assumption).
  rdispatch rel_simple.
  rdispatch ltac:(ifs; rel_simple).
  rdispatch rel_simple.
  rdispatch rel_simple.
  rdispatch rel_simple.
  rdispatch ltac:(ifs; rel_simple).
  rdispatch ltac:(ifs; rel_simple).
  rdispatch ltac:(ifs; rel_simple).
  rdispatch ltac:(ifs; rel_simple).
  rdispatch ltac:(ifs; rel_simple).
  rdispatch ltac:(ifs; rel_simple).
  rdispatch rel_simple.
  rdispatch rel_simple.
  rdispatch rel_simple.
  rdispatch rel_simple.
  rdispatch ltac:(apply read_parameter_rel; assumption).
  rdispatch rel_simple.
  rdispatch rel_simple.
  (* . *)
  rdispatch ltac:(idtac).
  { destruct (is_digit pk); [|rel_simple].
    destruct (iadf l); [rel_simple|]. apply read_number_rel; assumption. }
  rdispatch rel_simple.
  rdispatch rel_simple.
  rdispatch rel_simple.
  (* $ *)
  rdispatch ltac:(idtac).
  { destruct (pk =? 36)%N; [apply read_dollar_quoted_string_rel; assumption|].
    destruct (same_try_tag l l' Hs) as [Ht Hst].
    destruct (try_read_dollar_tag pure_stream l) as [tag l2].
    destruct (try_read_dollar_tag pure_stream l') as [tag' l2']. cbn [fst snd] in Ht, Hst. subst tag'.
    destruct tag; [apply read_dollar_identifier_rel|apply read_dollar_quoted_string_rel]; assumption. }
  rdispatch ltac:(apply read_string_rel; assumption).
  rdispatch ltac:(apply read_unicode_string_rel; assumption).
  rdispatch ltac:(apply read_quoted_identifier_rel; assumption).
  rdispatch ltac:(apply read_unicode_quoted_identifier_rel; assumption).
  rdispatch ltac:(apply read_backtick_identifier_rel; assumption).
  (* @ *)
  rdispatch ltac:(idtac).
  { destruct (pk =? 64)%N; [|rel_simple].
    destruct (_ || _); [|rel_simple].
    eapply bind_rel; [apply take_while_rel; relfin|].
    intros [l3 b3] [l3' b3'] [H3 Hb3]. cbn [fst snd] in H3, Hb3. subst b3'. rel_simple. }
  rdispatch ltac:(apply read_number_or_ident_rel; assumption).
  rdispatch ltac:(apply read_identifier_rel; assumption).
  rel_simple.
Qed.
