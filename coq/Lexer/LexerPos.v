(* C13 over the lexer model (pure stream): token positions are strictly increasing, inside the input, and
   their line/column are those of the rune they designate (LexerPosSpec.v); for every token that is not a
   prefixed string literal (x'..', b'..', $tag$..$tag$) the designated rune is the first rune of the
   token's source text.

   Structure: LexerTotal.v already gives, for every scanner, termination and the measure facts (mu).
   Here we add (1) the position invariant `pinv bs l` of a lexer state relative to the whole input bs,
   preserved by read_char, hence by every scanner (they move only through read_char; peeks do not change
   the state of the pure stream); (2) for every scanner, which state's l_pos it records (`npos`: the
   state after skipWhitespace for every kind but STRING; a later state of the same token for x'..', b'..'
   and $tag$ strings); (3) `at_src`/`J`: the builder of the copying loops plus the unread source is
   constant, so the Value of identifiers, keywords, operators and punctuation is a prefix of the source
   at the token's first byte (`nval`), and a NUMBER starts with a digit or '.' (`nnum`); (4) the
   token-list level: `chain` turns the measure facts into offsets, `tokenize_positions` and the three
   clause theorems `tokenize_offsets`, `tokenize_line_col`, `tokenize_token_start`.  *)
From Coq Require Import List NArith Bool Lia Arith ZifyN ZifyNat ZifyBool Sorted.
From DC Require Import Base.Utf8 Base.Unicode Base.UnicodeFacts Base.Stream Base.Item Gen.TokenTable
  Lexer.LexerModel Lexer.LexerTotal Lexer.LexerPosSpec Lexer.LexerPosUtf8.
Import ListNotations.
Local Open Scope bool_scope.

(* ================= facts about the specification ================= *)

Definition sumsz (rs : list (N * nat)) : nat := fold_right (fun x a => snd x + a) 0 rs.

Lemma sumsz_app : forall a b, sumsz (a ++ b) = sumsz a + sumsz b.
Proof. induction a as [|x a IH]; intros b; cbn [sumsz fold_right app]; [reflexivity|]. fold (sumsz (a ++ b)). fold (sumsz a). rewrite IH. lia. Qed.

Lemma decode_size_le : forall b bs, snd (decode_rune (b :: bs)) <= length (b :: bs).
Proof.
  intros b bs. destruct bs as [|p1 [|p2 [|p3 t]]]; cbn [decode_rune length];
    repeat match goal with
           | |- context [if ?c then _ else _] => destruct c
           end; cbn [snd]; lia.
Qed.

Lemma runes_fuel_indep : forall f1 f2 bs, length bs <= f1 -> length bs <= f2 -> runes_fuel f1 bs = runes_fuel f2 bs.
Proof.
  induction f1 as [|f1 IH]; intros f2 bs H1 H2.
  - destruct bs; [|cbn in H1; lia]. destruct f2; reflexivity.
  - destruct f2 as [|f2].
    + destruct bs; [reflexivity|cbn in H2; lia].
    + destruct bs as [|b t]; [reflexivity|]. cbn [runes_fuel].
      pose proof (decode_size_pos b t) as Hs. destruct (decode_rune (b :: t)) as [r sz]. cbn [snd] in Hs.
      f_equal. apply IH; rewrite skipn_length; cbn [length] in *; lia.
Qed.

Lemma runes_of_nil : runes_of [] = [].
Proof. reflexivity. Qed.

Lemma runes_of_cons : forall b t,
  runes_of (b :: t) = decode_rune (b :: t) :: runes_of (skipn (snd (decode_rune (b :: t))) (b :: t)).
Proof.
  intros b t. unfold runes_of at 1. cbn [length runes_fuel].
  pose proof (decode_size_pos b t) as Hs. destruct (decode_rune (b :: t)) as [r sz]. cbn [snd] in *.
  f_equal. apply runes_fuel_indep; rewrite ?skipn_length; cbn [length]; lia.
Qed.

Lemma sumsz_runes_of : forall bs, sumsz (runes_of bs) = length bs.
Proof.
  intros bs. remember (length bs) as n eqn:Hn. revert bs Hn.
  induction n as [n IH] using lt_wf_ind. intros bs Hn.
  destruct bs as [|b t]; [subst; reflexivity|].
  rewrite runes_of_cons. pose proof (decode_size_pos b t) as Hs. pose proof (decode_size_le b t) as Hl.
  destruct (decode_rune (b :: t)) as [r sz]. cbn [snd] in *. cbn [sumsz fold_right snd].
  fold (sumsz (runes_of (skipn sz (b :: t)))).
  rewrite (IH (length (skipn sz (b :: t)))); [|rewrite skipn_length; lia|reflexivity].
  rewrite skipn_length. lia.
Qed.

Lemma runes_of_sizes : forall bs, Forall (fun x => 1 <= snd x) (runes_of bs).
Proof.
  intros bs. remember (length bs) as n eqn:Hn. revert bs Hn.
  induction n as [n IH] using lt_wf_ind. intros bs Hn.
  destruct bs as [|b t]; [constructor|].
  rewrite runes_of_cons. pose proof (decode_size_pos b t) as Hs.
  constructor; [lia|]. eapply IH; [|reflexivity]. rewrite skipn_length. subst n. cbn [length] in *. lia.
Qed.

(* the walk of the specification finds the rune after `pre` *)
Lemma find_rune_end_app : forall pre r sz post start before,
  Forall (fun x => 1 <= snd x) pre -> 1 <= sz ->
  find_rune_end (pre ++ (r, sz) :: post) start before (N.of_nat (start + sumsz pre + sz)) =
    Some (start + sumsz pre, r, sz, before ++ map fst pre).
Proof.
  induction pre as [|[r0 s0] pre IH]; intros r sz post start before Hp Hs.
  - cbn [app find_rune_end sumsz fold_right map]. rewrite Nat.add_0_r. rewrite N.eqb_refl. rewrite app_nil_r. reflexivity.
  - inversion Hp as [|x xs H0 Hp' Ex]; subst. cbn [snd] in H0.
    cbn [app find_rune_end]. cbn [sumsz fold_right snd]. fold (sumsz pre).
    destruct (N.of_nat (start + s0) =? N.of_nat (start + (s0 + sumsz pre) + sz))%N eqn:E.
    + apply N.eqb_eq in E. lia.
    + replace (start + (s0 + sumsz pre) + sz) with ((start + s0) + sumsz pre + sz) by lia.
      rewrite IH; [|exact Hp'|exact Hs]. cbn [map fst]. rewrite <- app_assoc. cbn [app].
      replace (start + s0 + sumsz pre) with (start + (s0 + sumsz pre)) by lia. reflexivity.
Qed.

Lemma rune_ending_at_split : forall bs pre r sz post,
  runes_of bs = pre ++ (r, sz) :: post ->
  rune_ending_at bs (N.of_nat (sumsz pre + sz)) = Some (sumsz pre, r, sz, map fst pre).
Proof.
  intros bs pre r sz post H. unfold rune_ending_at. rewrite H.
  pose proof (runes_of_sizes bs) as Hs. rewrite H in Hs. apply Forall_app in Hs. destruct Hs as [Hp Hq].
  inversion Hq as [|x xs H0 _ Ex]; subst. cbn [snd] in H0.
  pose proof (find_rune_end_app pre r sz post 0 [] Hp H0) as F. cbn [Nat.add app] in F. exact F.
Qed.

Lemma find_rune_start_app : forall pre r sz post start,
  Forall (fun x => 1 <= snd x) pre ->
  find_rune_start (pre ++ (r, sz) :: post) start (start + sumsz pre) = Some (r, sz).
Proof.
  induction pre as [|[r0 s0] pre IH]; intros r sz post start Hp.
  - cbn [app find_rune_start sumsz fold_right]. rewrite Nat.add_0_r, Nat.eqb_refl. reflexivity.
  - inversion Hp as [|x xs H0 Hp' Ex]; subst. cbn [snd] in H0.
    cbn [app find_rune_start]. cbn [sumsz fold_right snd]. fold (sumsz pre).
    destruct (Nat.eqb start (start + (s0 + sumsz pre))) eqn:E; [apply Nat.eqb_eq in E; lia|].
    replace (start + (s0 + sumsz pre)) with ((start + s0) + sumsz pre) by lia. apply IH. exact Hp'.
Qed.

Lemma rune_starts_at_split : forall bs pre r sz post,
  runes_of bs = pre ++ (r, sz) :: post -> rune_starts_at bs (sumsz pre) = Some (r, sz).
Proof.
  intros bs pre r sz post H. unfold rune_starts_at. rewrite H.
  pose proof (runes_of_sizes bs) as Hs. rewrite H in Hs. apply Forall_app in Hs. destruct Hs as [Hp _].
  exact (find_rune_start_app pre r sz post 0 Hp).
Qed.

Lemma skipn_add : forall {A : Type} a b (l : list A), skipn b (skipn a l) = skipn (a + b) l.
Proof.
  induction a as [|a IH]; intros b l; [reflexivity|].
  destruct l as [|x l]; [cbn [Nat.add skipn]; apply skipn_nil|]. cbn [Nat.add skipn]. apply IH.
Qed.

(* the rune list is compositional at rune boundaries, so the spec's rune at `start` is decode_rune there *)
Lemma runes_of_app_skip : forall pre bs post, runes_of bs = pre ++ post -> runes_of (skipn (sumsz pre) bs) = post.
Proof.
  induction pre as [|[r sz] pre IH]; intros bs post H.
  - exact H.
  - destruct bs as [|b t]; [rewrite runes_of_nil in H; discriminate|].
    rewrite runes_of_cons in H. destruct (decode_rune (b :: t)) as [r' sz'] eqn:Hd. cbn [snd app] in H.
    injection H as Hr Hs Hrest. subst r' sz'. cbn [sumsz fold_right snd]. fold (sumsz pre).
    rewrite <- skipn_add. apply IH. exact Hrest.
Qed.

Lemma decode_at_split : forall bs pre r sz post,
  runes_of bs = pre ++ (r, sz) :: post -> decode_rune (skipn (sumsz pre) bs) = (r, sz).
Proof.
  intros bs pre r sz post H. pose proof (runes_of_app_skip pre bs _ H) as H1.
  destruct (skipn (sumsz pre) bs) as [|b t]; [rewrite runes_of_nil in H1; discriminate|].
  rewrite runes_of_cons in H1. destruct (decode_rune (b :: t)) as [r' sz'] eqn:Hd.
  injection H1 as Hr Hs _. subst r' sz'. reflexivity.
Qed.

(* line and column after one more rune: exactly readChar's update *)
Lemma line_after_snoc : forall before c,
  line_after (before ++ [c]) = if (c =? 10)%N then (line_after before + 1)%N else line_after before.
Proof.
  intros before c. unfold line_after. rewrite count_occ_app. cbn [count_occ].
  destruct (N.eq_dec c 10) as [E|E].
  - subst c. cbn [N.eqb Pos.eqb]. lia.
  - destruct (c =? 10)%N eqn:C; [apply N.eqb_eq in C; contradiction|]. rewrite Nat.add_0_r. reflexivity.
Qed.

Lemma col_after_snoc : forall before c,
  col_after (before ++ [c]) = if (c =? 10)%N then 1%N else (col_after before + 1)%N.
Proof.
  intros before c. unfold col_after. rewrite rev_app_distr. cbn [rev app run_no_nl].
  destruct (c =? 10)%N; lia.
Qed.

(* ================= the position invariant of a lexer state ================= *)

Section WithInput.
Variable bs : list N.

(* the Position of the rune that follows the runes `pre` and has size sz *)
Definition pos_for (pre : list (N * nat)) (sz : nat) : pos :=
  {| p_off := N.of_nat (sumsz pre + sz); p_line := line_after (map fst pre); p_col := col_after (map fst pre) |}.

Definition pos0 : pos := {| p_off := 0; p_line := 1; p_col := 0 |}.

(* Not at end of input: the current character l_ch is a rune of bs, the reader (l_src) stands right
   after it, and l_pos designates it.  At end of input: l_pos still designates the last rune read
   (or is the initial {0,1,0} when the input is empty). *)
Definition ppos (l : plex) : Prop :=
  if l_eof l then
    l_src l = [] /\
    ((bs = [] /\ l_pos l = pos0) \/
     exists pre r sz, runes_of bs = pre ++ [(r, sz)] /\ l_pos l = pos_for pre sz)
  else
    exists pre sz, runes_of bs = pre ++ (l_ch l, sz) :: runes_of (l_src l) /\ l_pos l = pos_for pre sz.

Lemma pos_for_snoc : forall pre c sz sz',
  pos_for (pre ++ [(c, sz)]) sz' =
    if (c =? 10)%N
    then {| p_off := p_off (pos_for pre sz) + N.of_nat sz'; p_line := p_line (pos_for pre sz) + 1; p_col := 1 |}
    else {| p_off := p_off (pos_for pre sz) + N.of_nat sz'; p_line := p_line (pos_for pre sz); p_col := p_col (pos_for pre sz) + 1 |}.
Proof.
  intros pre c sz sz'. unfold pos_for. cbn [p_off p_line p_col].
  rewrite map_app. cbn [map fst]. rewrite line_after_snoc, col_after_snoc, sumsz_app.
  cbn [sumsz fold_right snd].
  replace (N.of_nat (sumsz pre + (sz + 0) + sz')) with (N.of_nat (sumsz pre + sz) + N.of_nat sz')%N by lia.
  destruct (c =? 10)%N; reflexivity.
Qed.

Lemma rc_ppos : forall l, ppos l -> ppos (rc l).
Proof.
  intros l H. unfold ppos in H. unfold read_char. destruct (l_eof l) eqn:E.
  - unfold ppos. cbn [l_eof l_src l_pos]. exact H.
  - destruct H as (pre & sz & HR & HP).
    cbn [s_read_rune pure_stream]. unfold pure_read_rune.
    destruct (l_src l) as [|b t] eqn:Es.
    + unfold ppos. cbn [l_eof l_src l_pos]. split; [reflexivity|]. right.
      exists pre, (l_ch l), sz. rewrite runes_of_nil in HR. auto.
    + rewrite runes_of_cons in HR.
      destruct (decode_rune (b :: t)) as [r sz'] eqn:Ed. cbn [snd] in HR.
      unfold ppos. cbn [l_eof l_src l_pos l_ch].
      exists (pre ++ [(l_ch l, sz)]), sz'. split.
      * rewrite <- app_assoc. cbn [app]. exact HR.
      * rewrite pos_for_snoc. rewrite <- HP. reflexivity.
Qed.

Lemma init_ppos : ppos (init_lex pure_stream bs).
Proof.
  unfold ppos, init_lex, read_char. cbn [l_eof s_read_rune pure_stream l_src]. unfold pure_read_rune.
  destruct bs as [|b t].
  - cbn [l_eof l_src l_pos]. split; [reflexivity|]. left. split; reflexivity.
  - pose proof (runes_of_cons b t) as HR.
    destruct (decode_rune (b :: t)) as [r sz] eqn:Ed. cbn [snd] in HR.
    cbn [l_eof l_src l_pos l_ch].
    exists [], sz. split; [exact HR|]. cbn [N.eqb]. unfold pos_for. cbn. f_equal.
Qed.

Lemma iter_read_ppos : forall n l, ppos l -> ppos (iter_read pure_stream n l).
Proof. induction n as [|n IH]; intros l H; cbn [iter_read]; [exact H|]. apply IH, rc_ppos, H. Qed.

(* ---- what the invariant says about the recorded position ---- *)

(* offset = number of bytes the reader has consumed *)
Lemma ppos_off : forall l, ppos l ->
  length (l_src l) <= length bs /\ p_off (l_pos l) = N.of_nat (length bs - length (l_src l)).
Proof.
  intros l H. unfold ppos in H. destruct (l_eof l).
  - destruct H as [Hs [[Hb Hp]|(pre & r & sz & HR & HP)]]; rewrite Hs; cbn [length].
    + rewrite Hb, Hp. cbn. split; [lia|reflexivity].
    + pose proof (sumsz_runes_of bs) as HL. rewrite HR, sumsz_app in HL. cbn [sumsz fold_right snd] in HL.
      rewrite HP. unfold pos_for. cbn [p_off]. split; [lia|]. f_equal. lia.
  - destruct H as (pre & sz & HR & HP).
    pose proof (sumsz_runes_of bs) as HL. rewrite HR, sumsz_app in HL. cbn [sumsz fold_right snd] in HL.
    fold (sumsz (runes_of (l_src l))) in HL. rewrite sumsz_runes_of in HL.
    rewrite HP. unfold pos_for. cbn [p_off]. split; [lia|]. f_equal. lia.
Qed.

(* the recorded position is the specification's position of a rune of the input *)
Lemma ppos_real : forall l, ppos l -> bs <> [] ->
  pos_of_rune_end bs (p_off (l_pos l)) = Some (l_pos l) /\ (1 <= p_off (l_pos l))%N.
Proof.
  intros l H Hne. unfold ppos in H. destruct (l_eof l).
  - destruct H as [Hs [[Hb Hp]|(pre & r & sz & HR & HP)]]; [contradiction|].
    pose proof (rune_ending_at_split bs pre r sz [] HR) as F.
    pose proof (runes_of_sizes bs) as Hz. rewrite HR in Hz. apply Forall_app in Hz. destruct Hz as [_ Hz].
    inversion Hz as [|x xs H0 _ Ex]; subst. cbn [snd] in H0.
    rewrite HP. unfold pos_for at 1 3. cbn [p_off]. unfold pos_of_rune_end. rewrite F.
    split; [reflexivity|lia].
  - destruct H as (pre & sz & HR & HP).
    pose proof (rune_ending_at_split bs pre (l_ch l) sz _ HR) as F.
    pose proof (runes_of_sizes bs) as Hz. rewrite HR in Hz. apply Forall_app in Hz. destruct Hz as [_ Hz].
    inversion Hz as [|x xs H0 _ Ex]; subst. cbn [snd] in H0.
    rewrite HP. unfold pos_for at 1 3. cbn [p_off]. unfold pos_of_rune_end. rewrite F.
    split; [reflexivity|lia].
Qed.

(* not at end of input: the designated rune is the current character, and it starts at offset - size *)
Lemma ppos_cur : forall l, ppos l -> l_eof l = false ->
  exists start sz before,
    rune_ending_at bs (p_off (l_pos l)) = Some (start, l_ch l, sz, before) /\
    rune_starts_at bs start = Some (l_ch l, sz) /\
    p_off (l_pos l) = N.of_nat (start + sz) /\ 1 <= sz /\
    start + sz + length (l_src l) = length bs /\
    decode_rune (skipn start bs) = (l_ch l, sz).
Proof.
  intros l H E. unfold ppos in H. rewrite E in H. destruct H as (pre & sz & HR & HP).
  exists (sumsz pre), sz, (map fst pre).
  pose proof (runes_of_sizes bs) as Hz. rewrite HR in Hz. apply Forall_app in Hz. destruct Hz as [_ Hz].
  inversion Hz as [|x xs H0 _ Ex]; subst. cbn [snd] in H0.
  pose proof (sumsz_runes_of bs) as HL. rewrite HR, sumsz_app in HL. cbn [sumsz fold_right snd] in HL.
  fold (sumsz (runes_of (l_src l))) in HL. rewrite sumsz_runes_of in HL.
  rewrite HP. unfold pos_for. cbn [p_off].
  split; [exact (rune_ending_at_split bs pre _ sz _ HR)|].
  split; [exact (rune_starts_at_split bs pre _ sz _ HR)|].
  split; [reflexivity|]. split; [exact H0|]. split; [lia|exact (decode_at_split bs pre _ sz _ HR)].
Qed.


(* the full invariant: the reader's remaining bytes are a suffix of the input, and the position part *)
Definition pinv (l : plex) : Prop := (exists p, bs = p ++ l_src l) /\ ppos l.

Lemma rc_src_suffix : forall l : plex, exists q, l_src l = q ++ l_src (rc l).
Proof.
  intros l. destruct (rc_cases l) as [(_ & _ & _ & S1)|[(_ & Es & _ & _ & S1)|(_ & b & t & Es & _ & _ & S1)]]; rewrite S1.
  - exists []. reflexivity.
  - exists []. rewrite Es. reflexivity.
  - rewrite Es. exists (firstn (snd (decode_rune (b :: t))) (b :: t)). symmetry. apply firstn_skipn.
Qed.

Lemma rc_pinv : forall l, pinv l -> pinv (rc l).
Proof.
  intros l [[p Hp] H]. split; [|apply rc_ppos; exact H].
  destruct (rc_src_suffix l) as [q Hq]. exists (p ++ q). rewrite <- app_assoc, <- Hq. exact Hp.
Qed.

Lemma init_pinv : pinv (init_lex pure_stream bs).
Proof.
  split; [|apply init_ppos]. unfold init_lex.
  set (l0 := {| l_src := bs; l_ch := 0%N; l_pos := {| p_off := 0; p_line := 1; p_col := 0 |}; l_eof := false |}).
  destruct (rc_src_suffix l0) as [q Hq]. exists q. exact Hq.
Qed.

Lemma iter_read_pinv : forall n l, pinv l -> pinv (iter_read pure_stream n l).
Proof. induction n as [|n IH]; intros l H; cbn [iter_read]; [exact H|]. apply IH, rc_pinv, H. Qed.

Lemma pinv_off : forall l, pinv l ->
  length (l_src l) <= length bs /\ p_off (l_pos l) = N.of_nat (length bs - length (l_src l)).
Proof. intros l [_ H]. apply ppos_off; exact H. Qed.

Lemma pinv_real : forall l, pinv l -> bs <> [] ->
  pos_of_rune_end bs (p_off (l_pos l)) = Some (l_pos l) /\ (1 <= p_off (l_pos l))%N.
Proof. intros l [_ H]. apply ppos_real; exact H. Qed.

(* ... and the bytes from its start are its encoding followed by what the reader still holds *)
Lemma pinv_cur : forall l, pinv l -> l_eof l = false ->
  exists start sz before,
    rune_ending_at bs (p_off (l_pos l)) = Some (start, l_ch l, sz, before) /\
    rune_starts_at bs start = Some (l_ch l, sz) /\
    p_off (l_pos l) = N.of_nat (start + sz) /\ 1 <= sz /\
    start + sz + length (l_src l) = length bs /\
    decode_rune (skipn start bs) = (l_ch l, sz) /\
    skipn (start + sz) bs = l_src l.
Proof.
  intros l [[p Hp] H] E. destruct (ppos_cur l H E) as (start & sz & before & H1 & H2 & H3 & H4 & H5 & H6).
  exists start, sz, before. repeat (split; [assumption|]).
  assert (Hl : length p = start + sz) by (apply (f_equal (@length N)) in Hp; rewrite app_length in Hp; lia).
  rewrite Hp at 1. rewrite <- Hl. rewrite skipn_app, skipn_all, Nat.sub_diag. reflexivity.
Qed.

End WithInput.

(* ================= every scanner preserves the invariant ================= *)

Lemma bind_some : forall {A B : Type} (x : option A) (f : A -> option B) y,
  bind x f = Some y -> exists a, x = Some a /\ f a = Some y.
Proof. intros A B [a|] f y H; cbn [bind] in H; [exists a; auto|discriminate]. Qed.

Section LoopPres.
Context {A : Type} (P : A -> Prop).
Lemma loop_pres : forall body, (forall a, P a -> P (fst (body a))) ->
  forall fuel a a', loop fuel body a = Some a' -> P a -> P a'.
Proof.
  intros body Hb fuel. induction fuel as [|f IH]; intros a a' E Pa; cbn [loop] in E; [discriminate|].
  specialize (Hb a Pa). destruct (body a) as [a1 c]. cbn [fst] in Hb. destruct c.
  - exact (IH a1 a' E Hb).
  - inversion E; subst; exact Hb.
Qed.
Lemma loopo_pres : forall body, (forall a a1 c, P a -> body a = Some (a1, c) -> P a1) ->
  forall fuel a a', loopo fuel body a = Some a' -> P a -> P a'.
Proof.
  intros body Hb fuel. induction fuel as [|f IH]; intros a a' E Pa; cbn [loopo] in E; [discriminate|].
  destruct (body a) as [[a1 c]|] eqn:Eb; [|discriminate].
  pose proof (Hb a a1 c Pa Eb) as P1. destruct c.
  - exact (IH a1 a' E P1).
  - inversion E; subst; exact P1.
Qed.
End LoopPres.

Section Scanners.
Variable bs : list N.
Notation PI := (pinv bs).
Definition PI2 {B : Type} (st : plex * B) : Prop := PI (fst st).
Definition PI3 {B C : Type} (st : plex * B * C) : Prop := PI (fst (fst st)).

Hint Resolve rc_pinv iter_read_pinv : pinvdb.

Ltac pleaf := unfold PI2, PI3 in *; cbn [fst snd] in *; auto 8 with pinvdb.

Lemma take_while_pres : forall cond fuel st st', take_while pure_stream fuel cond st = Some st' -> PI2 st -> PI2 st'.
Proof.
  intros cond fuel st st'. unfold take_while. apply loop_pres.
  intros [l b] H. destruct (cond (l_ch l)); pleaf.
Qed.

Lemma skip_while_pres : forall cond fuel l l', skip_while pure_stream fuel cond l = Some l' -> PI l -> PI l'.
Proof.
  intros cond fuel l l'. unfold skip_while. apply loop_pres.
  intros l0 H. destruct (cond (l_ch l0)); pleaf.
Qed.

Lemma to_eol_pres : forall stop fuel st st', to_eol pure_stream fuel stop st = Some st' -> PI2 st -> PI2 st'.
Proof.
  intros stop fuel st st'. unfold to_eol. apply loop_pres.
  intros [l b] H. destruct (not_eol l && negb (stop && (l_ch l =? 59)%N)); pleaf.
Qed.

Lemma block_body_pres : forall st, PI3 st -> PI3 (fst (block_body pure_stream st)).
Proof.
  intros [[l b] n] H. unfold block_body.
  destruct (negb (l_eof l) && Nat.ltb 0 n); [|pleaf].
  split_ifs; pleaf.
Qed.

Lemma escape_switch_pres : forall bt l b, PI l -> PI (fst (fst (escape_switch pure_stream bt l b))).
Proof. intros bt l b H. unfold escape_switch. split_ifs; pleaf. Qed.

Lemma quoted_body_pres : forall q bt st, PI2 st -> PI2 (fst (quoted_body pure_stream q bt st)).
Proof.
  intros q bt [l b] H. unfold quoted_body.
  destruct (l_eof l); [pleaf|].
  destruct (l_ch l =? q)%N.
  - split_ifs; pleaf.
  - destruct (l_ch l =? 92)%N; [|pleaf].
    destruct (l_eof (rc l)); [pleaf|].
    assert (H1 : PI (rc l)) by pleaf.
    pose proof (escape_switch_pres bt (rc l) b H1) as H2.
    destruct (escape_switch pure_stream bt (rc l) b) as [[l2 b2] adv]. cbn [fst] in H2.
    destruct adv; pleaf.
Qed.

Lemma hex_string_body_pres : forall st, PI2 st -> PI2 (fst (hex_string_body pure_stream st)).
Proof. intros [l b] H. unfold hex_string_body. split_ifs; pleaf. Qed.
Lemma bin_string_body_pres : forall st, PI2 st -> PI2 (fst (bin_string_body pure_stream st)).
Proof. intros [l b] H. unfold bin_string_body. split_ifs; pleaf. Qed.
Lemma dquoted_body_pres : forall st, PI2 st -> PI2 (fst (dquoted_body pure_stream st)).
Proof. intros [l b] H. unfold dquoted_body. split_ifs; pleaf. Qed.

Lemma until_close_pres : forall close fuel st st', until_close pure_stream fuel close st = Some st' -> PI2 st -> PI2 st'.
Proof.
  intros close fuel st st'. unfold until_close. apply loop_pres.
  intros [l b] H. destruct (negb (l_eof l) && negb (l_ch l =? close)%N); pleaf.
Qed.

Lemma dollar_body_pres : forall closing st, PI2 st -> PI2 (fst (dollar_body pure_stream closing st)).
Proof.
  intros closing [l b] H. unfold dollar_body.
  destruct (l_eof l); [pleaf|].
  destruct (l_ch l =? 36)%N; [|pleaf].
  destruct (delim_match pure_stream 1 (tl closing) l) as [m l1] eqn:Em.
  pose proof (delim_match_st (tl closing) 1%nat l) as Hd. rewrite Em in Hd. cbn [snd] in Hd. subst l1.
  destruct m; pleaf.
Qed.

Lemma skip_underscores_pres : forall fuel l l', skip_underscores pure_stream fuel l = Some l' -> PI l -> PI l'.
Proof.
  intros fuel l l'. unfold skip_underscores. apply loop_pres.
  intros l0 H. split_ifs; pleaf.
Qed.

Lemma digits_us_pres : forall fuel st st', digits_us pure_stream fuel st = Some st' -> PI2 st -> PI2 st'.
Proof.
  intros fuel st st'. unfold digits_us. apply loopo_pres.
  intros [l b] a1 c H E. destruct (is_digit (l_ch l)).
  - destruct (skip_underscores pure_stream fuel (rc l)) as [l2|] eqn:E2; [|discriminate].
    inversion E; subst. unfold PI2 in *. cbn [fst] in *. eapply skip_underscores_pres; [exact E2|pleaf].
  - inversion E; subst. exact H.
Qed.

Lemma fraction_part_pres : forall fuel st st', fraction_part pure_stream fuel st = Some st' -> PI2 st -> PI2 st'.
Proof.
  intros fuel [l b] st' E H. unfold fraction_part in E.
  destruct (l_ch l =? 46)%N; [|inversion E; subst; exact H].
  revert E. peek_norm. intros E.
  destruct (is_digit pk || _).
  - eapply digits_us_pres; [exact E|pleaf].
  - inversion E; subst; exact H.
Qed.

Lemma exponent_part_pres : forall fuel st st', exponent_part pure_stream fuel st = Some st' -> PI2 st -> PI2 st'.
Proof.
  intros fuel [l b] st' E H. unfold exponent_part in E.
  destruct ((l_ch l =? 101)%N || (l_ch l =? 69)%N); [|inversion E; subst; exact H].
  destruct ((l_ch (rc l) =? 43)%N || (l_ch (rc l) =? 45)%N); (eapply digits_us_pres; [exact E|pleaf]).
Qed.

Lemma hex_tail_pres : forall fuel st st', hex_tail pure_stream fuel st = Some st' -> PI2 st -> PI2 st'.
Proof.
  intros fuel st st' E H. unfold hex_tail in E.
  apply bind_some in E. destruct E as ([l1 b1] & E1 & E).
  pose proof (take_while_pres _ _ _ _ E1 H) as H1.
  apply bind_some in E. destruct E as ([l2 b2] & E2 & E).
  assert (H2 : PI2 (l2, b2)).
  { destruct (l_ch l1 =? 46)%N.
    - eapply take_while_pres; [exact E2|pleaf].
    - inversion E2; subst; exact H1. }
  destruct ((l_ch l2 =? 112)%N || (l_ch l2 =? 80)%N); [|inversion E; subst; exact H2].
  destruct ((l_ch (rc l2) =? 43)%N || (l_ch (rc l2) =? 45)%N); (eapply take_while_pres; [exact E|pleaf]).
Qed.

Lemma us_digit_groups_pres : forall fuel st st', us_digit_groups pure_stream fuel st = Some st' -> PI2 st -> PI2 st'.
Proof.
  intros fuel st st'. unfold us_digit_groups. apply loopo_pres.
  intros [l b] a1 c H E. destruct (l_ch l =? 95)%N; [|inversion E; subst; exact H].
  revert E. peek_norm. intros E. destruct (is_digit pk).
  - destruct (take_while pure_stream fuel is_digit (rc l, b)) as [st2|] eqn:E2; [|discriminate].
    inversion E; subst. eapply take_while_pres; [exact E2|pleaf].
  - inversion E; subst; exact H.
Qed.

(* ---- scanners: the end state satisfies the invariant and the item records the entry position ---- *)

Definition scan_pos (l : plex) (r : option (item * plex)) : Prop :=
  forall it l', r = Some (it, l') -> PI l' /\ it_pos it = l_pos l.

Ltac scan_start :=
  intros it l' E; repeat (apply bind_some in E; destruct E as (?st & ?E & E)).

Lemma read_line_comment_pos : forall fuel l, PI l -> scan_pos l (read_line_comment pure_stream fuel l).
Proof.
  intros fuel l H it l' E. unfold read_line_comment in E.
  apply bind_some in E. destruct E as ([l1 b1] & E1 & E). inversion E; subst.
  split; [|reflexivity]. apply (to_eol_pres _ _ _ _ E1). pleaf.
Qed.

Lemma read_hash_comment_pos : forall fuel l, PI l -> scan_pos l (read_hash_comment pure_stream fuel l).
Proof.
  intros fuel l H it l' E. unfold read_hash_comment in E.
  apply bind_some in E. destruct E as ([l1 b1] & E1 & E). inversion E; subst.
  split; [|reflexivity]. apply (to_eol_pres _ _ _ _ E1). pleaf.
Qed.

Lemma read_unicode_minus_comment_pos : forall fuel l, PI l -> scan_pos l (read_unicode_minus_comment pure_stream fuel l).
Proof.
  intros fuel l H it l' E. unfold read_unicode_minus_comment in E.
  apply bind_some in E. destruct E as ([l1 b1] & E1 & E). inversion E; subst.
  split; [|reflexivity]. apply (to_eol_pres _ _ _ _ E1). pleaf.
Qed.

Lemma read_block_comment_pos : forall fuel l, PI l -> scan_pos l (read_block_comment pure_stream fuel l).
Proof.
  intros fuel l H it l' E. unfold read_block_comment in E.
  apply bind_some in E. destruct E as ([[l1 b1] n1] & E1 & E). inversion E; subst.
  split; [|reflexivity].
  apply (loop_pres PI3 _ block_body_pres _ _ _ E1). pleaf.
Qed.

Lemma read_string_pos : forall fuel l, PI l -> scan_pos l (read_string pure_stream fuel l).
Proof.
  intros fuel l H it l' E. unfold read_string in E.
  apply bind_some in E. destruct E as ([l1 b1] & E1 & E). inversion E; subst.
  split; [|reflexivity]. apply (loop_pres PI2 _ (quoted_body_pres _ _) _ _ _ E1). pleaf.
Qed.

Lemma read_backtick_identifier_pos : forall fuel l, PI l -> scan_pos l (read_backtick_identifier pure_stream fuel l).
Proof.
  intros fuel l H it l' E. unfold read_backtick_identifier in E.
  apply bind_some in E. destruct E as ([l1 b1] & E1 & E). inversion E; subst.
  split; [|reflexivity]. apply (loop_pres PI2 _ (quoted_body_pres _ _) _ _ _ E1). pleaf.
Qed.

Lemma read_hex_string_pos : forall fuel l, PI l -> scan_pos l (read_hex_string pure_stream fuel l).
Proof.
  intros fuel l H it l' E. unfold read_hex_string in E.
  apply bind_some in E. destruct E as ([l1 b1] & E1 & E). inversion E; subst.
  split; [|reflexivity]. apply (loop_pres PI2 _ hex_string_body_pres _ _ _ E1). pleaf.
Qed.

Lemma read_binary_string_pos : forall fuel l, PI l -> scan_pos l (read_binary_string pure_stream fuel l).
Proof.
  intros fuel l H it l' E. unfold read_binary_string in E.
  apply bind_some in E. destruct E as ([l1 b1] & E1 & E). inversion E; subst.
  split; [|reflexivity]. apply (loop_pres PI2 _ bin_string_body_pres _ _ _ E1). pleaf.
Qed.

Lemma read_quoted_identifier_pos : forall fuel l, PI l -> scan_pos l (read_quoted_identifier pure_stream fuel l).
Proof.
  intros fuel l H it l' E. unfold read_quoted_identifier in E.
  apply bind_some in E. destruct E as ([l1 b1] & E1 & E). inversion E; subst.
  split; [|reflexivity]. apply (loop_pres PI2 _ dquoted_body_pres _ _ _ E1). pleaf.
Qed.

Lemma read_unicode_string_pos : forall fuel l, PI l -> scan_pos l (read_unicode_string pure_stream fuel l).
Proof.
  intros fuel l H it l' E. unfold read_unicode_string in E.
  apply bind_some in E. destruct E as ([l1 b1] & E1 & E). inversion E; subst.
  split; [|reflexivity].
  assert (H1 : PI2 (l1, b1)) by (apply (until_close_pres _ _ _ _ E1); pleaf).
  destruct (l_ch l1 =? 8217)%N; pleaf.
Qed.

Lemma read_unicode_quoted_identifier_pos : forall fuel l, PI l -> scan_pos l (read_unicode_quoted_identifier pure_stream fuel l).
Proof.
  intros fuel l H it l' E. unfold read_unicode_quoted_identifier in E.
  apply bind_some in E. destruct E as ([l1 b1] & E1 & E). inversion E; subst.
  split; [|reflexivity].
  assert (H1 : PI2 (l1, b1)) by (apply (until_close_pres _ _ _ _ E1); pleaf).
  destruct (l_ch l1 =? 8221)%N; pleaf.
Qed.

Lemma read_parameter_pos : forall fuel l, PI l -> scan_pos l (read_parameter pure_stream fuel l).
Proof.
  intros fuel l H it l' E. unfold read_parameter in E.
  apply bind_some in E. destruct E as ([l1 b1] & E1 & E). inversion E; subst.
  split; [|reflexivity].
  assert (H1 : PI2 (l1, b1)) by (apply (until_close_pres _ _ _ _ E1); pleaf).
  destruct (l_ch l1 =? 125)%N; pleaf.
Qed.

Lemma read_dollar_quoted_string_pos : forall fuel tag l, PI l -> scan_pos l (read_dollar_quoted_string pure_stream fuel tag l).
Proof.
  intros fuel tag l H it l' E. unfold read_dollar_quoted_string in E.
  apply bind_some in E. destruct E as ([l1 b1] & E1 & E). inversion E; subst.
  split; [|reflexivity].
  apply (loop_pres PI2 _ (dollar_body_pres _) _ _ _ E1). destruct tag; pleaf.
Qed.

Lemma read_dollar_identifier_pos : forall fuel l, PI l -> scan_pos l (read_dollar_identifier pure_stream fuel l).
Proof.
  intros fuel l H it l' E. unfold read_dollar_identifier in E.
  apply bind_some in E. destruct E as ([l1 b1] & E1 & E). inversion E; subst.
  split; [|reflexivity]. apply (take_while_pres _ _ _ _ E1). pleaf.
Qed.

(* numbers *)
Lemma num_item_pos : forall pos (st : plex * sb) it l', num_item pos st = Some (it, l') -> l' = fst st /\ it_pos it = pos /\ it_tok it = T_NUMBER.
Proof. intros pos [l b] it l' E. inversion E; subst. auto. Qed.
Lemma ident_item_pos : forall pos (st : plex * sb) it l', ident_item pos st = Some (it, l') -> l' = fst st /\ it_pos it = pos /\ it_tok it = T_IDENT.
Proof. intros pos [l b] it l' E. inversion E; subst. auto. Qed.

Lemma number_general_pos : forall fuel pos st it l', number_general pure_stream fuel pos st = Some (it, l') -> PI2 st ->
  PI l' /\ it_pos it = pos.
Proof.
  intros fuel pos st it l' E H. unfold number_general in E.
  apply bind_some in E. destruct E as (st1 & E1 & E).
  apply bind_some in E. destruct E as (st2 & E2 & E).
  apply bind_some in E. destruct E as (st3 & E3 & E).
  apply num_item_pos in E. destruct E as (El & Ep & _). subst l'. split; [|exact Ep].
  apply (exponent_part_pres _ _ _ E3), (fraction_part_pres _ _ _ E2), (digits_us_pres _ _ _ E1), H.
Qed.

Lemma read_number_pos : forall fuel l, PI l -> scan_pos l (read_number pure_stream fuel l).
Proof.
  intros fuel l H it l' E. unfold read_number in E.
  set (st0 := if (l_ch l =? 46)%N then (rc l, wr (l_ch l) []) else (l, [])) in E.
  assert (H0 : PI (fst st0)) by (unfold st0; destruct (l_ch l =? 46)%N; pleaf).
  destruct (l_ch (fst st0) =? 48)%N.
  - destruct ((l_ch (rc (fst st0)) =? 120)%N || (l_ch (rc (fst st0)) =? 88)%N).
    { apply bind_some in E. destruct E as (st1 & E1 & E). apply num_item_pos in E. destruct E as (El & Ep & _). subst l'.
      split; [|exact Ep]. apply (hex_tail_pres _ _ _ E1). pleaf. }
    destruct ((l_ch (rc (fst st0)) =? 98)%N || (l_ch (rc (fst st0)) =? 66)%N).
    { apply bind_some in E. destruct E as (st1 & E1 & E). apply num_item_pos in E. destruct E as (El & Ep & _). subst l'.
      split; [|exact Ep]. apply (take_while_pres _ _ _ _ E1). pleaf. }
    destruct ((l_ch (rc (fst st0)) =? 111)%N || (l_ch (rc (fst st0)) =? 79)%N).
    { apply bind_some in E. destruct E as (st1 & E1 & E). apply num_item_pos in E. destruct E as (El & Ep & _). subst l'.
      split; [|exact Ep]. apply (take_while_pres _ _ _ _ E1). pleaf. }
    apply number_general_pos in E; [exact E|pleaf].
  - apply number_general_pos in E; [exact E|pleaf].
Qed.

Lemma number_rest_pos : forall fuel pos sc st it l', number_rest pure_stream fuel pos sc st = Some (it, l') -> PI2 st ->
  PI l' /\ it_pos it = pos /\ it_tok it = T_NUMBER.
Proof.
  intros fuel pos sc st it l' E H. unfold number_rest in E.
  apply bind_some in E. destruct E as (st1 & E1 & E).
  apply bind_some in E. destruct E as (st2 & E2 & E).
  apply bind_some in E. destruct E as ([l3 b3] & E3 & E).
  assert (H3 : PI2 (l3, b3)).
  { apply (exponent_part_pres _ _ _ E3), (fraction_part_pres _ _ _ E2), (us_digit_groups_pres _ _ _ E1), H. }
  cbn [fst snd] in E.
  apply bind_some in E. destruct E as ([l4 b4] & E4 & E).
  assert (H4 : PI2 (l4, b4)).
  { pose proof (peek_char_st l3) as Hp.
    destruct (bytes_eqb (sb_str b3) [48%N] && ((l_ch l3 =? 120)%N || (l_ch l3 =? 88)%N)).
    { apply (hex_tail_pres _ _ _ E4). pleaf. }
    destruct (bytes_eqb (sb_str b3) [48%N] && ((l_ch l3 =? 98)%N || (l_ch l3 =? 66)%N)); [|inversion E4; subst; exact H3].
    rewrite Hp in E4.
    destruct ((fst (peek_char pure_stream l3) =? 48)%N || (fst (peek_char pure_stream l3) =? 49)%N); [|inversion E4; subst; exact H3].
    apply (take_while_pres _ _ _ _ E4). pleaf. }
  cbn [fst snd] in E.
  apply bind_some in E. destruct E as (st5 & E5 & E).
  apply num_item_pos in E. destruct E as (El & Ep & Et). subst l'. split; [|auto].
  destruct ((sc =? 48)%N && Nat.eqb (length b4) 1 && ((l_ch l4 =? 111)%N || (l_ch l4 =? 79)%N)); [|inversion E5; subst; exact H4].
  apply (take_while_pres _ _ _ _ E5). pleaf.
Qed.

Lemma read_number_or_ident_pos : forall fuel l, PI l -> scan_pos l (read_number_or_ident pure_stream fuel l).
Proof.
  intros fuel l H it l' E. unfold read_number_or_ident in E.
  apply bind_some in E. destruct E as ([l1 b1] & E1 & E).
  assert (H1 : PI l1) by (apply (take_while_pres _ _ _ _ E1); pleaf).
  cbn [fst snd] in E.
  pose proof (peek_char_st l1) as Hp.
  assert (Hl2 : forall c : bool, (if c then l1 else l1) = l1) by (intros []; reflexivity).
  repeat first [rewrite Hp in E | rewrite Hl2 in E].
  destruct ((l_ch l1 =? 95)%N && _).
  - apply bind_some in E. destruct E as (st2 & E2 & E). apply ident_item_pos in E. destruct E as (El & Ep & _). subst l'.
    split; [|exact Ep]. apply (take_while_pres _ _ _ _ E2). pleaf.
  - destruct (is_letter (l_ch l1) && _ && _).
    + apply bind_some in E. destruct E as (st2 & E2 & E). apply ident_item_pos in E. destruct E as (El & Ep & _). subst l'.
      split; [|exact Ep]. apply (take_while_pres _ _ _ _ E2). pleaf.
    + apply number_rest_pos in E; [|pleaf]. destruct E as (? & ? & _). auto.
Qed.

Lemma take_ident_runes_pres : forall fuel st st', take_ident_runes pure_stream fuel st = Some st' -> PI2 st -> PI2 st'.
Proof.
  intros fuel st st'. unfold take_ident_runes. apply loop_pres.
  intros [l b] H. destruct (is_ident_char (l_ch l)); pleaf.
Qed.

(* ---- NextToken: which state's position the item records ---- *)

(* The item records l_pos of a state ls between the token's first state l and its end state l'; the
   rune ls designates is consumed by the token (strictly, unless ls is already at end of input); and
   unless the token is a STRING, ls is the token's first state. *)
Definition npos (l : plex) (r : option (item * plex)) : Prop :=
  forall it l', r = Some (it, l') ->
    PI l' /\
    exists ls, it_pos it = l_pos ls /\ PI ls /\ le_st l ls /\ le_st ls l' /\
               (l_eof ls = false -> lt_st ls l') /\ (it_tok it <> T_STRING -> ls = l).

Lemma npos_of_scan : forall l r, PI l -> wf l -> tok_lt l r -> scan_pos l r -> npos l r.
Proof.
  intros l r H W (it0 & l0 & E0 & Ht & Hlt) Hs it l' E. rewrite E in E0. inversion E0; subst it0 l0.
  destruct (Hs it l' E) as [P' Hp]. split; [exact P'|].
  exists l. split; [exact Hp|]. split; [exact H|]. split; [apply le_refl; exact W|].
  split; [apply lt_le; exact Hlt|]. split; [intros _; exact Hlt|reflexivity].
Qed.

Lemma read_hex_string_le : forall fuel (l : plex), wf l -> mu l < fuel -> tok_le l (read_hex_string pure_stream fuel l).
Proof.
  intros fuel l W Hm. unfold read_hex_string.
  destruct (loop2_total (hex_string_body pure_stream) hex_string_body_ok fuel (rc l, [])) as ([l' b'] & E' & W' & H'); cbn [fst] in *; [leaf|leaf|].
  rewrite E'. cbn [bind]. finish_tok. leaf.
Qed.
Lemma read_binary_string_le : forall fuel (l : plex), wf l -> mu l < fuel -> tok_le l (read_binary_string pure_stream fuel l).
Proof.
  intros fuel l W Hm. unfold read_binary_string.
  destruct (loop2_total (bin_string_body pure_stream) bin_string_body_ok fuel (rc l, [])) as ([l' b'] & E' & W' & H'); cbn [fst] in *; [leaf|leaf|].
  rewrite E'. cbn [bind]. finish_tok. leaf.
Qed.
Lemma read_hex_string_tok : forall fuel (l : plex) it l', read_hex_string pure_stream fuel l = Some (it, l') -> it_tok it = T_STRING.
Proof. intros fuel l it l' E. unfold read_hex_string in E. apply bind_some in E. destruct E as ([l1 b1] & _ & E). inversion E; reflexivity. Qed.
Lemma read_binary_string_tok : forall fuel (l : plex) it l', read_binary_string pure_stream fuel l = Some (it, l') -> it_tok it = T_STRING.
Proof. intros fuel l it l' E. unfold read_binary_string in E. apply bind_some in E. destruct E as ([l1 b1] & _ & E). inversion E; reflexivity. Qed.

(* a scanner entered at a LATER state ls (after a prefix was skipped), recording l_pos ls, producing a STRING *)
Lemma npos_later : forall l ls r,
  wf l -> le_st l ls -> PI ls ->
  tok_le ls r -> (l_eof ls = false -> tok_lt ls r) -> scan_pos ls r ->
  (forall it l', r = Some (it, l') -> it_tok it = T_STRING) ->
  npos l r.
Proof.
  intros l ls r W Hle Hs (it0 & l0 & E0 & Ht & Hle') Hlt Hsc Htok it l' E.
  rewrite E in E0. inversion E0; subst it0 l0.
  destruct (Hsc it l' E) as [P' Hp]. split; [exact P'|].
  exists ls. split; [exact Hp|]. split; [exact Hs|]. split; [exact Hle|]. split; [exact Hle'|].
  split.
  - intros Ene. destruct (Hlt Ene) as (it1 & l1 & E1 & _ & H1). rewrite E in E1. inversion E1; subst. exact H1.
  - intros Hn. exfalso. apply Hn. exact (Htok it l' E).
Qed.

Lemma read_identifier_npos : forall fuel (l : plex), wf l -> PI l -> is_ident_start (l_ch l) = true -> mu l < fuel ->
  npos l (read_identifier pure_stream fuel l).
Proof.
  intros fuel l W H C Hm.
  pose proof (read_identifier_ok fuel l W C Hm) as Hok.
  unfold read_identifier in *.
  pose proof (peek_char_st l) as Hp.
  assert (Hl : forall c : bool, snd (if c then peek_char pure_stream l else (0%N, l)) = l) by (intros []; [exact Hp|reflexivity]).
  set (cnd := ((l_ch l =? 120)%N || (l_ch l =? 88)%N || (l_ch l =? 98)%N || (l_ch l =? 66)%N)) in *.
  destruct (if cnd then peek_char pure_stream l else (0%N, l)) as [pk l0] eqn:EX.
  assert (Hl0 : l0 = l) by (pose proof (Hl cnd) as H0; rewrite EX in H0; exact H0).
  subst l0.
  assert (W1 : wf (rc l)) by apply rc_wf.
  assert (Hm1 : mu (rc l) < fuel) by (pose proof (rc_mu_le l); lia).
  destruct (((l_ch l =? 120)%N || (l_ch l =? 88)%N) && (pk =? 39)%N).
  { apply npos_later with (ls := rc l); [exact W|apply le_rc|pleaf| | | |].
    - apply read_hex_string_le; assumption.
    - intros Ene. apply read_hex_string_ok; assumption.
    - apply read_hex_string_pos. pleaf.
    - apply read_hex_string_tok. }
  destruct (((l_ch l =? 98)%N || (l_ch l =? 66)%N) && (pk =? 39)%N).
  { apply npos_later with (ls := rc l); [exact W|apply le_rc|pleaf| | | |].
    - apply read_binary_string_le; assumption.
    - intros Ene. apply read_binary_string_ok; assumption.
    - apply read_binary_string_pos. pleaf.
    - apply read_binary_string_tok. }
  apply npos_of_scan; [exact H|exact W|exact Hok|].
  intros it l' E. apply bind_some in E. destruct E as ([l1 rs] & E1 & E). inversion E; subst.
  split; [|reflexivity]. apply (take_ident_runes_pres _ _ _ E1). pleaf.
Qed.

(* tryReadDollarTag either leaves the state alone and returns "", or returns a non-empty tag after
   reading the `$`, len(tag) more characters, and one more *)
Lemma encode_rune_len : forall r, 1 <= length (encode_rune r).
Proof. intros r. unfold encode_rune. repeat match goal with |- context [if ?c then _ else _] => destruct c end; cbn [length]; lia. Qed.

Lemma wr_length : forall r b, length (wr r b) = length (encode_rune r) + length b.
Proof. intros r b. unfold wr. rewrite rev_append_rev, app_length, rev_length. reflexivity. Qed.

Lemma scan_tag_grows : forall f bs0 tag, length tag <= length (fst (scan_tag f bs0 tag)).
Proof.
  induction f as [|f IH]; intros bs0 tag; cbn [scan_tag]; [cbn; lia|].
  destruct bs0 as [|b t]; [cbn; lia|].
  destruct (decode_rune (b :: t)) as [r sz].
  destruct (is_letter r || is_digit r || (r =? 95)%N); [|cbn; lia].
  eapply Nat.le_trans; [|apply IH]. rewrite wr_length. lia.
Qed.

Lemma try_read_dollar_tag_shape : forall (l : plex),
  try_read_dollar_tag pure_stream l = ([], l) \/
  exists tag n, tag <> [] /\ try_read_dollar_tag pure_stream l = (tag, rc (iter_read pure_stream n (rc l))).
Proof.
  intros l. unfold try_read_dollar_tag. cbn [s_peek pure_stream]. unfold pure_peek.
  assert (Hs : set_src l (l_src l) = l) by (destruct l; reflexivity). rewrite Hs.
  destruct (firstn (Nat.min 8192 bufio_size) (l_src l)) as [|b0 bs0]; [left; reflexivity|].
  destruct (decode_rune (b0 :: bs0)) as [r sz].
  destruct (negb (is_letter r) && negb (r =? 95)%N); [left; reflexivity|].
  pose proof (scan_tag_grows (length (b0 :: bs0)) (skipn sz (b0 :: bs0)) (wr r [])) as Hg.
  destruct (scan_tag (length (b0 :: bs0)) (skipn sz (b0 :: bs0)) (wr r [])) as [tagr rest].
  destruct rest as [|c0 rest0]; [left; reflexivity|].
  destruct (decode_rune (c0 :: rest0)) as [r2 sz2].
  destruct (negb (r2 =? 36)%N); [left; reflexivity|].
  destruct (find_sub _ _); [|left; reflexivity].
  right. exists (sb_str tagr), (length (sb_str tagr)). split; [|reflexivity].
  cbn [fst] in Hg. rewrite wr_length in Hg. pose proof (encode_rune_len r) as Hr.
  unfold sb_str, frev. intros Hn. apply (f_equal (@length N)) in Hn.
  rewrite rev_append_rev, app_length, rev_length in Hn. cbn [length] in Hn. lia.
Qed.

Lemma read_dollar_quoted_string_tag_lt : forall fuel t0 tag (l : plex), wf l -> l_eof l = false -> mu l < fuel ->
  tok_lt l (read_dollar_quoted_string pure_stream fuel (t0 :: tag) l).
Proof.
  intros fuel t0 tag l W E Hm. unfold read_dollar_quoted_string.
  set (closing := (36%N :: (t0 :: tag) ++ [36%N])).
  destruct fuel as [|f]; [lia|]. cbn [loop]. unfold dollar_body at 1. rewrite E.
  assert (Hcont : forall b0, exists st', loop f (dollar_body pure_stream closing) (rc l, b0) = Some st' /\ lt_st l (fst st')).
  { intros b0. destruct (loop2_total (dollar_body pure_stream closing) (dollar_body_ok _) f (rc l, b0)) as (st' & E' & H'); cbn [fst].
    - apply rc_wf.
    - pose proof (rc_mu_lt l E). lia.
    - exists st'. split; [exact E'|]. eapply lt_le_trans; [apply lt_rc; exact E|exact H']. }
  destruct (l_ch l =? 36)%N.
  - destruct (delim_match pure_stream 1 (tl closing) l) as [m l1] eqn:Em.
    pose proof (delim_match_st (tl closing) 1%nat l) as Hd. rewrite Em in Hd. cbn [snd] in Hd. subst l1.
    destruct m.
    + cbn [bind]. finish_tok. unfold closing. cbn [length iter_read].
      eapply lt_le_trans; [apply lt_rc; exact E|]. apply iter_read_le. apply rc_wf.
    + destruct (Hcont (wr (l_ch l) [])) as ([l' b'] & E' & H'). rewrite E'. cbn [bind]. finish_tok. exact H'.
  - destruct (Hcont (wr (l_ch l) [])) as ([l' b'] & E' & H'). rewrite E'. cbn [bind]. finish_tok. exact H'.
Qed.

Lemma read_dollar_quoted_string_tok : forall fuel tag (l : plex) it l',
  read_dollar_quoted_string pure_stream fuel tag l = Some (it, l') -> it_tok it = T_STRING.
Proof. intros fuel tag l it l' E. unfold read_dollar_quoted_string in E. apply bind_some in E. destruct E as ([l1 b1] & _ & E). inversion E; reflexivity. Qed.

Ltac np_simple :=
  repeat match goal with
         | |- npos _ (if ?c then _ else _) => destruct c
         end;
  (apply npos_of_scan;
  [ assumption | assumption | unfold simple; finish_tok; leaf
  | let it := fresh "it" in let l' := fresh "l'" in let E0 := fresh "E0" in
    intros it l' E0; unfold simple in E0; inversion E0; subst; split; [pleaf|reflexivity] ]).

Ltac ndispatch tac :=
  match goal with
  | |- npos _ (if ?c then _ else _) => let C := fresh "C" in destruct c eqn:C; [tac|]
  end.

Ltac np_scan ok ps :=
  apply npos_of_scan; [assumption|assumption|apply ok; assumption|apply ps; assumption].

Lemma next_token_not_end_npos : forall fuel (l : plex), wf l -> l_eof l = false -> l_ch l <> 0%N ->
  is_ws (l_ch l) = false -> mu l < fuel -> PI l ->
  npos l (next_token pure_stream fuel l).
Proof.
  intros fuel l W E Hnz Hws Hm H. unfold next_token.
  assert (Hsk : skip_whitespace pure_stream fuel l = Some l).
  { destruct fuel as [|f]; [lia|]. unfold skip_whitespace, skip_while. cbn [loop]. rewrite Hws. reflexivity. }
  rewrite Hsk. cbn [bind]. rewrite E. cbn [orb].
  destruct (l_ch l =? 0)%N eqn:Cz; [apply N.eqb_eq in Cz; contradiction|].
  pose proof (peek_char_st l) as Hp.
  match goal with |- context [if ?c then peek_char pure_stream l else (0%N, l)] => set (np := c) end.
  destruct (if np then peek_char pure_stream l else (0%N, l)) as [pk l0] eqn:EX.
  assert (Hl0 : l0 = l).
  { destruct np; [rewrite EX in Hp; exact Hp|inversion EX; reflexivity]. }
  subst l0. clear EX np.
  ndispatch ltac:(np_scan read_line_comment_ok read_line_comment_pos).
  ndispatch ltac:(np_scan read_hash_comment_ok read_hash_comment_pos).
  ndispatch ltac:(np_scan read_block_comment_ok read_block_comment_pos).
  ndispatch ltac:(np_scan read_unicode_minus_comment_ok read_unicode_minus_comment_pos).
  ndispatch np_simple. (* + *)
  ndispatch np_simple. (* - *)
  ndispatch np_simple. (* * *)
  ndispatch np_simple. (* / *)
  ndispatch np_simple. (* % *)
  ndispatch np_simple. (* = *)
  ndispatch np_simple. (* ! *)
  ndispatch np_simple. (* < *)
  ndispatch np_simple. (* > *)
  ndispatch np_simple. (* | *)
  ndispatch np_simple. (* : *)
  ndispatch np_simple. (* ( *)
  ndispatch np_simple. (* ) *)
  ndispatch np_simple. (* [ *)
  ndispatch np_simple. (* ] *)
  ndispatch ltac:(np_scan read_parameter_ok read_parameter_pos).
  ndispatch np_simple. (* } *)
  ndispatch np_simple. (* , *)
  (* . *)
  ndispatch ltac:(idtac).
  { destruct (is_digit pk); [|np_simple].
    destruct (is_identifier_after_dot pure_stream l) as [idp l1] eqn:Ei.
    pose proof (is_identifier_after_dot_st l) as Hi. rewrite Ei in Hi. cbn [snd] in Hi. subst l1.
    destruct idp; [np_simple|].
    apply npos_of_scan; [assumption|assumption| |apply read_number_pos; assumption].
    apply read_number_ok; try assumption. apply N.eqb_eq; assumption. }
  ndispatch np_simple. (* ; *)
  ndispatch np_simple. (* ? *)
  ndispatch np_simple. (* ^ *)
  (* $ *)
  ndispatch ltac:(idtac).
  { destruct (pk =? 36)%N.
    { apply npos_of_scan; [assumption|assumption|apply read_dollar_quoted_string_empty_lt; assumption|apply read_dollar_quoted_string_pos; assumption]. }
    destruct (try_read_dollar_tag_shape l) as [Ht|(tag & n & Hne & Ht)]; rewrite Ht.
    - np_scan read_dollar_identifier_ok read_dollar_identifier_pos.
    - destruct tag as [|t0 tag]; [contradiction|].
      set (l1 := rc (iter_read pure_stream n (rc l))).
      assert (Hle1 : le_st l l1).
      { unfold l1. eapply le_trans; [apply le_rc|]. eapply le_trans; [apply iter_read_le; apply rc_wf|apply le_rc]. }
      assert (W1 : wf l1) by apply Hle1.
      assert (Hm1 : mu l1 < fuel) by (destruct Hle1; lia).
      apply npos_later with (ls := l1); [exact W|exact Hle1|unfold l1; pleaf| | | |].
      + apply read_dollar_quoted_string_le; assumption.
      + intros Ene. apply read_dollar_quoted_string_tag_lt; assumption.
      + apply read_dollar_quoted_string_pos. unfold l1; pleaf.
      + apply read_dollar_quoted_string_tok. }
  ndispatch ltac:(np_scan read_string_ok read_string_pos).
  ndispatch ltac:(np_scan read_unicode_string_ok read_unicode_string_pos).
  ndispatch ltac:(np_scan read_quoted_identifier_ok read_quoted_identifier_pos).
  ndispatch ltac:(np_scan read_unicode_quoted_identifier_ok read_unicode_quoted_identifier_pos).
  ndispatch ltac:(np_scan read_backtick_identifier_ok read_backtick_identifier_pos).
  (* @ *)
  ndispatch ltac:(idtac).
  { destruct (pk =? 64)%N; [|np_simple].
    destruct (is_ident_start (l_ch (rc (rc l))) || is_digit (l_ch (rc (rc l)))); [|np_simple].
    apply npos_of_scan; [assumption|assumption| |].
    - destruct (take_while_total is_ident_char is_ident_char_class0 fuel (rc (rc l), [64%N; 64%N])) as ([l3 b3] & E3 & W3 & H3);
        cbn [fst] in *; [leaf|leaf|].
      rewrite E3. cbn [bind]. unfold simple. finish_tok. leaf.
    - intros it l' E0. apply bind_some in E0. destruct E0 as ([l3 b3] & E3 & E0).
      unfold simple in E0. inversion E0; subst. split; [|reflexivity].
      apply (take_while_pres _ _ _ _ E3). pleaf. }
  ndispatch ltac:(np_scan read_number_or_ident_ok read_number_or_ident_pos).
  ndispatch ltac:(apply read_identifier_npos; assumption).
  np_simple.
Qed.

End Scanners.

(* ================= the token's value as source text (C13 c, value part) ================= *)

(* u is the unread source at state l, starting with the bytes of the current character *)
Definition at_src (l : plex) (u : list N) : Prop :=
  if l_eof l then u = []
  else exists sz, decode_rune u = (l_ch l, sz) /\ skipn sz u = l_src l /\ u <> [].

Lemma at_src_rc : forall l : plex, l_eof l = false -> at_src (rc l) (l_src l).
Proof.
  intros l E. unfold at_src.
  destruct (rc_cases l) as [(E0 & _)|[(_ & Es & E1 & _ & S1)|(_ & b & t & Es & E1 & C1 & S1)]].
  - rewrite E in E0; discriminate.
  - rewrite E1. exact Es.
  - rewrite E1. exists (snd (decode_rune (b :: t))). rewrite Es, C1, S1.
    split; [apply surjective_pairing|]. split; [reflexivity|discriminate].
Qed.

Lemma at_src_ascii : forall (l : plex) u, at_src l u -> l_eof l = false -> (l_ch l < 128)%N -> u = l_ch l :: l_src l.
Proof.
  intros l u H E C. unfold at_src in H. rewrite E in H. destruct H as (sz & Hd & Hs & Hn).
  destruct u as [|b t]; [contradiction|].
  destruct (decode_ascii_inv b t _ _ Hd C) as [Hb Hz]. subst sz. cbn [skipn] in Hs. rewrite Hb, Hs. reflexivity.
Qed.

Lemma at_src_valid : forall (l : plex) u, at_src l u -> l_eof l = false -> l_ch l <> rune_error ->
  u = encode_rune (l_ch l) ++ l_src l.
Proof.
  intros l u H E C. unfold at_src in H. rewrite E in H. destruct H as (sz & Hd & Hs & Hn).
  destruct u as [|b t]; [contradiction|].
  rewrite <- (decode_encode b t _ _ Hd C), <- Hs. symmetry. apply firstn_skipn.
Qed.

Lemma peek_ascii : forall (l : plex) c, fst (peek_char pure_stream l) = c -> c <> 0%N -> (c < 128)%N ->
  exists t, l_src l = c :: t.
Proof.
  intros l c H Hz Hc. unfold peek_char in H. destruct (l_eof l); [cbn in H; congruence|].
  cbn [s_peek pure_stream] in H. unfold pure_peek in H.
  destruct (l_src l) as [|b t]; [cbn in H; congruence|].
  replace (firstn (Nat.min 1 bufio_size) (b :: t)) with [b] in H by reflexivity.
  cbn [fst] in H. destruct (decode_rune [b]) as [r sz] eqn:Ed. cbn [fst] in H. subst r.
  destruct (decode_ascii_inv b [] c sz Ed Hc) as [Hb _]. exists t. rewrite Hb. reflexivity.
Qed.

Lemma pk_src : forall (l : plex) pk c, pk = 0%N \/ pk = fst (peek_char pure_stream l) -> (pk =? c)%N = true ->
  c <> 0%N -> (c < 128)%N -> exists t, l_src l = c :: t.
Proof.
  intros l pk c Hpk C Hz Hc. apply N.eqb_eq in C. subst c.
  destruct Hpk as [H0|H1]; [contradiction|]. apply peek_ascii; [symmetry; exact H1|exact Hz|exact Hc].
Qed.

Lemma rc_ch_ascii : forall (l : plex) c, l_eof l = false -> l_ch (rc l) = c -> c <> 0%N -> (c < 128)%N ->
  l_src l = c :: l_src (rc l) /\ l_eof (rc l) = false.
Proof.
  intros l c E Hc Hz Hlt.
  assert (E1 : l_eof (rc l) = false).
  { destruct (l_eof (rc l)) eqn:E1; [|reflexivity]. pose proof (rc_wf l E1) as H0. congruence. }
  split; [|exact E1]. rewrite <- Hc. apply at_src_ascii; [apply at_src_rc; exact E|exact E1|rewrite Hc; exact Hlt].
Qed.

Lemma rc_after_ascii : forall (l : plex) c t, l_eof l = false -> l_src l = c :: t -> (c <? 128)%N = true ->
  l_ch (rc l) = c /\ l_src (rc l) = t /\ l_eof (rc l) = false.
Proof.
  intros l c t E Hs Hc.
  destruct (rc_cases l) as [(E0 & _)|[(_ & Es & _)|(_ & b & t' & Es & E1 & C1 & S1)]].
  - rewrite E in E0; discriminate.
  - rewrite Hs in Es; discriminate.
  - rewrite Hs in Es. inversion Es; subst b t'. cbn [decode_rune] in C1, S1. rewrite Hc in C1, S1. cbn in C1, S1. auto.
Qed.

Lemma sb_str_wr : forall r b, sb_str (wr r b) = sb_str b ++ encode_rune r.
Proof.
  intros r b. unfold sb_str, frev, wr. rewrite !rev_append_rev, !app_nil_r, rev_app_distr, rev_involutive. reflexivity.
Qed.

Lemma frev_rev : forall {A : Type} (l : list A), frev l = rev l.
Proof. intros A l. unfold frev. rewrite rev_append_rev, app_nil_r. reflexivity. Qed.

Lemma bytes_prefix_app : forall p s, bytes_prefix p (p ++ s) = true.
Proof. induction p as [|x p IH]; intros s; cbn [bytes_prefix app]; [reflexivity|]. rewrite N.eqb_refl, IH. reflexivity. Qed.

(* the invariant of the loops that copy characters into the builder: builder ++ unread source = K *)
Definition J (K : list N) (st : plex * sb) : Prop :=
  wf (fst st) /\ exists u, at_src (fst st) u /\ sb_str (snd st) ++ u = K.

Lemma J_init : forall (l : plex) u, wf l -> at_src l u -> J u (l, []).
Proof. intros l u W H. split; [exact W|]. exists u. split; [exact H|reflexivity]. Qed.

Lemma J_step : forall K (l : plex) b, J K (l, b) -> l_eof l = false -> l_ch l <> rune_error -> J K (rc l, wr (l_ch l) b).
Proof.
  intros K l b (W & u & Hu & HK) E Hv. unfold J. cbn [fst snd] in *. split; [apply rc_wf|].
  exists (l_src l). split; [apply at_src_rc; exact E|].
  rewrite sb_str_wr, <- app_assoc, <- (at_src_valid l u Hu E Hv). exact HK.
Qed.

Lemma J_prefix : forall K (l : plex) b, J K (l, b) -> bytes_prefix (sb_str b) K = true.
Proof. intros K l b (_ & u & _ & HK). cbn [snd] in HK. rewrite <- HK. apply bytes_prefix_app. Qed.

Lemma take_while_text : forall cond, class0 cond -> cond rune_error = false ->
  forall fuel st st' K, take_while pure_stream fuel cond st = Some st' -> J K st -> J K st'.
Proof.
  intros cond C0 Cv fuel st st' K. unfold take_while. apply loop_pres.
  intros [l b] HJ. destruct (cond (l_ch l)) eqn:C; cbn [fst]; [|exact HJ].
  apply J_step; [exact HJ|apply (cond_not_eof cond l C0 (proj1 HJ) C)|intros Hr; rewrite Hr in C; congruence].
Qed.

Definition J' (K : list N) (st : plex * list N) : Prop :=
  wf (fst st) /\ exists u, at_src (fst st) u /\ flat_map encode_rune (rev (snd st)) ++ u = K.

Lemma take_ident_runes_text : forall fuel st st' K, take_ident_runes pure_stream fuel st = Some st' -> J' K st -> J' K st'.
Proof.
  intros fuel st st' K. unfold take_ident_runes. apply loop_pres.
  intros [l rs] HJ. destruct (is_ident_char (l_ch l)) eqn:C; cbn [fst]; [|exact HJ].
  destruct HJ as (W & u & Hu & HK). cbn [fst snd] in *.
  pose proof (cond_not_eof is_ident_char l is_ident_char_class0 W C) as E.
  assert (Hv : l_ch l <> rune_error) by (intros Hr; rewrite Hr in C; vm_compute in C; discriminate).
  unfold J'. cbn [fst snd]. split; [apply rc_wf|]. exists (l_src l). split; [apply at_src_rc; exact E|].
  cbn [rev]. rewrite flat_map_app. cbn [flat_map]. rewrite app_nil_r, <- app_assoc, <- (at_src_valid l u Hu E Hv). exact HK.
Qed.

(* the kinds whose value is (claimed to be) their source text; quoted identifiers are told apart by
   their first character; an invalid byte (decoded as U+FFFD) is not its own encoding *)
Definition value_kind (it : item) : bool :=
  negb (it_tok it =? T_STRING)%N && negb (it_tok it =? T_NUMBER)%N &&
  negb (it_tok it =? T_PARAM)%N && negb (it_tok it =? T_LINE_COMMENT)%N.
Definition quote_rune (r : N) : bool := (r =? 34)%N || (r =? 96)%N || (r =? 8220)%N || (r =? 8221)%N.

Definition nval (l : plex) (u : list N) (r : option (item * plex)) : Prop :=
  forall it l', r = Some (it, l') -> value_kind it = true -> quote_rune (l_ch l) = false -> l_ch l <> rune_error ->
    bytes_prefix (it_val it) u = true.

Lemma nval_kind : forall l u r t, (forall it l', r = Some (it, l') -> it_tok it = t) ->
  value_kind (mk_item t [] pos0 false) = false -> nval l u r.
Proof.
  intros l u r t Ht Hk it l' E Hv _ _. exfalso. specialize (Ht it l' E).
  unfold value_kind in *. cbn [it_tok mk_item] in Hk. rewrite Ht in Hv. congruence.
Qed.

(* kinds of the scanners whose value is not the source text *)
Ltac tok_inv E := apply bind_some in E; destruct E as (?st & _ & E); repeat match goal with s : (_ * _)%type |- _ => destruct s end; inversion E; reflexivity.

Lemma read_line_comment_tok : forall fuel (l : plex) it l', read_line_comment pure_stream fuel l = Some (it, l') -> it_tok it = T_LINE_COMMENT.
Proof. intros fuel l it l' E. unfold read_line_comment in E. tok_inv E. Qed.
Lemma read_hash_comment_tok : forall fuel (l : plex) it l', read_hash_comment pure_stream fuel l = Some (it, l') -> it_tok it = T_LINE_COMMENT.
Proof. intros fuel l it l' E. unfold read_hash_comment in E. tok_inv E. Qed.
Lemma read_unicode_minus_comment_tok : forall fuel (l : plex) it l', read_unicode_minus_comment pure_stream fuel l = Some (it, l') -> it_tok it = T_LINE_COMMENT.
Proof. intros fuel l it l' E. unfold read_unicode_minus_comment in E. tok_inv E. Qed.
Lemma read_block_comment_tok : forall fuel (l : plex) it l', read_block_comment pure_stream fuel l = Some (it, l') -> it_tok it = T_LINE_COMMENT.
Proof. intros fuel l it l' E. unfold read_block_comment in E. tok_inv E. Qed.
Lemma read_string_tok : forall fuel (l : plex) it l', read_string pure_stream fuel l = Some (it, l') -> it_tok it = T_STRING.
Proof. intros fuel l it l' E. unfold read_string in E. tok_inv E. Qed.
Lemma read_unicode_string_tok : forall fuel (l : plex) it l', read_unicode_string pure_stream fuel l = Some (it, l') -> it_tok it = T_STRING.
Proof. intros fuel l it l' E. unfold read_unicode_string in E. tok_inv E. Qed.
Lemma read_parameter_tok : forall fuel (l : plex) it l', read_parameter pure_stream fuel l = Some (it, l') -> it_tok it = T_PARAM.
Proof. intros fuel l it l' E. unfold read_parameter in E. tok_inv E. Qed.

Lemma number_general_tok : forall fuel pos (st : plex * sb) it l', number_general pure_stream fuel pos st = Some (it, l') -> it_tok it = T_NUMBER.
Proof.
  intros fuel pos st it l' E. unfold number_general in E.
  apply bind_some in E. destruct E as (st1 & _ & E). apply bind_some in E. destruct E as (st2 & _ & E).
  apply bind_some in E. destruct E as (st3 & _ & E). apply num_item_pos in E. tauto.
Qed.

Lemma read_number_tok : forall fuel (l : plex) it l', read_number pure_stream fuel l = Some (it, l') -> it_tok it = T_NUMBER.
Proof.
  intros fuel l it l' E. unfold read_number in E.
  repeat match type of E with
         | (if ?c then _ else _) = _ => destruct c
         end;
  first [ apply number_general_tok in E; exact E
        | apply bind_some in E; destruct E as (st1 & _ & E); apply num_item_pos in E; tauto ].
Qed.

Lemma number_rest_tok : forall fuel pos sc (st : plex * sb) it l', number_rest pure_stream fuel pos sc st = Some (it, l') -> it_tok it = T_NUMBER.
Proof.
  intros fuel pos sc st it l' E. unfold number_rest in E.
  do 5 (apply bind_some in E; destruct E as (?st & _ & E)). apply num_item_pos in E. tauto.
Qed.

(* scanners whose value is the source text *)
Lemma read_dollar_identifier_val : forall fuel (l : plex) u it l', wf l -> l_eof l = false -> l_ch l = 36%N -> at_src l u ->
  read_dollar_identifier pure_stream fuel l = Some (it, l') -> bytes_prefix (it_val it) u = true.
Proof.
  intros fuel l u it l' W E C Hu EQ. unfold read_dollar_identifier in EQ.
  apply bind_some in EQ. destruct EQ as ([l1 b1] & E1 & EQ).
  assert (HJ : J u (l1, b1)).
  { apply (take_while_text _ ident_dollar_class0 ltac:(vm_compute; reflexivity) _ _ _ _ E1).
    apply J_step; [apply J_init; assumption|exact E|rewrite C; discriminate]. }
  inversion EQ; subst. cbn [it_val mk_item]. exact (J_prefix _ _ _ HJ).
Qed.

Lemma read_identifier_val : forall fuel (l : plex) u it l', wf l -> at_src l u ->
  read_identifier pure_stream fuel l = Some (it, l') -> it_tok it = T_STRING \/ bytes_prefix (it_val it) u = true.
Proof.
  intros fuel l u it l' W Hu EQ. unfold read_identifier in EQ.
  pose proof (peek_char_st l) as Hp.
  assert (Hl : forall c : bool, snd (if c then peek_char pure_stream l else (0%N, l)) = l) by (intros []; [exact Hp|reflexivity]).
  set (cnd := ((l_ch l =? 120)%N || (l_ch l =? 88)%N || (l_ch l =? 98)%N || (l_ch l =? 66)%N)) in *.
  destruct (if cnd then peek_char pure_stream l else (0%N, l)) as [pk l0] eqn:EX.
  assert (Hl0 : l0 = l) by (pose proof (Hl cnd) as H0; rewrite EX in H0; exact H0).
  subst l0.
  destruct (((l_ch l =? 120)%N || (l_ch l =? 88)%N) && (pk =? 39)%N); [left; eapply read_hex_string_tok; exact EQ|].
  destruct (((l_ch l =? 98)%N || (l_ch l =? 66)%N) && (pk =? 39)%N); [left; eapply read_binary_string_tok; exact EQ|].
  right. apply bind_some in EQ. destruct EQ as ([l1 rs] & E1 & EQ).
  assert (HJ : J' u (l1, rs)).
  { apply (take_ident_runes_text _ _ _ _ E1). split; [exact W|]. exists u. split; [exact Hu|reflexivity]. }
  inversion EQ; subst. cbn [it_val mk_item].
  destruct HJ as (_ & u1 & _ & HK). cbn [snd] in HK. rewrite frev_rev, <- HK. apply bytes_prefix_app.
Qed.

Lemma read_number_or_ident_val : forall fuel (l : plex) u it l', wf l -> at_src l u ->
  read_number_or_ident pure_stream fuel l = Some (it, l') -> it_tok it = T_NUMBER \/ bytes_prefix (it_val it) u = true.
Proof.
  intros fuel l u it l' W Hu EQ. unfold read_number_or_ident in EQ.
  apply bind_some in EQ. destruct EQ as ([l1 b1] & E1 & EQ).
  assert (J1 : J u (l1, b1)).
  { apply (take_while_text _ is_digit_class0 ltac:(vm_compute; reflexivity) _ _ _ _ E1). apply J_init; assumption. }
  cbn [fst snd] in EQ.
  pose proof (peek_char_st l1) as Hp.
  assert (Hl2 : forall c : bool, (if c then l1 else l1) = l1) by (intros []; reflexivity).
  repeat first [rewrite Hp in EQ | rewrite Hl2 in EQ].
  destruct ((l_ch l1 =? 95)%N && _) eqn:C1.
  - right. apply bind_some in EQ. destruct EQ as ([l2 b2] & E2 & EQ).
    apply andb_prop in C1. destruct C1 as [C1 _]. apply N.eqb_eq in C1.
    assert (HJ : J u (l2, b2)).
    { apply (take_while_text _ is_ident_char_class0 ltac:(vm_compute; reflexivity) _ _ _ _ E2).
      apply J_step; [exact J1| |rewrite C1; discriminate].
      apply ch_not_eof; [exact (proj1 J1)|rewrite C1; discriminate]. }
    inversion EQ; subst. cbn [it_val mk_item]. exact (J_prefix _ _ _ HJ).
  - destruct (is_letter (l_ch l1) && _ && _).
    + right. apply bind_some in EQ. destruct EQ as ([l2 b2] & E2 & EQ).
      assert (HJ : J u (l2, b2)).
      { apply (take_while_text _ is_ident_char_class0 ltac:(vm_compute; reflexivity) _ _ _ _ E2). exact J1. }
      inversion EQ; subst. cbn [it_val mk_item]. exact (J_prefix _ _ _ HJ).
    + left. eapply number_rest_tok; exact EQ.
Qed.


Ltac use_ch :=
  match goal with
  | C : (l_ch ?l =? ?c)%N = true, Hu : at_src ?l ?u, E : l_eof ?l = false |- _ =>
      let Hc := fresh "Hc" in pose proof (proj1 (N.eqb_eq _ _) C) as Hc;
      let Hx := fresh "Hx" in
      assert (Hx : u = c :: l_src l) by (rewrite <- Hc; apply at_src_ascii; [exact Hu|exact E|rewrite Hc; reflexivity]);
      rewrite Hx
  end.

Ltac use_pk :=
  try match goal with
  | C : (?pk =? ?c)%N = true, Hpk : ?pk = 0%N \/ ?pk = fst (peek_char pure_stream ?l) |- _ =>
      let t := fresh "t" in let Ht := fresh "Ht" in
      destruct (pk_src l pk c Hpk C) as [t Ht]; [discriminate|reflexivity|]; rewrite Ht
  | C : (l_ch (rc ?l) =? ?c)%N = true, E : l_eof ?l = false |- _ =>
      let Ht := fresh "Ht" in
      destruct (rc_ch_ascii l c E (proj1 (N.eqb_eq _ _) C)) as [Ht _]; [discriminate|reflexivity|]; rewrite Ht
  end.

Ltac nv_simple :=
  repeat match goal with
         | |- nval _ _ (if ?c then _ else _) => let C := fresh "C" in destruct c eqn:C
         end;
  (let it := fresh "it" in let l' := fresh "l'" in let E0 := fresh "E0" in
   intros it l' E0 _ _ _; unfold simple in E0; inversion E0; subst; cbn [it_val mk_item];
   use_ch; use_pk; reflexivity).

Ltac vdispatch tac :=
  match goal with
  | |- nval _ _ (if ?c then _ else _) => let C := fresh "C" in destruct c eqn:C; [tac|]
  end.

Ltac nv_kind lem :=
  eapply nval_kind; [ let E0 := fresh "E0" in intros ? ? E0; eapply lem; exact E0 | vm_compute; reflexivity ].

Ltac nv_quote :=
  let Hq := fresh "Hq" in
  intros ? ? _ _ Hq _; exfalso; unfold quote_rune in Hq;
  apply orb_false_elim in Hq; destruct Hq as [Hq ?H4];
  apply orb_false_elim in Hq; destruct Hq as [Hq ?H3];
  apply orb_false_elim in Hq; destruct Hq as [?H1 ?H2];
  match goal with C : _ = true |- _ => rewrite ?H1, ?H2, ?H3, ?H4 in C; cbn in C; discriminate C end.

Lemma next_token_not_end_val : forall fuel (l : plex) u, wf l -> l_eof l = false -> l_ch l <> 0%N ->
  is_ws (l_ch l) = false -> mu l < fuel -> at_src l u ->
  nval l u (next_token pure_stream fuel l).
Proof.
  intros fuel l u W E Hnz Hws Hm Hu. unfold next_token.
  assert (Hsk : skip_whitespace pure_stream fuel l = Some l).
  { destruct fuel as [|f]; [lia|]. unfold skip_whitespace, skip_while. cbn [loop]. rewrite Hws. reflexivity. }
  rewrite Hsk. cbn [bind]. rewrite E. cbn [orb].
  destruct (l_ch l =? 0)%N eqn:Cz; [apply N.eqb_eq in Cz; contradiction|].
  pose proof (peek_char_st l) as Hp.
  match goal with |- context [if ?c then peek_char pure_stream l else (0%N, l)] => set (np := c) end.
  destruct (if np then peek_char pure_stream l else (0%N, l)) as [pk l0] eqn:EX.
  assert (Hl0 : l0 = l).
  { destruct np; [rewrite EX in Hp; exact Hp|inversion EX; reflexivity]. }
  assert (Hpk : pk = 0%N \/ pk = fst (peek_char pure_stream l)).
  { destruct np; [right; rewrite EX; reflexivity|left; inversion EX; reflexivity]. }
  subst l0. clear EX np.
  vdispatch ltac:(nv_kind read_line_comment_tok).
  vdispatch ltac:(nv_kind read_hash_comment_tok).
  vdispatch ltac:(nv_kind read_block_comment_tok).
  vdispatch ltac:(nv_kind read_unicode_minus_comment_tok).
  vdispatch nv_simple. (* + *)
  vdispatch nv_simple. (* - *)
  vdispatch nv_simple. (* * *)
  vdispatch nv_simple. (* / *)
  vdispatch nv_simple. (* % *)
  vdispatch nv_simple. (* = *)
  vdispatch nv_simple. (* ! *)
  (* < *)
  vdispatch ltac:(idtac).
  { destruct (pk =? 61)%N eqn:Dk1; [|nv_simple].
    destruct (pk_src l pk 61%N Hpk Dk1) as [t Ht]; [discriminate|reflexivity|].
    destruct (rc_after_ascii l 61%N t E Ht eq_refl) as (R1 & R2 & R3).
    destruct (l_ch (rc (rc l)) =? 62)%N eqn:Dk2.
    - destruct (rc_ch_ascii (rc l) 62%N R3 (proj1 (N.eqb_eq _ _) Dk2)) as [Ht2 _]; [discriminate|reflexivity|].
      intros it l' E0 _ _ _. unfold simple in E0. injection E0 as Hit _. rewrite <- Hit. cbn [it_val mk_item].
      use_ch. rewrite Ht, <- R2, Ht2. reflexivity.
    - intros it l' E0 _ _ _. unfold simple in E0. injection E0 as Hit _. rewrite <- Hit. cbn [it_val mk_item].
      use_ch. rewrite Ht. reflexivity. }
  vdispatch nv_simple. (* > *)
  vdispatch nv_simple. (* | *)
  vdispatch nv_simple. (* : *)
  vdispatch nv_simple. (* ( *)
  vdispatch nv_simple. (* ) *)
  vdispatch nv_simple. (* [ *)
  vdispatch nv_simple. (* ] *)
  vdispatch ltac:(nv_kind read_parameter_tok).
  vdispatch nv_simple. (* } *)
  vdispatch nv_simple. (* , *)
  (* . *)
  vdispatch ltac:(idtac).
  { destruct (is_digit pk); [|nv_simple].
    destruct (is_identifier_after_dot pure_stream l) as [idp l1] eqn:Ei.
    pose proof (is_identifier_after_dot_st l) as Hi. rewrite Ei in Hi. cbn [snd] in Hi. subst l1.
    destruct idp; [nv_simple|]. nv_kind read_number_tok. }
  vdispatch nv_simple. (* ; *)
  vdispatch nv_simple. (* ? *)
  vdispatch nv_simple. (* ^ *)
  (* $ *)
  vdispatch ltac:(idtac).
  { destruct (pk =? 36)%N; [nv_kind read_dollar_quoted_string_tok|].
    destruct (try_read_dollar_tag_shape l) as [Ht|(tag & n & Hne & Ht)]; rewrite Ht.
    - intros it l' E0 _ _ _. eapply read_dollar_identifier_val; [exact W|exact E|apply N.eqb_eq; assumption|exact Hu|exact E0].
    - destruct tag as [|t0 tag]; [contradiction|]. nv_kind read_dollar_quoted_string_tok. }
  vdispatch ltac:(nv_kind read_string_tok).
  vdispatch ltac:(nv_kind read_unicode_string_tok).
  vdispatch nv_quote.
  vdispatch nv_quote.
  vdispatch nv_quote.
  (* @ *)
  vdispatch ltac:(idtac).
  { destruct (pk =? 64)%N eqn:Dk1; [|nv_simple].
    destruct (is_ident_start (l_ch (rc (rc l))) || is_digit (l_ch (rc (rc l)))); [|nv_simple].
    destruct (pk_src l pk 64%N Hpk Dk1) as [t Ht]; [discriminate|reflexivity|].
    destruct (rc_after_ascii l 64%N t E Ht eq_refl) as (R1 & R2 & R3).
    intros it l' E0 _ _ _. apply bind_some in E0. destruct E0 as ([l3 b3] & E3 & E0).
    assert (HJ : J u (l3, b3)).
    { apply (take_while_text _ is_ident_char_class0 ltac:(vm_compute; reflexivity) _ _ _ _ E3).
      split; [cbn [fst]; apply rc_wf|]. exists (l_src (rc l)). cbn [fst snd].
      split; [apply at_src_rc; exact R3|]. use_ch. rewrite Ht, R2. reflexivity. }
    unfold simple in E0. injection E0 as Hit _. rewrite <- Hit. cbn [it_val mk_item]. exact (J_prefix _ _ _ HJ). }
  vdispatch ltac:(idtac).
  { intros it l' E0 Hk _ _.
    destruct (read_number_or_ident_val fuel l u it l' W Hu E0) as [Ht|Hv]; [|exact Hv].
    exfalso. unfold value_kind in Hk. rewrite Ht in Hk. vm_compute in Hk. discriminate. }
  vdispatch ltac:(idtac).
  { intros it l' E0 Hk _ _.
    destruct (read_identifier_val fuel l u it l' W Hu E0) as [Ht|Hv]; [|exact Hv].
    exfalso. unfold value_kind in Hk. rewrite Ht in Hk. vm_compute in Hk. discriminate. }
  intros it l' E0 _ _ Hv. unfold simple in E0. injection E0 as Hit _. rewrite <- Hit. cbn [it_val mk_item].
  rewrite (at_src_valid l u Hu E Hv). apply bytes_prefix_app.
Qed.


(* ---- a NUMBER starts with a digit or '.' ---- *)

Lemma lookup_cases : forall s, lookup s = T_IDENT \/ (keyword_beg < lookup s)%N.
Proof.
  intros s. unfold lookup.
  assert (G : forall tbl acc, (acc = T_IDENT \/ (keyword_beg < acc)%N) ->
    let r := fold_left (fun (acc : N) (e : N * list N * list N) => let '(i, _, sp) := e in
       if (keyword_beg <? i)%N && (i <? keyword_end)%N && bytes_eqb sp s then i else acc) tbl acc in
    r = T_IDENT \/ (keyword_beg < r)%N).
  { induction tbl as [|[[i nm] sp] tbl IH]; intros acc Hacc; cbn [fold_left]; [exact Hacc|].
    apply IH. destruct ((keyword_beg <? i)%N && (i <? keyword_end)%N && bytes_eqb sp s) eqn:C; [|exact Hacc].
    apply andb_prop in C. destruct C as [C _]. apply andb_prop in C. destruct C as [C _].
    apply N.ltb_lt in C. right. exact C. }
  apply G. left. reflexivity.
Qed.

Lemma lookup_not_number : forall s, lookup s <> T_NUMBER.
Proof.
  intros s H. destruct (lookup_cases s) as [H1|H1]; rewrite H in H1; vm_compute in H1; discriminate H1.
Qed.

Lemma read_quoted_identifier_tok : forall fuel (l : plex) it l', read_quoted_identifier pure_stream fuel l = Some (it, l') -> it_tok it = T_IDENT.
Proof. intros fuel l it l' E. unfold read_quoted_identifier in E. tok_inv E. Qed.
Lemma read_unicode_quoted_identifier_tok : forall fuel (l : plex) it l', read_unicode_quoted_identifier pure_stream fuel l = Some (it, l') -> it_tok it = T_IDENT.
Proof. intros fuel l it l' E. unfold read_unicode_quoted_identifier in E. tok_inv E. Qed.
Lemma read_backtick_identifier_tok : forall fuel (l : plex) it l', read_backtick_identifier pure_stream fuel l = Some (it, l') -> it_tok it = T_IDENT.
Proof. intros fuel l it l' E. unfold read_backtick_identifier in E. tok_inv E. Qed.
Lemma read_dollar_identifier_tok : forall fuel (l : plex) it l', read_dollar_identifier pure_stream fuel l = Some (it, l') -> it_tok it = T_IDENT.
Proof. intros fuel l it l' E. unfold read_dollar_identifier in E. tok_inv E. Qed.

Lemma read_identifier_not_number : forall fuel (l : plex) it l', read_identifier pure_stream fuel l = Some (it, l') -> it_tok it <> T_NUMBER.
Proof.
  intros fuel l it l' EQ. unfold read_identifier in EQ.
  match type of EQ with context [if ?c then peek_char pure_stream l else (0%N, l)] =>
    destruct (if c then peek_char pure_stream l else (0%N, l)) as [pk l0] end.
  destruct (_ && (pk =? 39)%N).
  { rewrite (read_hex_string_tok _ _ _ _ EQ). vm_compute. discriminate. }
  destruct (_ && (pk =? 39)%N).
  { rewrite (read_binary_string_tok _ _ _ _ EQ). vm_compute. discriminate. }
  apply bind_some in EQ. destruct EQ as ([l1 rs] & _ & EQ). inversion EQ; subst. cbn [it_tok mk_item]. apply lookup_not_number.
Qed.

Definition nnum (l : plex) (r : option (item * plex)) : Prop :=
  forall it l', r = Some (it, l') -> it_tok it = T_NUMBER -> is_digit (l_ch l) = true \/ l_ch l = 46%N.

Ltac nn_simple :=
  repeat match goal with
         | |- nnum _ (if ?c then _ else _) => destruct c
         end;
  (let it := fresh "it" in let l' := fresh "l'" in let E0 := fresh "E0" in let Ht := fresh "Ht" in let Hit := fresh "Hit" in
   intros it l' E0 Ht; unfold simple in E0; injection E0 as Hit _; rewrite <- Hit in Ht;
   cbn [it_tok mk_item] in Ht; vm_compute in Ht; discriminate Ht).

Ltac nn_kind lem :=
  let it := fresh "it" in let l' := fresh "l'" in let E0 := fresh "E0" in let Ht := fresh "Ht" in let H := fresh "H" in
  intros it l' E0 Ht; exfalso;
  eassert (H : it_tok it = _) by (eapply lem; exact E0);
  rewrite H in Ht; vm_compute in Ht; discriminate Ht.

Ltac ndisp tac :=
  match goal with
  | |- nnum _ (if ?c then _ else _) => let C := fresh "C" in destruct c eqn:C; [tac|]
  end.

Lemma next_token_not_end_num : forall fuel (l : plex), l_eof l = false -> l_ch l <> 0%N ->
  is_ws (l_ch l) = false -> mu l < fuel ->
  nnum l (next_token pure_stream fuel l).
Proof.
  intros fuel l E Hnz Hws Hm. unfold next_token.
  assert (Hsk : skip_whitespace pure_stream fuel l = Some l).
  { destruct fuel as [|f]; [lia|]. unfold skip_whitespace, skip_while. cbn [loop]. rewrite Hws. reflexivity. }
  rewrite Hsk. cbn [bind]. rewrite E. cbn [orb].
  destruct (l_ch l =? 0)%N eqn:Cz; [apply N.eqb_eq in Cz; contradiction|].
  pose proof (peek_char_st l) as Hp.
  match goal with |- context [if ?c then peek_char pure_stream l else (0%N, l)] => set (np := c) end.
  destruct (if np then peek_char pure_stream l else (0%N, l)) as [pk l0] eqn:EX.
  assert (Hl0 : l0 = l).
  { destruct np; [rewrite EX in Hp; exact Hp|inversion EX; reflexivity]. }
  subst l0. clear EX np.
  ndisp ltac:(nn_kind read_line_comment_tok).
  ndisp ltac:(nn_kind read_hash_comment_tok).
  ndisp ltac:(nn_kind read_block_comment_tok).
  ndisp ltac:(nn_kind read_unicode_minus_comment_tok).
  do 15 (ndisp nn_simple).
  ndisp ltac:(nn_kind read_parameter_tok).
  ndisp nn_simple. ndisp nn_simple.
  (* . *)
  ndisp ltac:(idtac).
  { intros it l' _ _. right. apply N.eqb_eq. assumption. }
  ndisp nn_simple. ndisp nn_simple. ndisp nn_simple.
  (* $ *)
  ndisp ltac:(idtac).
  { destruct (pk =? 36)%N; [nn_kind read_dollar_quoted_string_tok|].
    destruct (try_read_dollar_tag pure_stream l) as [tag l1]. destruct tag.
    - nn_kind read_dollar_identifier_tok.
    - nn_kind read_dollar_quoted_string_tok. }
  ndisp ltac:(nn_kind read_string_tok).
  ndisp ltac:(nn_kind read_unicode_string_tok).
  ndisp ltac:(nn_kind read_quoted_identifier_tok).
  ndisp ltac:(nn_kind read_unicode_quoted_identifier_tok).
  ndisp ltac:(nn_kind read_backtick_identifier_tok).
  (* @ *)
  ndisp ltac:(idtac).
  { destruct (pk =? 64)%N; [|nn_simple].
    destruct (is_ident_start (l_ch (rc (rc l))) || is_digit (l_ch (rc (rc l)))); [|nn_simple].
    intros it l' E0 Ht. apply bind_some in E0. destruct E0 as ([l3 b3] & _ & E0).
    unfold simple in E0. injection E0 as Hit _. rewrite <- Hit in Ht. vm_compute in Ht. discriminate Ht. }
  ndisp ltac:(idtac).
  { intros it l' _ _. left. assumption. }
  ndisp ltac:(idtac).
  { intros it l' E0 Ht. exfalso. exact (read_identifier_not_number _ _ _ _ E0 Ht). }
  nn_simple.
Qed.


(* ================= NextToken and Tokenize ================= *)

Section Tokens.
Variable bs : list N.
Notation PI := (pinv bs).

Definition off (i : item) : N := p_off (it_pos i).

(* what a NextToken call that returns a non-EOF token establishes: l1 is the state after skipWhitespace
   (the token's first state), ls the state whose position is recorded *)
Definition tok_facts (l : plex) (it : item) (l' : plex) : Prop :=
  exists l1 ls,
    le_st l l1 /\ l_eof l1 = false /\ is_ws (l_ch l1) = false /\ l_ch l1 <> 0%N /\ PI l1 /\
    it_pos it = l_pos ls /\ PI ls /\ le_st l1 ls /\ le_st ls l' /\
    (l_eof ls = false -> lt_st ls l') /\ (it_tok it <> T_STRING -> ls = l1) /\
    (forall u, at_src l1 u -> value_kind it = true -> quote_rune (l_ch l1) = false -> l_ch l1 <> rune_error ->
               bytes_prefix (it_val it) u = true) /\
    (it_tok it = T_NUMBER -> is_digit (l_ch l1) = true \/ l_ch l1 = 46%N).

Lemma pinv_at_src : forall (l : plex) start sz, l_eof l = false -> 1 <= sz ->
  decode_rune (skipn start bs) = (l_ch l, sz) -> skipn (start + sz) bs = l_src l -> at_src l (skipn start bs).
Proof.
  intros l start sz E Hz Hd Hs. unfold at_src. rewrite E. exists sz.
  split; [exact Hd|]. split; [rewrite skipn_add; exact Hs|].
  intros Hn. rewrite Hn in Hd. cbn in Hd. inversion Hd. lia.
Qed.

Lemma next_token_pos : forall fuel (l : plex) it l', wf l -> PI l -> mu l < fuel ->
  next_token pure_stream fuel l = Some (it, l') ->
  wf l' /\ PI l' /\
  ((it = eof_item l' /\ at_end l' /\ mu l' <= mu l) \/
   (it_tok it <> T_EOF /\ mu l' < mu l /\ tok_facts l it l')).
Proof.
  intros fuel l it l' W H Hm EN.
  destruct (skip_while_total is_ws is_ws_class0 fuel l W Hm) as (l1 & E1 & [W1 H1] & Hws).
  assert (P1 : PI l1) by (apply (skip_while_pres bs _ _ _ _ E1); exact H).
  assert (Hf : 0 < fuel) by lia.
  assert (Hsame : next_token pure_stream fuel l = next_token pure_stream fuel l1).
  { unfold next_token, skip_whitespace. rewrite E1. cbn [bind].
    destruct fuel as [|f]; [lia|]. unfold skip_while. cbn [loop]. rewrite Hws. reflexivity. }
  rewrite Hsame in EN.
  destruct (l_eof l1) eqn:E.
  - rewrite (next_token_at_end fuel l1 W1 (or_introl E) Hf) in EN. inversion EN; subst.
    split; [exact W1|]. split; [exact P1|]. left. split; [reflexivity|]. split; [left; exact E|exact H1].
  - destruct (N.eq_dec (l_ch l1) 0) as [Hz|Hnz].
    + rewrite (next_token_at_end fuel l1 W1 (or_intror Hz) Hf) in EN. inversion EN; subst.
      split; [exact W1|]. split; [exact P1|]. left. split; [reflexivity|]. split; [right; exact Hz|exact H1].
    + assert (Hm1 : mu l1 < fuel) by lia.
      destruct (next_token_not_end fuel l1 W1 E Hnz Hws Hm1) as (it0 & l0 & E0 & Ht & [W' H']).
      rewrite EN in E0. inversion E0; subst it0 l0.
      destruct (next_token_not_end_npos bs fuel l1 W1 E Hnz Hws Hm1 P1 it l' EN) as (P' & ls & Hp & Ps & Hle & Hle' & Hlt & Hst).
      split; [exact W'|]. split; [exact P'|]. right. split; [exact Ht|]. split; [lia|].
      exists l1, ls. split; [split; assumption|]. repeat (split; [assumption|]).
      split; [intros u Hu; exact (next_token_not_end_val fuel l1 u W1 E Hnz Hws Hm1 Hu it l' EN)|].
      exact (next_token_not_end_num fuel l1 E Hnz Hws Hm1 it l' EN).
Qed.

(* ---- the numeric content ---- *)

(* chain m items: `items` is a token list ending in EOF whose recorded offsets are length bs - k for
   strictly decreasing k, all below m (m = the measure mu of the lexer state before the first one) *)
Definition starts_token (it : item) : Prop :=
  exists start r sz before,
    rune_ending_at bs (off it) = Some (start, r, sz, before) /\
    rune_starts_at bs start = Some (r, sz) /\
    off it = N.of_nat (start + sz) /\ is_ws r = false /\ r <> 0%N /\
    (value_kind it = true -> quote_rune r = false -> r <> rune_error ->
     bytes_prefix (it_val it) (skipn start bs) = true) /\
    (it_tok it = T_NUMBER -> is_digit r = true \/ r = 46%N).

Inductive chain : nat -> list item -> Prop :=
| chain_eof : forall m e k, it_tok e = T_EOF -> k <= m -> k <= length bs ->
    off e = N.of_nat (length bs - k) -> chain m [e]
| chain_tok : forall m it k rest, it_tok it <> T_EOF -> k + 1 <= m -> k < length bs ->
    off it = N.of_nat (length bs - k) ->
    pos_of_rune_end bs (off it) = Some (it_pos it) ->
    (it_tok it <> T_STRING -> starts_token it) ->
    chain k rest -> chain m (it :: rest).

Lemma chain_mono : forall m items, chain m items -> forall m', m <= m' -> chain m' items.
Proof.
  intros m items C. induction C as [m e k He Hk Hl Ho|m it k rest Ht Hk Hl Ho Hr Hs C IH]; intros m' Hm.
  - apply chain_eof with (k := k); [exact He|lia|exact Hl|exact Ho].
  - apply chain_tok with (k := k); try assumption. lia.
Qed.

Lemma mu_src : forall l : plex, length (l_src l) <= mu l.
Proof. intros l. unfold mu. lia. Qed.

Lemma tok_facts_num : forall (l : plex) it l', wf l -> tok_facts l it l' ->
  exists k, k + 1 <= mu l /\ mu l' <= k /\ k < length bs /\ off it = N.of_nat (length bs - k) /\
            pos_of_rune_end bs (off it) = Some (it_pos it) /\ (it_tok it <> T_STRING -> starts_token it).
Proof.
  intros l it l' W (l1 & ls & [W1 H1] & E1 & Hws & Hnz & P1 & Hp & Ps & [Ws Hs] & [W' H'] & Hlt & Hst & Hval & Hnum).
  destruct (pinv_cur bs l1 P1 E1) as (start & sz & before & R1 & R2 & R3 & R4 & R5 & R6 & R7).
  assert (Hne : bs <> []) by (intros Hb; rewrite Hb in R5; cbn in R5; lia).
  destruct (pinv_off bs ls Ps) as [Hk Ho]. destruct (pinv_real bs ls Ps Hne) as [Hr H1o].
  exists (length (l_src ls)). unfold off. rewrite Hp.
  assert (Hmu1 : 1 <= mu l1) by (unfold mu; rewrite E1; lia).
  split; [|split; [|split; [|split; [exact Ho|split; [exact Hr|]]]]].
  - destruct (l_eof ls) eqn:Es.
    + destruct Ps as [_ Ps]. unfold ppos in Ps. rewrite Es in Ps. destruct Ps as [Hsrc _]. rewrite Hsrc. cbn [length]. lia.
    + unfold mu in Hs at 1. rewrite Es in Hs. lia.
  - destruct (l_eof ls) eqn:Es.
    + unfold mu in H' at 2. rewrite Es in H'. lia.
    + destruct (Hlt eq_refl) as [_ Hl]. unfold mu in Hl at 2. rewrite Es in Hl. lia.
  - rewrite Ho in H1o. lia.
  - intros Hn. specialize (Hst Hn). subst ls.
    unfold starts_token, off. rewrite Hp.
    exists start, (l_ch l1), sz, before. repeat (split; [assumption|]).
    split; [|exact Hnum]. apply Hval. exact (pinv_at_src l1 start sz E1 R4 R6 R7).
Qed.

Lemma tokenize_loop_chain : forall n fuel (l : plex) items, wf l -> PI l -> mu l < n -> mu l < fuel ->
  tokenize_loop pure_stream n fuel l = Some items -> chain (mu l) items.
Proof.
  induction n as [|n IH]; intros fuel l items W H Hn Hf E; [lia|].
  cbn [tokenize_loop] in E. apply bind_some in E. destruct E as ([it l'] & EN & E).
  destruct (next_token_pos fuel l it l' W H Hf EN) as (W' & P' & [(Hit & A & Hle)|(Ht & Hlt & TF)]).
  - subst it. cbn [eof_item it_tok mk_item] in E. rewrite N.eqb_refl in E. inversion E; subst.
    destruct (pinv_off bs l' P') as [Hk Ho].
    apply chain_eof with (k := length (l_src l')); [reflexivity|pose proof (mu_src l'); lia|exact Hk|exact Ho].
  - destruct (it_tok it =? T_EOF)%N eqn:C; [apply N.eqb_eq in C; contradiction|].
    apply bind_some in E. destruct E as (rest & ER & E). inversion E; subst.
    destruct (tok_facts_num l it l' W TF) as (k & K1 & K2 & K3 & K4 & K5 & K6).
    apply chain_tok with (k := k); try assumption.
    apply chain_mono with (m := mu l'); [|exact K2].
    apply (IH fuel l' rest W' P'); [lia|lia|exact ER].
Qed.

(* reading a chain as the statements of the property *)
Lemma chain_facts : forall m items, chain m items -> m <= length bs + 1 ->
  exists pre e, items = pre ++ [e] /\ it_tok e = T_EOF /\
    Forall (fun i => it_tok i <> T_EOF /\ (N.of_nat (length bs + 1 - m) <= off i <= N.of_nat (length bs))%N /\
                     pos_of_rune_end bs (off i) = Some (it_pos i) /\
                     (it_tok i <> T_STRING -> starts_token i) /\ (off i <= off e)%N) pre /\
    StronglySorted N.lt (map off pre) /\
    (N.of_nat (length bs - m) <= off e <= N.of_nat (length bs))%N.
Proof.
  intros m items C. induction C as [m e k He Hk Hl Ho|m it k rest Ht Hk Hl Ho Hr Hs C IH]; intros Hm.
  - exists [], e. split; [reflexivity|]. split; [exact He|]. split; [constructor|]. split; [constructor|]. rewrite Ho. lia.
  - destruct IH as (pre & e & Ei & He & Hpre & Hsort & Hoe); [lia|]. subst rest.
    exists (it :: pre), e. split; [reflexivity|]. split; [exact He|].
    split; [|split].
    + constructor.
      * split; [exact Ht|]. split; [rewrite Ho; lia|]. split; [exact Hr|]. split; [exact Hs|]. rewrite Ho. lia.
      * eapply Forall_impl; [|exact Hpre]. cbn beta. intros i (A1 & A2 & A3 & A4 & A5).
        split; [exact A1|]. split; [lia|]. auto.
    + cbn [map]. constructor; [exact Hsort|].
      rewrite Forall_map. eapply Forall_impl; [|exact Hpre]. cbn beta. intros i (A1 & A2 & _). rewrite Ho. lia.
    + lia.
Qed.

End Tokens.

(* ================= the theorems over tokenize ================= *)

(* (a) offsets: strictly increasing over the non-EOF tokens, each in [1, length bs]; EOF's offset is not
       smaller than any of them and at most length bs.
   (b) each non-EOF token's Position is exactly the specification's position of the rune ending at its offset.
   (c, position part) unless the token is a STRING, that rune is the first rune of the token: it starts at
       byte index offset - size, and it is the (non-blank, non-NUL) character NextToken dispatched on. *)
Theorem tokenize_positions : forall bs items, tokenize bs = Some items ->
  exists pre e, items = pre ++ [e] /\ it_tok e = T_EOF /\
    Forall (fun i => it_tok i <> T_EOF) pre /\
    StronglySorted N.lt (map off pre) /\
    Forall (fun i => (1 <= off i <= N.of_nat (length bs))%N) pre /\
    Forall (fun i => (off i <= off e)%N) pre /\ (off e <= N.of_nat (length bs))%N /\
    Forall (fun i => pos_of_rune_end bs (off i) = Some (it_pos i)) pre /\
    Forall (fun i => it_tok i <> T_STRING -> starts_token bs i) pre.
Proof.
  intros bs items E. unfold tokenize, tokenize_fuel in E.
  destruct (init_lex_ok bs) as [W Hmu].
  assert (C : chain bs (mu (init_lex pure_stream bs)) items).
  { apply (tokenize_loop_chain bs (length bs + 2) (length bs + 2)); [exact W|apply init_pinv|lia|lia|exact E]. }
  destruct (chain_facts bs _ _ C) as (pre & e & Ei & He & Hpre & Hsort & Hoe); [lia|].
  exists pre, e. split; [exact Ei|]. split; [exact He|].
  split; [eapply Forall_impl; [|exact Hpre]; cbn beta; tauto|].
  split; [exact Hsort|].
  split; [eapply Forall_impl; [|exact Hpre]; cbn beta; intros i (_ & A & _); lia|].
  split; [eapply Forall_impl; [|exact Hpre]; cbn beta; tauto|].
  split; [lia|].
  split; eapply Forall_impl; try exact Hpre; cbn beta; tauto.
Qed.

(* ---- the three clauses separately, for every byte list (totality is C12) ---- *)

(* (a) *)
Theorem tokenize_offsets : forall bs : list N,
  exists pre e, tokenize bs = Some (pre ++ [e]) /\ it_tok e = T_EOF /\
    Forall (fun i => it_tok i <> T_EOF) pre /\
    StronglySorted N.lt (map off pre) /\
    Forall (fun i => (1 <= off i <= N.of_nat (length bs))%N) pre /\
    Forall (fun i => (off i <= off e)%N) pre /\ (off e <= N.of_nat (length bs))%N.
Proof.
  intros bs. destruct (tokenize_total bs) as (pre0 & e0 & E & _).
  destruct (tokenize_positions bs _ E) as (pre & e & Ei & He & H1 & H2 & H3 & H4 & H5 & _).
  exists pre, e. rewrite <- Ei. auto 10.
Qed.

Lemma non_eof_in_pre : forall (pre : list item) e i, it_tok e = T_EOF -> In i (pre ++ [e]) -> it_tok i <> T_EOF -> In i pre.
Proof.
  intros pre e i He Hin Hn. apply in_app_or in Hin. destruct Hin as [H|[H|[]]]; [exact H|]. subst i. contradiction.
Qed.

(* (b) *)
Theorem tokenize_line_col : forall bs items, tokenize bs = Some items ->
  forall i, In i items -> it_tok i <> T_EOF -> pos_of_rune_end bs (off i) = Some (it_pos i).
Proof.
  intros bs items E i Hin Hn.
  destruct (tokenize_positions bs _ E) as (pre & e & Ei & He & _ & _ & _ & _ & _ & Hb & _). subst items.
  rewrite Forall_forall in Hb. apply Hb. eapply non_eof_in_pre; eassumption.
Qed.

(* (c) *)
Theorem tokenize_token_start : forall bs items, tokenize bs = Some items ->
  forall i, In i items -> it_tok i <> T_EOF -> it_tok i <> T_STRING -> starts_token bs i.
Proof.
  intros bs items E i Hin Hn Hs.
  destruct (tokenize_positions bs _ E) as (pre & e & Ei & He & _ & _ & _ & _ & _ & _ & Hc). subst items.
  rewrite Forall_forall in Hc. apply Hc; [|exact Hs]. eapply non_eof_in_pre; eassumption.
Qed.
