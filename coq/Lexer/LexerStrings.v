(* C09, strings: the lexer model (LexerModel.v, over the pure stream) reads the quoted spelling of EVERY byte
   string back as exactly that byte string.

   Main results
     read_string_quote      : at a lexer positioned on  quote v ++ rest  (follow_ok rest), read_string returns
                              STRING v and leaves the lexer positioned on rest            (any fuel > length v)
     read_string_quote_raw  : the same for quote_raw v (valid UTF-8 sequences written raw)
     next_token_quote(_raw) : the same through NextToken
     tokenize_quote(_raw)   : tokenize (quote v) = Some [STRING v; EOF]
     encode_decode          : encode_rune (fst (decode_rune s)) = firstn (snd (decode_rune s)) s when the
                              width is > 1 (UTF-8 round trip on well-formed multi-byte sequences)
     the decoding table     : every named escape, unknown escapes, \x at the end of input, '' — Examples *)
From Coq Require Import List NArith Bool Lia Arith ZifyN ZifyNat ZifyBool.
From DC Require Import Base.Utf8 Base.Unicode Base.UnicodeFacts Base.Stream Base.Item Gen.TokenTable
  Lexer.LexerModel Lexer.LexerTotal Lexer.LexerStringsSpec.
Import ListNotations.
Local Open Scope bool_scope.

(* ------------------------------------------------------------------------------------------ *)
(* "the lexer is positioned on s": current character = first rune of s, the reader holds the rest *)

Definition At (l : plex) (s : list N) : Prop :=
  l_eof l = (match s with [] => true | _ => false end) /\
  l_ch l = (match s with [] => 0%N | _ => fst (decode_rune s) end) /\
  l_src l = skipn (snd (decode_rune s)) s.

Lemma rc_At : forall l : plex, l_eof l = false -> At (rc l) (l_src l).
Proof.
  intros l E. unfold At.
  destruct (rc_cases l) as [(E1 & _)|[(_ & Es & E1 & C1 & S1)|(_ & b & bs & Es & E1 & C1 & S1)]].
  - rewrite E in E1; discriminate.
  - rewrite Es. cbn. auto.
  - rewrite Es. auto.
Qed.

Lemma At_wf : forall l s, At l s -> wf l.
Proof.
  intros l s (E & C & _) H. destruct s; [exact C|rewrite E in H; discriminate].
Qed.

Lemma At_ascii : forall l c s, At l (c :: s) -> (c < 128)%N ->
  l_eof l = false /\ l_ch l = c /\ l_src l = s.
Proof.
  intros l c s (E & C & S) Hc. unfold decode_rune in *.
  apply N.ltb_lt in Hc. rewrite Hc in *. cbn in *. auto.
Qed.

Lemma At_nil : forall l, At l [] -> l_eof l = true /\ l_ch l = 0%N.
Proof. intros l (E & C & _). auto. Qed.

(* one read from a position on an ASCII byte *)
Lemma rc_ascii : forall l c s, At l (c :: s) -> (c < 128)%N -> At (rc l) s.
Proof.
  intros l c s H Hc. destruct (At_ascii l c s H Hc) as (E & _ & S).
  rewrite <- S. apply rc_At. exact E.
Qed.

Lemma wr_ascii : forall c b, (c < 128)%N -> wr c b = c :: b.
Proof.
  intros c b Hc. unfold wr, encode_rune. apply N.ltb_lt in Hc. rewrite Hc. reflexivity.
Qed.

(* peek on the pure stream sees the first byte of the reader when it is ASCII, and never a quote otherwise *)
Lemma peek_not_quote : forall (l : plex) rest, l_eof l = false -> l_src l = rest -> follow_ok rest ->
  (fst (peek_char pure_stream l) =? 39)%N = false.
Proof.
  intros l rest E S F. unfold peek_char. rewrite E. cbn [s_peek pure_stream]. unfold pure_peek.
  rewrite S. destruct rest as [|b r]; [reflexivity|].
  cbn [Nat.min bufio_size firstn fst]. unfold decode_rune.
  destruct (b <? 128)%N eqn:Hb.
  - cbn [fst]. apply N.eqb_neq. intros ->. exact F.
  - repeat match goal with |- context [if ?c then _ else _] => destruct c end; reflexivity.
Qed.

Lemma peek_quote : forall (l : plex) rest, l_eof l = false -> l_src l = 39%N :: rest ->
  fst (peek_char pure_stream l) = 39%N.
Proof.
  intros l rest E S. unfold peek_char. rewrite E. cbn [s_peek pure_stream]. unfold pure_peek.
  rewrite S. reflexivity.
Qed.

(* ------------------------------------------------------------------------------------------ *)
(* hex digits *)

Lemma lt16_cases : forall n, (n < 16)%N ->
  n = 0%N \/ n = 1%N \/ n = 2%N \/ n = 3%N \/ n = 4%N \/ n = 5%N \/ n = 6%N \/ n = 7%N \/ n = 8%N \/
  n = 9%N \/ n = 10%N \/ n = 11%N \/ n = 12%N \/ n = 13%N \/ n = 14%N \/ n = 15%N.
Proof. intros n H. lia. Qed.

Lemma hex_value_hexdigit : forall n, (n < 16)%N -> hex_value (hexdigit n) = n.
Proof.
  intros n H. destruct (lt16_cases n H) as [->|[->|[->|[->|[->|[->|[->|[->|[->|[->|[->|[->|[->|[->|[->| ->]]]]]]]]]]]]]]];
    reflexivity.
Qed.

Lemma hexdigit_ascii : forall n, (n < 16)%N -> (hexdigit n < 128)%N.
Proof. intros n H. unfold hexdigit. destruct (n <? 10)%N; lia. Qed.

Lemma hex_byte : forall b, (b < 256)%N ->
  (hex_value (hexdigit (b / 16)) * 16 + hex_value (hexdigit (b mod 16)))%N = b.
Proof.
  intros b H.
  assert (H1 : (b / 16 < 16)%N) by (apply N.div_lt_upper_bound; lia).
  assert (H2 : (b mod 16 < 16)%N) by (apply N.mod_lt; lia).
  rewrite !hex_value_hexdigit by assumption.
  pose proof (N.div_mod b 16). lia.
Qed.

(* ------------------------------------------------------------------------------------------ *)
(* the steps of the readString loop on the pieces of a quoted spelling *)

Notation qbody := (quoted_body pure_stream 39%N false).

(* a plain character (ASCII, not ' and not \) *)
Lemma step_plain : forall l b c s, At l (c :: s) -> (c < 128)%N -> c <> 39%N -> c <> 92%N ->
  qbody (l, b) = ((rc l, c :: b), true) /\ At (rc l) s.
Proof.
  intros l b c s H Hc H39 H92. destruct (At_ascii l c s H Hc) as (E & C & S).
  split; [|eapply rc_ascii; eassumption].
  unfold quoted_body. rewrite E, C.
  apply N.eqb_neq in H39. apply N.eqb_neq in H92. rewrite H39, H92.
  rewrite wr_ascii by exact Hc. reflexivity.
Qed.

(* \' and \\ *)
Lemma step_esc_self : forall l b c s, At l (92%N :: c :: s) -> c = 39%N \/ c = 92%N ->
  qbody (l, b) = ((rc (rc l), c :: b), true) /\ At (rc (rc l)) s.
Proof.
  intros l b c s H Hc.
  assert (Hc128 : (c < 128)%N) by (destruct Hc; subst; lia).
  destruct (At_ascii l _ _ H ltac:(lia)) as (E & C & S).
  pose proof (rc_ascii l _ _ H ltac:(lia)) as H1.
  destruct (At_ascii (rc l) _ _ H1 Hc128) as (E1 & C1 & S1).
  pose proof (rc_ascii (rc l) _ _ H1 Hc128) as H2.
  split; [|exact H2].
  unfold quoted_body. rewrite E, C. cbn [N.eqb Pos.eqb]. rewrite E1.
  unfold escape_switch. rewrite C1.
  destruct Hc; subst c; cbn [N.eqb Pos.eqb andb]; reflexivity.
Qed.

(* \xHH *)
Lemma step_hex : forall l b x s, At l (hex_escape x ++ s) -> (x < 256)%N ->
  qbody (l, b) = ((rc (rc (rc (rc l))), x :: b), true) /\ At (rc (rc (rc (rc l)))) s.
Proof.
  intros l b x s H Hx. unfold hex_escape in H. cbn [app] in H.
  assert (Hq : (x / 16 < 16)%N) by (apply N.div_lt_upper_bound; lia).
  assert (Hr : (x mod 16 < 16)%N) by (apply N.mod_lt; lia).
  pose proof (hexdigit_ascii _ Hq) as A1. pose proof (hexdigit_ascii _ Hr) as A2.
  destruct (At_ascii l _ _ H ltac:(lia)) as (E & C & S).
  pose proof (rc_ascii l _ _ H ltac:(lia)) as H1.
  destruct (At_ascii (rc l) _ _ H1 ltac:(lia)) as (E1 & C1 & S1).
  pose proof (rc_ascii (rc l) _ _ H1 ltac:(lia)) as H2.
  destruct (At_ascii (rc (rc l)) _ _ H2 A1) as (E2 & C2 & S2).
  pose proof (rc_ascii (rc (rc l)) _ _ H2 A1) as H3.
  destruct (At_ascii (rc (rc (rc l))) _ _ H3 A2) as (E3 & C3 & S3).
  pose proof (rc_ascii (rc (rc (rc l))) _ _ H3 A2) as H4.
  split; [|exact H4].
  unfold quoted_body. rewrite E, C. cbn [N.eqb Pos.eqb]. rewrite E1.
  unfold escape_switch. rewrite C1. cbn [N.eqb Pos.eqb andb].
  rewrite E2, E3, C2, C3. unfold wb. rewrite hex_byte by exact Hx. reflexivity.
Qed.

(* the closing quote *)
Lemma step_close : forall l b rest, At l (39%N :: rest) -> follow_ok rest ->
  qbody (l, b) = ((rc l, b), false) /\ At (rc l) rest.
Proof.
  intros l b rest H F. destruct (At_ascii l _ _ H ltac:(lia)) as (E & C & S).
  split; [|eapply rc_ascii; [eassumption|lia]].
  unfold quoted_body. rewrite E, C. cbn [N.eqb Pos.eqb].
  pose proof (peek_char_st l) as Hp. pose proof (peek_not_quote l rest E S F) as Hq.
  destruct (peek_char pure_stream l) as [pk l1]. cbn [fst snd] in *. subst l1. rewrite Hq. reflexivity.
Qed.

(* ------------------------------------------------------------------------------------------ *)
(* one source piece = one loop iteration that appends the decoded bytes (reversed) to the builder *)

Definition piece_ok (p : list N) (out : list N) : Prop :=
  forall (l : plex) b s, At l (p ++ s) ->
    exists l', qbody (l, b) = ((l', rev out ++ b), true) /\ At l' s.

Lemma quote_byte_piece : forall x, (x < 256)%N -> piece_ok (quote_byte x) [x].
Proof.
  intros x Hx l b s H. unfold quote_byte in H.
  destruct (x =? 39)%N eqn:C1.
  { apply N.eqb_eq in C1. subst x. cbn [app] in H.
    destruct (step_esc_self l b 39%N s H (or_introl eq_refl)) as [Hq Ha]. eexists; split; [exact Hq|exact Ha]. }
  destruct (x =? 92)%N eqn:C2.
  { apply N.eqb_eq in C2. subst x. cbn [app] in H.
    destruct (step_esc_self l b 92%N s H (or_intror eq_refl)) as [Hq Ha]. eexists; split; [exact Hq|exact Ha]. }
  apply N.eqb_neq in C1. apply N.eqb_neq in C2.
  destruct (is_plain_ascii x) eqn:C3.
  - cbn [app] in H. unfold is_plain_ascii in C3.
    assert (Hx128 : (x < 128)%N) by lia.
    destruct (step_plain l b x s H Hx128 C1 C2) as [Hq Ha]. eexists; split; [exact Hq|exact Ha].
  - destruct (step_hex l b x s H Hx) as [Hq Ha]. eexists; split; [exact Hq|exact Ha].
Qed.

(* the loop over a sequence of pieces followed by the closing quote *)
Lemma loop_pieces : forall (pieces : list (list N * list N)) rest,
  Forall (fun po => piece_ok (fst po) (snd po)) pieces -> follow_ok rest ->
  forall fuel (l : plex) b,
    At l (flat_map fst pieces ++ 39%N :: rest) -> length pieces < fuel ->
    exists l', loop fuel qbody (l, b) = Some (l', rev (flat_map snd pieces) ++ b) /\ At l' rest.
Proof.
  induction pieces as [|[p out] ps IH]; intros rest Hp F fuel l b H Hf.
  - cbn [flat_map app] in *. destruct fuel as [|f]; [inversion Hf|].
    destruct (step_close l b rest H F) as [Hq Ha].
    cbn [loop]. rewrite Hq. exists (rc l). split; [reflexivity|exact Ha].
  - inversion Hp as [|? ? Hp1 Hps]; subst. cbn [fst snd] in Hp1.
    cbn [flat_map fst snd] in *. rewrite <- app_assoc in H.
    destruct fuel as [|f]; [inversion Hf|]. cbn [length] in Hf.
    destruct (Hp1 l b _ H) as (l1 & Hq & Ha).
    cbn [loop]. rewrite Hq. cbv beta iota.
    destruct (IH rest Hps F f l1 (rev out ++ b) Ha ltac:(lia)) as (l' & Hl & Ha').
    exists l'. split; [|exact Ha'].
    etransitivity; [exact Hl|]. rewrite rev_app_distr, <- app_assoc. reflexivity.
Qed.

Lemma sb_str_rev : forall v, sb_str (rev v ++ []) = v.
Proof.
  intros v. unfold sb_str, frev. rewrite app_nil_r, rev_append_rev, app_nil_r. apply rev_involutive.
Qed.

(* read_string on  ' pieces ' rest *)
Lemma read_string_pieces : forall pieces rest,
  Forall (fun po => piece_ok (fst po) (snd po)) pieces -> follow_ok rest ->
  forall fuel (l : plex),
    At l (39%N :: flat_map fst pieces ++ 39%N :: rest) -> length pieces < fuel ->
    exists l', read_string pure_stream fuel l =
                 Some (mk_item T_STRING (flat_map snd pieces) (l_pos l) false, l') /\ At l' rest.
Proof.
  intros pieces rest Hp F fuel l H Hf.
  pose proof (rc_ascii l _ _ H ltac:(lia)) as H1.
  destruct (loop_pieces pieces rest Hp F fuel (rc l) [] H1 Hf) as (l' & Hl & Ha).
  exists l'. split; [|exact Ha].
  unfold read_string, sb in *. rewrite Hl. cbn [bind]. rewrite sb_str_rev. reflexivity.
Qed.

(* ------------------------------------------------------------------------------------------ *)
(* quote *)

Definition byte_pieces (v : list N) : list (list N * list N) := map (fun x => (quote_byte x, [x])) v.

Lemma byte_pieces_src : forall v, flat_map fst (byte_pieces v) = quote_body v.
Proof.
  unfold byte_pieces, quote_body. induction v as [|x v IH]; [reflexivity|].
  cbn [map flat_map fst]. rewrite IH. reflexivity.
Qed.
Lemma byte_pieces_out : forall v, flat_map snd (byte_pieces v) = v.
Proof.
  unfold byte_pieces. induction v as [|x v IH]; [reflexivity|].
  cbn [map flat_map snd app]. rewrite IH. reflexivity.
Qed.
Lemma byte_pieces_ok : forall v, bytes_ok v -> Forall (fun po => piece_ok (fst po) (snd po)) (byte_pieces v).
Proof.
  induction v as [|x v IH]; intros H; cbn; constructor.
  - cbn. apply quote_byte_piece. inversion H; assumption.
  - apply IH. inversion H; assumption.
Qed.

Theorem read_string_quote : forall v rest, bytes_ok v -> follow_ok rest ->
  forall fuel (l : plex), At l (quote v ++ rest) -> length v < fuel ->
  exists l', read_string pure_stream fuel l = Some (mk_item T_STRING v (l_pos l) false, l') /\ At l' rest.
Proof.
  intros v rest Hv F fuel l H Hf.
  unfold quote in H. cbn [app] in H. rewrite <- app_assoc in H. cbn [app] in H.
  rewrite <- byte_pieces_src in H.
  destruct (read_string_pieces (byte_pieces v) rest (byte_pieces_ok v Hv) F fuel l H) as (l' & Hr & Ha).
  - unfold byte_pieces. rewrite map_length. exact Hf.
  - exists l'. rewrite byte_pieces_out in Hr. auto.
Qed.

(* ------------------------------------------------------------------------------------------ *)
(* UTF-8 round trip on well-formed multi-byte sequences, and quote_raw *)

Lemma encode_decode : forall s, 1 < snd (decode_rune s) ->
  encode_rune (fst (decode_rune s)) = firstn (snd (decode_rune s)) s.
Proof.
  intros s. unfold decode_rune.
  destruct s as [|p0 t]; [cbn; lia|].
  destruct (p0 <? 128)%N eqn:H0; [cbn; lia|].
  destruct (p0 <? 194)%N eqn:H1; [cbn; lia|].
  destruct (p0 <? 224)%N eqn:H2.
  { destruct t as [|b1 t]; [cbn; lia|]. unfold is_cont, in_range.
    destruct ((128 <=? b1)%N && (b1 <=? 191)%N) eqn:C1; [|cbn; lia].
    intros _. cbn [fst snd firstn]. unfold encode_rune.
    set (r := ((p0 - 192) * 64 + (b1 - 128))%N).
    assert (Hr : (128 <= r < 2048)%N) by (unfold r; lia).
    assert (Hd : (r / 64 = p0 - 192)%N).
    { unfold r. rewrite N.div_add_l by lia. rewrite N.div_small by lia. lia. }
    assert (Hm : (r mod 64 = b1 - 128)%N).
    { unfold r. rewrite N.add_comm, N.mod_add by lia. apply N.mod_small. lia. }
    destruct (r <? 128)%N eqn:R1; [lia|]. destruct (r <? 2048)%N eqn:R2; [|lia].
    rewrite Hd, Hm. f_equal; [lia|]. f_equal. lia. }
  destruct (p0 <? 240)%N eqn:H3.
  { destruct t as [|b1 [|b2 t]]; [cbn; lia|cbn; lia|]. unfold is_cont, in_range.
    destruct (((if (p0 =? 224)%N then 160%N else 128%N) <=? b1)%N &&
              (b1 <=? (if (p0 =? 237)%N then 159%N else 191%N))%N) eqn:C1; [|cbn; lia].
    destruct ((128 <=? b2)%N && (b2 <=? 191)%N) eqn:C2; [|cbn; lia].
    intros _. cbn [fst snd firstn]. unfold encode_rune.
    set (r := ((p0 - 224) * 4096 + (b1 - 128) * 64 + (b2 - 128))%N).
    assert (Hb1 : (128 <= b1 <= 191)%N) by (destruct (p0 =? 224)%N, (p0 =? 237)%N; lia).
    assert (Hlo : (2048 <= r)%N).
    { unfold r. destruct (p0 =? 224)%N eqn:Q; [apply N.eqb_eq in Q; subst p0; lia|apply N.eqb_neq in Q; lia]. }
    assert (Hhi : (r < 65536)%N) by (unfold r; lia).
    assert (Hsur : is_surrogate r = false).
    { unfold is_surrogate, in_range, r.
      destruct (p0 =? 237)%N eqn:Q; [apply N.eqb_eq in Q; subst p0; lia|apply N.eqb_neq in Q].
      destruct (N.lt_ge_cases p0 237); lia. }
    assert (Hd1 : (r / 4096 = p0 - 224)%N).
    { unfold r. rewrite <- N.add_assoc. rewrite N.div_add_l by lia. rewrite N.div_small by lia. lia. }
    assert (Hd2 : ((r / 64) mod 64 = b1 - 128)%N).
    { unfold r. replace ((p0 - 224) * 4096 + (b1 - 128) * 64 + (b2 - 128))%N
        with ((b2 - 128) + ((p0 - 224) * 64 + (b1 - 128)) * 64)%N by lia.
      rewrite N.div_add by lia. rewrite N.div_small by lia.
      rewrite N.add_0_l. rewrite N.add_comm, N.mod_add by lia. apply N.mod_small. lia. }
    assert (Hm : (r mod 64 = b2 - 128)%N).
    { unfold r. replace ((p0 - 224) * 4096 + (b1 - 128) * 64 + (b2 - 128))%N
        with ((b2 - 128) + ((p0 - 224) * 64 + (b1 - 128)) * 64)%N by lia.
      rewrite N.mod_add by lia. apply N.mod_small. lia. }
    destruct (r <? 128)%N eqn:R1; [lia|]. destruct (r <? 2048)%N eqn:R2; [lia|].
    unfold max_rune. destruct (1114111 <? r)%N eqn:R3; [lia|]. rewrite Hsur. cbn [orb].
    destruct (r <? 65536)%N eqn:R4; [|lia].
    rewrite Hd1, Hd2, Hm. f_equal; [lia|]. f_equal; [lia|]. f_equal. lia. }
  destruct (p0 <? 245)%N eqn:H4; [|cbn; lia].
  destruct t as [|b1 [|b2 [|b3 t]]]; [cbn; lia|cbn; lia|cbn; lia|]. unfold is_cont, in_range.
  destruct (((if (p0 =? 240)%N then 144%N else 128%N) <=? b1)%N &&
            (b1 <=? (if (p0 =? 244)%N then 143%N else 191%N))%N) eqn:C1; [|cbn; lia].
  destruct ((128 <=? b2)%N && (b2 <=? 191)%N) eqn:C2; [|cbn; lia].
  destruct ((128 <=? b3)%N && (b3 <=? 191)%N) eqn:C3; [|cbn; lia].
  intros _. cbn [fst snd firstn]. unfold encode_rune.
  set (r := ((p0 - 240) * 262144 + (b1 - 128) * 4096 + (b2 - 128) * 64 + (b3 - 128))%N).
  assert (Hb1 : (128 <= b1 <= 191)%N) by (destruct (p0 =? 240)%N, (p0 =? 244)%N; lia).
  assert (Hlo : (65536 <= r)%N).
  { unfold r. destruct (p0 =? 240)%N eqn:Q; [apply N.eqb_eq in Q; subst p0; lia|apply N.eqb_neq in Q; lia]. }
  assert (Hhi : (r <= 1114111)%N).
  { unfold r. destruct (p0 =? 244)%N eqn:Q; [apply N.eqb_eq in Q; subst p0; lia|apply N.eqb_neq in Q; lia]. }
  assert (Hsur : is_surrogate r = false) by (unfold is_surrogate, in_range; lia).
  set (q := ((p0 - 240) * 4096 + (b1 - 128) * 64 + (b2 - 128))%N).
  assert (Hrq : (r = (b3 - 128) + q * 64)%N) by (unfold r, q; lia).
  assert (Hq64 : (r / 64 = q)%N).
  { rewrite Hrq. rewrite N.div_add by lia. rewrite N.div_small by lia. lia. }
  assert (Hm : (r mod 64 = b3 - 128)%N).
  { rewrite Hrq. rewrite N.mod_add by lia. apply N.mod_small. lia. }
  assert (Hd2 : ((r / 64) mod 64 = b2 - 128)%N).
  { rewrite Hq64. unfold q.
    replace ((p0 - 240) * 4096 + (b1 - 128) * 64 + (b2 - 128))%N
      with ((b2 - 128) + ((p0 - 240) * 64 + (b1 - 128)) * 64)%N by lia.
    rewrite N.mod_add by lia. apply N.mod_small. lia. }
  assert (Hd3 : ((r / 4096) mod 64 = b1 - 128)%N).
  { replace 4096%N with (64 * 64)%N by reflexivity. rewrite <- N.div_div by lia. rewrite Hq64. unfold q.
    replace ((p0 - 240) * 4096 + (b1 - 128) * 64 + (b2 - 128))%N
      with ((b2 - 128) + ((p0 - 240) * 64 + (b1 - 128)) * 64)%N by lia.
    rewrite N.div_add by lia. rewrite N.div_small by lia. rewrite N.add_0_l.
    rewrite N.add_comm, N.mod_add by lia. apply N.mod_small. lia. }
  assert (Hd4 : (r / 262144 = p0 - 240)%N).
  { replace 262144%N with (64 * 4096)%N by reflexivity. rewrite <- N.div_div by lia. rewrite Hq64. unfold q.
    rewrite <- N.add_assoc. rewrite N.div_add_l by lia. rewrite N.div_small by lia. lia. }
  destruct (r <? 128)%N eqn:R1; [lia|]. destruct (r <? 2048)%N eqn:R2; [lia|].
  unfold max_rune. destruct (1114111 <? r)%N eqn:R3; [lia|]. rewrite Hsur. cbn [orb].
  destruct (r <? 65536)%N eqn:R4; [lia|].
  rewrite Hd4, Hd3, Hd2, Hm. f_equal; [lia|]. f_equal; [lia|]. f_equal; [lia|]. f_equal. lia.
Qed.

Lemma decode_multibyte_rune : forall s, 1 < snd (decode_rune s) -> (128 <= fst (decode_rune s))%N.
Proof.
  intros s H. pose proof (encode_decode s H) as He.
  destruct (N.lt_ge_cases (fst (decode_rune s)) 128) as [Hlt|Hge]; [|exact Hge].
  exfalso. unfold encode_rune in He. apply N.ltb_lt in Hlt. rewrite Hlt in He.
  assert (Hl : length (firstn (snd (decode_rune s)) s) = 1) by (rewrite <- He; reflexivity).
  rewrite firstn_length in Hl.
  assert (Hs : snd (decode_rune s) <= length s).
  { clear. unfold decode_rune.
    repeat match goal with
           | |- context [match ?l with [] => _ | _ :: _ => _ end] => destruct l
           | |- context [if ?c then _ else _] => destruct c
           end; cbn; lia. }
  lia.
Qed.

(* a raw well-formed multi-byte sequence is one plain iteration *)
Lemma raw_piece : forall p, 1 < snd (decode_rune p) -> snd (decode_rune p) = length p -> piece_ok p p.
Proof.
  intros p Hw Hlen l b s H.
  assert (Hdec : decode_rune (p ++ s) = decode_rune p).
  { clear - Hw Hlen. unfold decode_rune in *.
    destruct p as [|p0 [|b1 [|b2 [|b3 [|b4 t]]]]]; cbn [app] in *;
    repeat match goal with
           | H : context [if ?c then _ else _] |- _ => destruct c eqn:?
           end; cbn in *; try lia; try reflexivity. }
  destruct H as (E & C & S).
  assert (Hne : p <> []) by (intros ->; cbn in Hw; lia).
  assert (E' : l_eof l = false) by (rewrite E; destruct p; [contradiction|reflexivity]).
  assert (C' : l_ch l = fst (decode_rune p)).
  { rewrite C, Hdec. destruct p; [contradiction|reflexivity]. }
  assert (S' : l_src l = s).
  { rewrite S, Hdec, Hlen. rewrite skipn_app, skipn_all, Nat.sub_diag. reflexivity. }
  pose proof (decode_multibyte_rune p Hw) as Hr.
  exists (rc l). split.
  - unfold quoted_body. rewrite E', C'.
    destruct (fst (decode_rune p) =? 39)%N eqn:Q1; [apply N.eqb_eq in Q1; lia|].
    destruct (fst (decode_rune p) =? 92)%N eqn:Q2; [apply N.eqb_eq in Q2; lia|].
    unfold wr. rewrite encode_decode by exact Hw. rewrite Hlen, firstn_all.
    rewrite rev_append_rev. reflexivity.
  - rewrite <- S'. apply rc_At. exact E'.
Qed.

Lemma decode_size_le : forall s, snd (decode_rune s) <= length s.
Proof.
  intros s. unfold decode_rune.
  repeat match goal with
         | |- context [match ?l with [] => _ | _ :: _ => _ end] => destruct l
         | |- context [if ?c then _ else _] => destruct c
         end; cbn; lia.
Qed.

Lemma decode_firstn : forall s, 1 < snd (decode_rune s) ->
  decode_rune (firstn (snd (decode_rune s)) s) = decode_rune s.
Proof.
  intros s. unfold decode_rune.
  destruct s as [|p0 [|b1 [|b2 [|b3 t]]]];
    repeat match goal with
           | |- context [if ?c then _ else _] => destruct c eqn:?
           end; cbn; try lia; intros _;
    repeat match goal with
           | H : ?c = _ |- context [if ?c then _ else _] => rewrite H
           end; reflexivity.
Qed.

(* the pieces of quote_raw *)
Fixpoint raw_pieces (fuel : nat) (v : list N) : list (list N * list N) :=
  match fuel with
  | O => []
  | S f =>
      match v with
      | [] => []
      | b :: v' =>
          if (b <? 128)%N then (quote_byte b, [b]) :: raw_pieces f v'
          else
            let sz := snd (decode_rune v) in
            if Nat.ltb 1 sz then (firstn sz v, firstn sz v) :: raw_pieces f (skipn sz v)
            else (hex_escape b, [b]) :: raw_pieces f v'
      end
  end.

Lemma raw_pieces_src : forall fuel v, flat_map fst (raw_pieces fuel v) = quote_raw_body fuel v.
Proof.
  induction fuel as [|f IH]; intros v; [reflexivity|]. cbn [raw_pieces quote_raw_body].
  destruct v as [|b v']; [reflexivity|].
  destruct (b <? 128)%N; [cbn; rewrite IH; reflexivity|].
  destruct (Nat.ltb 1 (snd (decode_rune (b :: v')))); cbn [flat_map fst]; rewrite IH; reflexivity.
Qed.

Lemma raw_pieces_out : forall fuel v, length v <= fuel -> flat_map snd (raw_pieces fuel v) = v.
Proof.
  induction fuel as [|f IH]; intros v Hl.
  - destruct v; [reflexivity|cbn in Hl; lia].
  - cbn [raw_pieces]. destruct v as [|b v']; [reflexivity|]. cbn [length] in Hl.
    destruct (b <? 128)%N; [cbn; rewrite IH by lia; reflexivity|].
    destruct (Nat.ltb 1 (snd (decode_rune (b :: v')))) eqn:W.
    + cbn [flat_map snd]. rewrite IH.
      * apply firstn_skipn.
      * apply Nat.ltb_lt in W. rewrite skipn_length. cbn [length]. lia.
    + cbn. rewrite IH by lia. reflexivity.
Qed.

Lemma hex_escape_piece : forall x, (x < 256)%N -> piece_ok (hex_escape x) [x].
Proof.
  intros x Hx l b s H. destruct (step_hex l b x s H Hx) as [Hq Ha]. eexists; split; [exact Hq|exact Ha].
Qed.

Lemma raw_pieces_ok : forall fuel v, bytes_ok v ->
  Forall (fun po => piece_ok (fst po) (snd po)) (raw_pieces fuel v).
Proof.
  induction fuel as [|f IH]; intros v Hv; [constructor|]. cbn [raw_pieces].
  destruct v as [|b v']; [constructor|].
  assert (Hb : (b < 256)%N) by (inversion Hv; assumption).
  assert (Hv' : bytes_ok v') by (inversion Hv; assumption).
  destruct (b <? 128)%N.
  { constructor; [cbn; apply quote_byte_piece; exact Hb|apply IH; exact Hv']. }
  destruct (Nat.ltb 1 (snd (decode_rune (b :: v')))) eqn:W.
  - apply Nat.ltb_lt in W. constructor.
    + cbn [fst snd]. apply raw_piece.
      * rewrite decode_firstn by exact W. exact W.
      * rewrite decode_firstn by exact W. rewrite firstn_length.
        pose proof (decode_size_le (b :: v')). lia.
    + apply IH. unfold bytes_ok in *. apply Forall_forall. intros x Hx.
      rewrite Forall_forall in Hv. apply Hv.
      rewrite <- (firstn_skipn (snd (decode_rune (b :: v'))) (b :: v')). apply in_or_app. right. exact Hx.
  - constructor; [cbn; apply hex_escape_piece; exact Hb|apply IH; exact Hv'].
Qed.

Lemma raw_pieces_length : forall fuel v, length (raw_pieces fuel v) <= length v.
Proof.
  induction fuel as [|f IH]; intros v; [cbn; lia|]. cbn [raw_pieces].
  destruct v as [|b v']; [cbn; lia|].
  destruct (b <? 128)%N; [cbn [length]; specialize (IH v'); lia|].
  destruct (Nat.ltb 1 (snd (decode_rune (b :: v')))) eqn:W.
  - apply Nat.ltb_lt in W. cbn [length]. specialize (IH (skipn (snd (decode_rune (b :: v'))) (b :: v'))).
    rewrite skipn_length in IH. cbn [length] in *. lia.
  - cbn [length]. specialize (IH v'). lia.
Qed.

Theorem read_string_quote_raw : forall v rest, bytes_ok v -> follow_ok rest ->
  forall fuel (l : plex), At l (quote_raw v ++ rest) -> length v < fuel ->
  exists l', read_string pure_stream fuel l = Some (mk_item T_STRING v (l_pos l) false, l') /\ At l' rest.
Proof.
  intros v rest Hv F fuel l H Hf.
  unfold quote_raw in H. cbn [app] in H. rewrite <- app_assoc in H. cbn [app] in H.
  rewrite <- raw_pieces_src in H.
  destruct (read_string_pieces (raw_pieces (length v) v) rest (raw_pieces_ok _ v Hv) F fuel l H) as (l' & Hr & Ha).
  - pose proof (raw_pieces_length (length v) v). lia.
  - exists l'. rewrite raw_pieces_out in Hr by lia. auto.
Qed.

(* ------------------------------------------------------------------------------------------ *)
(* through NextToken and Tokenize *)

(* NextToken on a lexer whose current character is ' *)
Lemma next_token_at_quote : forall fuel (l : plex), l_eof l = false -> l_ch l = 39%N -> 0 < fuel ->
  next_token pure_stream fuel l = read_string pure_stream fuel l.
Proof.
  intros fuel l E C Hf. unfold next_token.
  assert (Hsk : skip_whitespace pure_stream fuel l = Some l).
  { destruct fuel as [|f]; [lia|]. unfold skip_whitespace, skip_while. cbn [loop]. rewrite C. reflexivity. }
  rewrite Hsk. cbn [bind]. rewrite E, C. reflexivity.
Qed.

(* any source spelling that read_string reads as v *)
Definition reads_as (q : list N) (v : list N) : Prop :=
  forall rest, follow_ok rest -> forall fuel (l : plex), At l (q ++ rest) -> length v < fuel ->
  exists l', read_string pure_stream fuel l = Some (mk_item T_STRING v (l_pos l) false, l') /\ At l' rest.

Lemma next_token_reads : forall q v, reads_as q v -> (exists q', q = 39%N :: q') ->
  forall rest, follow_ok rest -> forall fuel (l : plex), At l (q ++ rest) -> length v < fuel ->
  exists l', next_token pure_stream fuel l = Some (mk_item T_STRING v (l_pos l) false, l') /\ At l' rest.
Proof.
  intros q v Hr (q' & ->) rest F fuel l H Hf.
  destruct (At_ascii l _ _ H ltac:(lia)) as (E & C & _).
  rewrite next_token_at_quote; [|exact E|exact C|lia]. apply Hr; assumption.
Qed.

Lemma init_At : forall bs, At (init_lex pure_stream bs) bs.
Proof. intros bs. unfold init_lex. apply (rc_At (mkLex bs 0%N _ false)). reflexivity. Qed.

Definition string_item (v : list N) : item :=
  mk_item T_STRING v (l_pos (init_lex pure_stream ([] : list N))) false.

Lemma init_pos : forall b bs, l_pos (init_lex pure_stream (b :: bs)) =
  {| p_off := N.of_nat (snd (decode_rune (b :: bs))); p_line := 1; p_col := 1 |}.
Proof.
  intros b bs. unfold init_lex, read_char. cbn [l_eof l_src s_read_rune pure_stream pure_read_rune].
  destruct (decode_rune (b :: bs)) as [r sz]. reflexivity.
Qed.

Lemma tokenize_reads : forall q v, reads_as q v -> (exists q', q = 39%N :: q') -> length v <= length q ->
  exists e, tokenize q =
    Some [mk_item T_STRING v {| p_off := 1; p_line := 1; p_col := 1 |} false; e] /\ it_tok e = T_EOF /\ it_val e = [].
Proof.
  intros q v Hr Hq Hl.
  pose proof (next_token_reads q v Hr Hq [] I (length q + 2) (init_lex pure_stream (q ++ []))) as Hn.
  destruct Hn as (l' & Hn & Ha); [apply init_At|lia|].
  rewrite app_nil_r in Hn.
  unfold tokenize, tokenize_fuel.
  replace (length q + 2) with (S (S (length q))) in * by lia.
  cbn [tokenize_loop]. rewrite Hn. cbn [bind mk_item it_tok].
  change (T_STRING =? T_EOF)%N with false. cbv iota.
  destruct (At_nil l' Ha) as (E' & C').
  rewrite (next_token_at_end (S (S (length q))) l' (At_wf l' [] Ha) (or_introl E')) by lia.
  cbn [bind eof_item mk_item it_tok]. rewrite N.eqb_refl.
  destruct Hq as (q' & ->). rewrite init_pos. cbn [decode_rune N.ltb N.compare Pos.compare Pos.compare_cont snd N.of_nat Pos.of_succ_nat].
  eexists. split; [reflexivity|]. split; reflexivity.
Qed.

Lemma quote_reads : forall v, bytes_ok v -> reads_as (quote v) v.
Proof. intros v Hv rest F fuel l H Hf. apply read_string_quote; assumption. Qed.
Lemma quote_raw_reads : forall v, bytes_ok v -> reads_as (quote_raw v) v.
Proof. intros v Hv rest F fuel l H Hf. apply read_string_quote_raw; assumption. Qed.

Lemma quote_body_length : forall v, length v <= length (quote_body v).
Proof.
  induction v as [|x v IH]; [cbn; lia|]. cbn [quote_body flat_map]. rewrite app_length.
  fold (quote_body v). assert (1 <= length (quote_byte x)).
  { unfold quote_byte, hex_escape. repeat match goal with |- context [if ?c then _ else _] => destruct c end; cbn; lia. }
  cbn [length]. lia.
Qed.

Lemma pieces_len : forall ps : list (list N * list N),
  Forall (fun po => length (snd po) <= length (fst po)) ps ->
  length (flat_map snd ps) <= length (flat_map fst ps).
Proof.
  induction ps as [|[p o] ps IH]; intros H; [cbn; lia|].
  inversion H as [|? ? H1 H2]; subst. cbn [flat_map fst snd] in *. rewrite !app_length. specialize (IH H2). lia.
Qed.

Lemma raw_pieces_len_ok : forall fuel v,
  Forall (fun po => length (snd po) <= length (fst po)) (raw_pieces fuel v).
Proof.
  induction fuel as [|f IH]; intros v; [constructor|]. cbn [raw_pieces].
  destruct v as [|b v']; [constructor|].
  destruct (b <? 128)%N.
  { constructor; [|apply IH]. cbn [fst snd]. unfold quote_byte, hex_escape.
    repeat match goal with |- context [if ?c then _ else _] => destruct c end; cbn; lia. }
  destruct (Nat.ltb 1 (snd (decode_rune (b :: v')))); constructor; try apply IH; cbn; lia.
Qed.

Lemma quote_raw_body_length : forall fuel v, length v <= fuel -> length v <= length (quote_raw_body fuel v).
Proof.
  intros fuel v Hl. rewrite <- raw_pieces_src.
  rewrite <- (raw_pieces_out fuel v Hl) at 1.
  apply pieces_len, raw_pieces_len_ok.
Qed.

(* for every byte string v: its quoted spelling lexes to exactly [STRING v; EOF] *)
Theorem tokenize_quote : forall v, bytes_ok v ->
  exists e, tokenize (quote v) =
    Some [mk_item T_STRING v {| p_off := 1; p_line := 1; p_col := 1 |} false; e] /\ it_tok e = T_EOF /\ it_val e = [].
Proof.
  intros v Hv. apply tokenize_reads; [apply quote_reads; exact Hv|eexists; reflexivity|].
  unfold quote. cbn [length]. rewrite app_length. pose proof (quote_body_length v). lia.
Qed.

Theorem tokenize_quote_raw : forall v, bytes_ok v ->
  exists e, tokenize (quote_raw v) =
    Some [mk_item T_STRING v {| p_off := 1; p_line := 1; p_col := 1 |} false; e] /\ it_tok e = T_EOF /\ it_val e = [].
Proof.
  intros v Hv. apply tokenize_reads; [apply quote_raw_reads; exact Hv|eexists; reflexivity|].
  unfold quote_raw. cbn [length]. rewrite app_length.
  pose proof (quote_raw_body_length (length v) v (le_n _)). lia.
Qed.

(* the first token of  quote v ++ rest  and the position of the lexer afterwards *)
Theorem next_token_quote : forall v rest, bytes_ok v -> follow_ok rest ->
  forall fuel (l : plex), At l (quote v ++ rest) -> length v < fuel ->
  exists l', next_token pure_stream fuel l = Some (mk_item T_STRING v (l_pos l) false, l') /\ At l' rest.
Proof.
  intros v rest Hv. apply next_token_reads; [apply quote_reads; exact Hv|eexists; reflexivity].
Qed.

Theorem next_token_quote_raw : forall v rest, bytes_ok v -> follow_ok rest ->
  forall fuel (l : plex), At l (quote_raw v ++ rest) -> length v < fuel ->
  exists l', next_token pure_stream fuel l = Some (mk_item T_STRING v (l_pos l) false, l') /\ At l' rest.
Proof.
  intros v rest Hv. apply next_token_reads; [apply quote_raw_reads; exact Hv|eexists; reflexivity].
Qed.

(* ------------------------------------------------------------------------------------------ *)
(* the decoding table, by computation on the model *)

(* the value of the single STRING token of a source text *)
Definition lex_string (srcb : list N) : option (list N) :=
  match tokenize srcb with
  | Some [s; e] => if (it_tok s =? T_STRING)%N && (it_tok e =? T_EOF)%N then Some (it_val s) else None
  | _ => None
  end.

(* '\c' for one escape letter c *)
Definition esc1 (c : N) : list N := [39; 92; c; 39]%N.

Example esc_n  : lex_string (esc1 110) = Some [10%N].  Proof. vm_compute. reflexivity. Qed.   (* \n *)
Example esc_t  : lex_string (esc1 116) = Some [9%N].   Proof. vm_compute. reflexivity. Qed.   (* \t *)
Example esc_r  : lex_string (esc1 114) = Some [13%N].  Proof. vm_compute. reflexivity. Qed.   (* \r *)
Example esc_0  : lex_string (esc1 48)  = Some [0%N].   Proof. vm_compute. reflexivity. Qed.   (* \0 *)
Example esc_a  : lex_string (esc1 97)  = Some [7%N].   Proof. vm_compute. reflexivity. Qed.   (* \a *)
Example esc_b  : lex_string (esc1 98)  = Some [8%N].   Proof. vm_compute. reflexivity. Qed.   (* \b *)
Example esc_f  : lex_string (esc1 102) = Some [12%N].  Proof. vm_compute. reflexivity. Qed.   (* \f *)
Example esc_v  : lex_string (esc1 118) = Some [11%N].  Proof. vm_compute. reflexivity. Qed.   (* \v *)
Example esc_e  : lex_string (esc1 101) = Some [27%N].  Proof. vm_compute. reflexivity. Qed.   (* \e *)
Example esc_bs : lex_string (esc1 92)  = Some [92%N].  Proof. vm_compute. reflexivity. Qed.   (* \\ *)
Example esc_sq : lex_string (esc1 39)  = Some [39%N].  Proof. vm_compute. reflexivity. Qed.   (* \' *)
Example esc_dq : lex_string (esc1 34)  = Some [34%N].  Proof. vm_compute. reflexivity. Qed.   (* backslash double-quote *)

(* every other ASCII escape letter keeps the backslash: '\c' denotes the two bytes \ c *)
Definition known_escape (c : N) : bool :=
  existsb (N.eqb c) [39; 34; 92; 110; 116; 114; 48; 97; 98; 102; 118; 101; 120]%N.
Example unknown_escapes_keep_backslash :
  forallb (fun c => known_escape c ||
                    match lex_string (esc1 c) with
                    | Some v => (match v with [a; b] => (a =? 92)%N && (b =? c)%N | _ => false end)
                    | None => false
                    end) (map N.of_nat (seq 1 127)) = true.
Proof. vm_compute. reflexivity. Qed.
(* ... and so does a non-ASCII character after the backslash:  '\é'  is  \ 0xC3 0xA9 *)
Example unknown_escape_utf8 : lex_string [39; 92; 195; 169; 39]%N = Some [92; 195; 169]%N.
Proof. vm_compute. reflexivity. Qed.

(* \xHH, both cases of hex digits; a non-hex digit counts as 0 *)
Example esc_x41 : lex_string [39; 92; 120; 52; 49; 39]%N = Some [65%N].     Proof. vm_compute. reflexivity. Qed.
Example esc_xfF : lex_string [39; 92; 120; 102; 70; 39]%N = Some [255%N].   Proof. vm_compute. reflexivity. Qed.
Example esc_xZZ : lex_string [39; 92; 120; 90; 90; 39]%N = Some [0%N].      Proof. vm_compute. reflexivity. Qed.
(* \x followed by the closing quote eats the quote as a "digit": '\x4' is unterminated, value 0x40 *)
Example esc_x4_quote : lex_string [39; 92; 120; 52; 39]%N = Some [64%N].    Proof. vm_compute. reflexivity. Qed.
(* \x with no / one digit at the end of input *)
Example esc_x_eof0 : lex_string [39; 97; 92; 120]%N = Some [97%N].          Proof. vm_compute. reflexivity. Qed.
Example esc_x_eof1 : lex_string [39; 97; 92; 120; 52]%N = Some [97; 4]%N.   Proof. vm_compute. reflexivity. Qed.
(* a backslash at the end of input is dropped; an unterminated string ends at the end of input *)
Example esc_eof : lex_string [39; 97; 92]%N = Some [97%N].                  Proof. vm_compute. reflexivity. Qed.
Example unterminated : lex_string [39; 97; 98]%N = Some [97; 98]%N.         Proof. vm_compute. reflexivity. Qed.
(* the doubled quote *)
Example doubled_quote : lex_string [39; 97; 39; 39; 98; 39]%N = Some [97; 39; 98]%N.  Proof. vm_compute. reflexivity. Qed.
Example only_doubled_quote : lex_string [39; 39; 39; 39]%N = Some [39%N].   Proof. vm_compute. reflexivity. Qed.
(* raw bytes: a raw newline and a raw NUL are kept, a raw invalid UTF-8 byte becomes U+FFFD (EF BF BD) — the
   reason why [quote] spells such bytes \xHH *)
Example raw_newline : lex_string [39; 97; 10; 98; 39]%N = Some [97; 10; 98]%N.        Proof. vm_compute. reflexivity. Qed.
Example raw_nul : lex_string [39; 0; 39]%N = Some [0%N].                              Proof. vm_compute. reflexivity. Qed.
Example raw_invalid_byte_is_lost : lex_string [39; 255; 39]%N = Some [239; 191; 189]%N.  Proof. vm_compute. reflexivity. Qed.

(* non-vacuity: a value with quote, backslash, newline, NUL, 0xFF and "é" *)
Definition sample_value : list N := [113; 39; 92; 10; 0; 255; 195; 169]%N.
Example sample_quote : quote sample_value =
  [39; 113; 92; 39; 92; 92; 92; 120; 48; 97; 92; 120; 48; 48; 92; 120; 102; 102; 92; 120; 99; 51; 92; 120; 97; 57; 39]%N.
Proof. vm_compute. reflexivity. Qed.           (* 'q\'\\\x0a\x00\xff\xc3\xa9' *)
Example sample_quote_raw : quote_raw sample_value =
  [39; 113; 92; 39; 92; 92; 92; 120; 48; 97; 92; 120; 48; 48; 92; 120; 102; 102; 195; 169; 39]%N.
Proof. vm_compute. reflexivity. Qed.           (* 'q\'\\\x0a\x00\xffé' *)
Example sample_lex : lex_string (quote sample_value) = Some sample_value.
Proof. vm_compute. reflexivity. Qed.
Example sample_lex_raw : lex_string (quote_raw sample_value) = Some sample_value.
Proof. vm_compute. reflexivity. Qed.

(* ------------------------------------------------------------------------------------------ *)
(* unknown escapes, for every rune: a backslash followed by a character that is not an escape letter keeps the
   backslash AND the whole character (all bytes of its UTF-8 encoding) *)

(* the escape letters of readString: quote, double quote, backslash, n t r 0 a b f v e x *)
Definition escape_letter (c : N) : bool :=
  existsb (N.eqb c) [39; 34; 92; 110; 116; 114; 48; 97; 98; 102; 118; 101; 120]%N.

Lemma escape_switch_default : forall (l : plex) b c, l_ch l = c -> escape_letter c = false ->
  escape_switch pure_stream false l b = (l, wr c (wr 92%N b), true).
Proof.
  intros l b c C H. unfold escape_letter in H. cbn [existsb] in H.
  repeat (apply orb_false_iff in H; destruct H as [? H]).
  unfold escape_switch. rewrite C.
  repeat match goal with Q : (c =? ?k)%N = false |- _ => rewrite Q; clear Q end.
  cbn [andb]. reflexivity.
Qed.

(* ASCII: '\c' for c not an escape letter denotes the two bytes \ c   (c = NUL included) *)
Theorem unknown_escape_ascii : forall c, (c < 128)%N -> escape_letter c = false -> piece_ok [92%N; c] [92%N; c].
Proof.
  intros c Hc Hk l b s H. cbn [app] in H.
  destruct (At_ascii l _ _ H ltac:(lia)) as (E & C & S).
  pose proof (rc_ascii l _ _ H ltac:(lia)) as H1.
  destruct (At_ascii (rc l) _ _ H1 Hc) as (E1 & C1 & S1).
  exists (rc (rc l)). split; [|eapply rc_ascii; eassumption].
  unfold quoted_body. rewrite E, C. cbn [N.eqb Pos.eqb]. rewrite E1.
  rewrite (escape_switch_default (rc l) b c C1 Hk). rewrite wr_ascii by exact Hc. rewrite wr_ascii by lia.
  reflexivity.
Qed.

(* a well-formed multi-byte character p after the backslash: the value gets \ followed by ALL bytes of p *)
Theorem unknown_escape_rune : forall p, 1 < snd (decode_rune p) -> snd (decode_rune p) = length p ->
  piece_ok (92%N :: p) (92%N :: p).
Proof.
  intros p Hw Hlen l b s H. cbn [app] in H.
  destruct (At_ascii l _ _ H ltac:(lia)) as (E & C & S).
  pose proof (rc_ascii l _ _ H ltac:(lia)) as H1.
  assert (Hdec : decode_rune (p ++ s) = decode_rune p).
  { clear - Hw Hlen. unfold decode_rune in *.
    destruct p as [|p0 [|b1 [|b2 [|b3 [|b4 t]]]]]; cbn [app] in *;
    repeat match goal with
           | H : context [if ?c then _ else _] |- _ => destruct c eqn:?
           end; cbn in *; try lia; try reflexivity. }
  destruct H1 as (E1 & C1 & S1).
  assert (Hne : p <> []) by (intros ->; cbn in Hw; lia).
  assert (E1' : l_eof (rc l) = false) by (rewrite E1; destruct p; [contradiction|reflexivity]).
  assert (C1' : l_ch (rc l) = fst (decode_rune p)).
  { rewrite C1, Hdec. destruct p; [contradiction|reflexivity]. }
  assert (S1' : l_src (rc l) = s).
  { rewrite S1, Hdec, Hlen. rewrite skipn_app, skipn_all, Nat.sub_diag. reflexivity. }
  pose proof (decode_multibyte_rune p Hw) as Hr.
  exists (rc (rc l)). split.
  - unfold quoted_body. rewrite E, C. cbn [N.eqb Pos.eqb]. rewrite E1'.
    assert (Hk : escape_letter (fst (decode_rune p)) = false).
    { unfold escape_letter. cbn [existsb].
      repeat match goal with |- context [(?r =? ?k)%N] =>
               let Q := fresh "Q" in destruct (r =? k)%N eqn:Q; [apply N.eqb_eq in Q; lia|]
             end. reflexivity. }
    rewrite (escape_switch_default (rc l) b _ C1' Hk).
    unfold wr at 1. rewrite encode_decode by exact Hw. rewrite Hlen, firstn_all.
    rewrite wr_ascii by lia. rewrite rev_append_rev. cbn [rev]. rewrite <- !app_assoc. reflexivity.
  - rewrite <- S1'. apply rc_At. exact E1'.
Qed.

(* an INVALID byte after the backslash (no well-formed sequence starts there): the lexer reads U+FFFD, so the
   value gets \ EF BF BD and the byte itself is lost (a raw invalid byte is lost in the same way, see
   raw_invalid_byte_is_lost; that is why [quote] spells such bytes \xHH) *)
Theorem invalid_byte_after_backslash : forall x s (l : plex) b, (128 <= x)%N ->
  snd (decode_rune (x :: s)) = 1 -> At l (92%N :: x :: s) ->
  qbody (l, b) = ((rc (rc l), [189; 191; 239; 92]%N ++ b), true) /\ At (rc (rc l)) s.
Proof.
  intros x s l b Hx Hw H.
  destruct (At_ascii l _ _ H ltac:(lia)) as (E & C & S).
  pose proof (rc_ascii l _ _ H ltac:(lia)) as H1.
  destruct H1 as (E1 & C1 & S1). cbv iota in E1, C1.
  assert (Hr : fst (decode_rune (x :: s)) = rune_error).
  { clear - Hx Hw. unfold decode_rune in *.
    repeat match goal with
           | H : context [if ?c then _ else _] |- _ => destruct c eqn:?
           | H : context [match ?t with [] => _ | _ :: _ => _ end] |- _ => destruct t
           end; cbn in *; try lia; try reflexivity. }
  rewrite Hr in C1. rewrite Hw in S1. cbn [skipn] in S1.
  split.
  - unfold quoted_body. rewrite E, C. cbn [N.eqb Pos.eqb]. rewrite E1.
    rewrite (escape_switch_default (rc l) b rune_error C1 eq_refl). reflexivity.
  - rewrite <- S1. apply rc_At. exact E1.
Qed.

(* whole strings:  ' v1 \ p v2 '  with v1, v2 quoted byte-wise and p a well-formed multi-byte character, or an ASCII
   character that is not an escape letter, denotes  v1 ++ \ ++ p ++ v2 *)
Definition kept_escape (p : list N) : Prop :=
  (1 < snd (decode_rune p) /\ snd (decode_rune p) = length p) \/
  (exists c, p = [c] /\ (c < 128)%N /\ escape_letter c = false).

Theorem tokenize_unknown_escape : forall v1 p v2, bytes_ok v1 -> bytes_ok v2 -> kept_escape p ->
  exists e, tokenize (39%N :: quote_body v1 ++ 92%N :: p ++ quote_body v2 ++ [39%N]) =
    Some [mk_item T_STRING (v1 ++ 92%N :: p ++ v2) {| p_off := 1; p_line := 1; p_col := 1 |} false; e]
    /\ it_tok e = T_EOF /\ it_val e = [].
Proof.
  intros v1 p v2 H1 H2 Hp.
  set (pieces := byte_pieces v1 ++ [(92%N :: p, 92%N :: p)] ++ byte_pieces v2).
  assert (Hok : Forall (fun po => piece_ok (fst po) (snd po)) pieces).
  { unfold pieces. apply Forall_app. split; [apply byte_pieces_ok; exact H1|].
    apply Forall_app. split; [|apply byte_pieces_ok; exact H2].
    constructor; [|constructor]. cbn [fst snd].
    destruct Hp as [[Hw Hl]|(c & -> & Hc & Hk)]; [apply unknown_escape_rune; assumption|apply unknown_escape_ascii; assumption]. }
  assert (Hsrc : flat_map fst pieces = quote_body v1 ++ 92%N :: p ++ quote_body v2).
  { unfold pieces. rewrite !flat_map_app, !byte_pieces_src. cbn [flat_map fst]. rewrite app_nil_r. reflexivity. }
  assert (Hout : flat_map snd pieces = v1 ++ 92%N :: p ++ v2).
  { unfold pieces. rewrite !flat_map_app, !byte_pieces_out. cbn [flat_map snd]. rewrite app_nil_r. reflexivity. }
  assert (Hpl : length pieces = length v1 + 1 + length v2).
  { unfold pieces, byte_pieces. rewrite !app_length, !map_length. cbn [length]. lia. }
  replace (39%N :: quote_body v1 ++ 92%N :: p ++ quote_body v2 ++ [39%N])
    with (39%N :: flat_map fst pieces ++ [39%N]).
  2:{ rewrite Hsrc. rewrite <- !app_assoc. cbn [app]. rewrite <- !app_assoc. reflexivity. }
  rewrite <- Hout.
  apply tokenize_reads; [|eexists; reflexivity|].
  - intros rest F fuel l H Hf. cbn [app] in H. rewrite <- app_assoc in H. cbn [app] in H.
    apply read_string_pieces; try assumption.
    rewrite Hout in Hf. rewrite !app_length in Hf. cbn [length] in Hf. rewrite app_length in Hf. lia.
  - cbn [length]. rewrite app_length. cbn [length]. rewrite Hout, Hsrc.
    rewrite !app_length. cbn [length]. rewrite !app_length.
    pose proof (quote_body_length v1). pose proof (quote_body_length v2). lia.
Qed.

(* instances, by computation: 'a\éb' (2 bytes), 'a\€b' (3 bytes), 'a\😀b' (4 bytes), and an invalid byte *)
Example unknown_escape_2 : lex_string [39; 97; 92; 195; 169; 98; 39]%N = Some [97; 92; 195; 169; 98]%N.
Proof. vm_compute. reflexivity. Qed.
Example unknown_escape_3 : lex_string [39; 97; 92; 226; 130; 172; 98; 39]%N = Some [97; 92; 226; 130; 172; 98]%N.
Proof. vm_compute. reflexivity. Qed.
Example unknown_escape_4 : lex_string [39; 97; 92; 240; 159; 152; 128; 98; 39]%N = Some [97; 92; 240; 159; 152; 128; 98]%N.
Proof. vm_compute. reflexivity. Qed.
Example unknown_escape_invalid : lex_string [39; 97; 92; 255; 98; 39]%N = Some [97; 92; 239; 191; 189; 98]%N.
Proof. vm_compute. reflexivity. Qed.
Example unknown_escape_truncated : lex_string [39; 97; 92; 195; 98; 39]%N = Some [97; 92; 239; 191; 189; 98]%N.
Proof. vm_compute. reflexivity. Qed.

(* the same rule in back-quoted identifiers; in double-quoted identifiers a backslash is dropped and the character
   after it is kept whole *)
Definition lex_ident (srcb : list N) : option (list N) :=
  match tokenize srcb with
  | Some [s; e] => if (it_tok s =? T_IDENT)%N && (it_tok e =? T_EOF)%N then Some (it_val s) else None
  | _ => None
  end.
Example backtick_unknown_escape : lex_ident [96; 97; 92; 195; 169; 98; 96]%N = Some [97; 92; 195; 169; 98]%N.
Proof. vm_compute. reflexivity. Qed.
Example backtick_unknown_escape_4 : lex_ident [96; 92; 240; 159; 152; 128; 96]%N = Some [92; 240; 159; 152; 128]%N.
Proof. vm_compute. reflexivity. Qed.
Example dquoted_backslash_rune : lex_ident [34; 97; 92; 195; 169; 98; 34]%N = Some [97; 195; 169; 98]%N.
Proof. vm_compute. reflexivity. Qed.
