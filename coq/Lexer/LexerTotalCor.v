(* corollaries of tokenize_total used by the lexer halves of C01 and C02 *)
From Coq Require Import List NArith.
From DC Require Import Base.Item Gen.TokenTable Lexer.LexerModel Lexer.LexerTotal.
Import ListNotations.

Lemma tokenize_returns : forall bs : list N, exists toks, tokenize bs = Some toks.
Proof.
  intros bs. destruct (tokenize_total bs) as (pre & e & H & _). exists (pre ++ [e]). exact H.
Qed.
