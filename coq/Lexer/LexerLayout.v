(* C05, lexer part: the layout theorems.

   F1_general   any texts a, b and separators w, w' (possibly empty): if the split point after `a` is a
                token boundary in both texts, with the same tokens before it (boundary_ok, computed by
                the lexer model), then a ++ w ++ b and a ++ w' ++ b have the same signature.
   F1_leading / F1_trailing
   F1_insert    the case w = [] of F1_general: inserting a separator where there was none.
   lays_sig     a text built from covered token spellings and separators, each spelling followed by
                something that cannot extend it (tok_ok), lexes to exactly those tokens: no side
                condition computed by the lexer is left.
   F1_covered   two such texts with the same token signatures have the same lexer signature.
   F2_kind / F2_sig  keyword case.  *)
From Coq Require Import List NArith Bool Lia Arith.
From DC Require Import Base.Utf8 Base.Unicode Base.UnicodeFacts Base.Stream Base.Item Gen.TokenTable
  Lexer.LexerModel Lexer.LexerTotal Lexer.LexerLayoutSpec Lexer.LexerLayoutRel Lexer.LexerLayoutRun
  Lexer.LexerLayoutGap Lexer.LexerLayoutTok Lexer.LexerLayoutTok2.
Import ListNotations.
Local Open Scope bool_scope.

(* ---------- level 1: arbitrary texts, side condition computed by the lexer ---------- *)

Lemma sig_eqb_eq : forall x y, sig_eqb x y = true -> x = y.
Proof.
  intros [[t v] q] [[t' v'] q'] H. unfold sig_eqb in H. cbn [fst snd] in H.
  apply andb_prop in H. destruct H as [H H3]. apply andb_prop in H. destruct H as [H1 H2].
  apply N.eqb_eq in H1. apply bytes_eqb_eq in H2. apply eqb_prop in H3. subst. reflexivity.
Qed.

Lemma sigs_eqb_eq : forall a b, sigs_eqb a b = true -> a = b.
Proof.
  induction a as [|x a IH]; intros [|y b] H; cbn in H; try discriminate; [reflexivity|].
  apply andb_prop in H. destruct H as [H1 H2]. f_equal; [apply sig_eqb_eq, H1|apply IH, H2].
Qed.

Lemma vis_app : forall a b, vis (a ++ b) = vis a ++ vis b.
Proof. intros a b. unfold vis. apply filter_app. Qed.

Lemma lex_sig_raw_vis : forall bs, lex_sig_raw bs = Some (vis (TS bs)).
Proof. exact lex_sig_raw_TS. Qed.

Lemma cut_vis : forall a rest its, cut a rest = Some its ->
  vis (TS (a ++ rest)) = sig_raw its ++ vis (TS rest).
Proof.
  intros a rest its H. rewrite (cut_spec a rest its H), vis_app. reflexivity.
Qed.

Theorem F1_general : forall a w w' b, is_sep w -> is_sep w' ->
  boundary_ok a (w ++ b) (w' ++ b) = true ->
  lex_sig_raw (a ++ w ++ b) = lex_sig_raw (a ++ w' ++ b).
Proof.
  intros a w w' b Hw Hw' Hb. unfold boundary_ok in Hb.
  destruct (cut a (w ++ b)) as [its|] eqn:E1; [|discriminate Hb].
  destruct (cut a (w' ++ b)) as [its'|] eqn:E2; [|discriminate Hb].
  apply sigs_eqb_eq in Hb.
  rewrite !lex_sig_raw_vis, (cut_vis _ _ _ E1), (cut_vis _ _ _ E2), Hb.
  rewrite (vis_sep w b Hw), (vis_sep w' b Hw'). reflexivity.
Qed.

Corollary F1_general_sig : forall a w w' b, is_sep w -> is_sep w' ->
  boundary_ok a (w ++ b) (w' ++ b) = true ->
  lex_sig (a ++ w ++ b) = lex_sig (a ++ w' ++ b).
Proof. intros. rewrite !lex_sig_of_raw. f_equal. apply F1_general; assumption. Qed.

Theorem F1_leading : forall w b, is_sep w -> lex_sig_raw (w ++ b) = lex_sig_raw b.
Proof. intros w b Hw. rewrite !lex_sig_raw_vis, (vis_sep w b Hw). reflexivity. Qed.

Theorem F1_trailing : forall a w, is_sep w -> boundary_ok a w [] = true ->
  lex_sig_raw (a ++ w) = lex_sig_raw a.
Proof.
  intros a w Hw Hb. pose proof (F1_general a w [] [] Hw is_sep_nil) as H.
  rewrite ?app_nil_r in H. cbn [app] in H. rewrite ?app_nil_r in H. apply H, Hb.
Qed.

(* inserting a separator where the two neighbours touched: `safe` is the statement that the boundary
   is a token boundary with and without the separator, decided by re-lexing with the model *)
Definition safe (a w b : list N) : bool := boundary_ok a b (w ++ b).

Theorem F1_insert : forall a w b, is_sep w -> safe a w b = true ->
  lex_sig_raw (a ++ b) = lex_sig_raw (a ++ w ++ b).
Proof.
  intros a w b Hw Hs. apply (F1_general a [] w b is_sep_nil Hw). exact Hs.
Qed.

(* ---------- level 2: texts made of covered token spellings ---------- *)

Lemma lookup_kind : forall s, lookup s = T_IDENT \/ is_keyword (lookup s) = true.
Proof.
  intros s. unfold lookup.
  assert (G : forall tbl acc, (acc = T_IDENT \/ is_keyword acc = true) ->
    let r := fold_left (fun (acc : N) (e : N * list N * list N) => let '(i, _, sp) := e in
       if (keyword_beg <? i)%N && (i <? keyword_end)%N && bytes_eqb sp s then i else acc) tbl acc in
    r = T_IDENT \/ is_keyword r = true).
  { induction tbl as [|[[i nm] sp] tbl IH]; intros acc Hacc; cbn [fold_left]; [exact Hacc|].
    apply IH. destruct ((keyword_beg <? i)%N && (i <? keyword_end)%N && bytes_eqb sp s) eqn:C; [|exact Hacc].
    right. apply andb_prop in C. destruct C as [C _]. exact C. }
  apply G. left. reflexivity.
Qed.

Lemma keyword_not_special : forall k, is_keyword k = true -> k <> T_LINE_COMMENT /\ k <> T_EOF.
Proof.
  intros k H. unfold is_keyword in H. apply andb_prop in H. destruct H as [H _].
  apply N.ltb_lt in H. split; intros ->; vm_compute in H; discriminate H.
Qed.

Lemma tok_ok_kind : forall t sg r, tok_ok t sg r -> fst (fst sg) <> T_LINE_COMMENT /\ fst (fst sg) <> T_EOF.
Proof.
  intros t sg r H. destruct H; cbn [fst]; try (split; vm_compute; discriminate).
  - destruct (lookup_kind (map ascii_upper t)) as [E|E]; [rewrite E; split; vm_compute; discriminate|].
    apply keyword_not_special, E.
  - unfold op_table in H. cbn [In] in H.
    repeat (destruct H as [H|H]; [injection H as <- <- <-; split; vm_compute; discriminate|]).
    contradiction.
Qed.

Lemma TS_nil : TS [] = [eof_sig].
Proof. vm_compute. reflexivity. Qed.

Lemma TS_tok : forall t sg r, tok_ok t sg r -> TS (t ++ r) = sg :: TS r.
Proof.
  intros t sg r H.
  destruct (TS_token (t ++ r) r (fun s => s = sg)) as (s & -> & E).
  - intros f it l' En. apply (tok_ok_next t sg r f it l' H En).
  - intros s ->. apply (tok_ok_kind t sg r H).
  - exact E.
Qed.

Theorem lays_sig : forall x s, lays x s -> lex_sig_raw x = Some (s ++ [eof_sig]).
Proof.
  intros x s H. rewrite lex_sig_raw_vis. f_equal.
  induction H as [|w r s Hw _ IH|t sg r s Ht _ IH].
  - rewrite TS_nil. reflexivity.
  - rewrite (vis_sep1 w r Hw). exact IH.
  - rewrite (TS_tok t sg r Ht). unfold vis in *. cbn [filter app].
    unfold not_comment_sig. destruct (tok_ok_kind t sg r Ht) as [Hk _].
    apply N.eqb_neq in Hk. rewrite Hk. cbn [negb]. f_equal. exact IH.
Qed.

Theorem F1_covered : forall x y s, lays x s -> lays y s -> lex_sig_raw x = lex_sig_raw y.
Proof. intros x y s Hx Hy. rewrite (lays_sig x s Hx), (lays_sig y s Hy). reflexivity. Qed.

(* layouts whose token signatures agree up to the letter case of keyword values *)
Theorem F12_covered : forall x y s s', lays x s -> lays y s' -> map norm_sig s = map norm_sig s' ->
  lex_sig x = lex_sig y.
Proof.
  intros x y s s' Hx Hy E. rewrite !lex_sig_of_raw, (lays_sig x s Hx), (lays_sig y s' Hy).
  cbn [option_map]. rewrite !map_app, E. reflexivity.
Qed.

(* ---------- F2: keyword case ---------- *)

(* two identifier-shaped words with the same ASCII upper-casing lex to tokens of the same kind, each with
   its own spelling as value *)
Theorem F2_kind : forall s s' r r' f f' it it' l1 l1',
  ident_word s = true -> ident_word s' = true -> map ascii_upper s = map ascii_upper s' ->
  follow_ident s r = true -> follow_ident s' r' = true ->
  next_token pure_stream f (st_at (s ++ r)) = Some (it, l1) ->
  next_token pure_stream f' (st_at (s' ++ r')) = Some (it', l1') ->
  it_tok it = it_tok it' /\ it_val it = s /\ it_val it' = s' /\ at_ l1 r /\ at_ l1' r'.
Proof.
  intros s s' r r' f f' it it' l1 l1' Hs Hs' Hu Hf Hf' E E'.
  destruct (ident_ok s r f it l1 Hs Hf E) as [H1 H2].
  destruct (ident_ok s' r' f' it' l1' Hs' Hf' E') as [H1' H2'].
  unfold sig_item in H1, H1'. injection H1 as A B C. injection H1' as A' B' C'.
  rewrite A, A', Hu. auto.
Qed.

(* hence: once the value of keyword tokens is case-normalised, the signatures agree *)
Theorem F2_sig : forall s s' r r',
  map ascii_upper s = map ascii_upper s' ->
  tok_ok s (lookup (map ascii_upper s), s, false) r ->
  tok_ok s' (lookup (map ascii_upper s'), s', false) r' ->
  is_keyword (lookup (map ascii_upper s)) = true ->
  norm_sig (lookup (map ascii_upper s), s, false) = norm_sig (lookup (map ascii_upper s'), s', false).
Proof.
  intros s s' r r' Hu _ _ Hk. unfold norm_sig. rewrite <- Hu, Hk, Hu. reflexivity.
Qed.
