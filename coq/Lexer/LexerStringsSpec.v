(* C09, strings — the independent specification (definitions only).

   [quote v]      a source spelling of the byte string v that is valid for EVERY byte string (incl. NUL and
                  invalid UTF-8): ' + per byte (printable ASCII other than ' and \ raw, ' as \', \ as \\,
                  every other byte as \xHH with two lowercase hex digits) + '.
   [quote_raw v]  the same, but well-formed UTF-8 multi-byte sequences are written raw.
   [canon_string v] the EXPLAIN AST rendering of a string literal with value v, i.e. ClickHouse's two-level
                  escaping, written as what it is: the single-level escaper [ch_escape] (ClickHouse's
                  writeAnyEscapedString<'\''>: \b \f \n \r \t \0 \\ \' , everything else raw) applied to the
                  quoted literal 'ch_escape v' (level 1: the literal's text in the AST dump; level 2: the
                  TSV-style escaping of the dump line).  Checked against /repo/parser/testdata goldens
                  (e.g. 02133_classification, 02364_multiSearch_function_family: BEL/VT/ESC stay raw,
                  \b \f \t \0 are escaped, non-ASCII bytes stay raw).

   Nothing here mentions the lexer model or the Go printer. *)
From Coq Require Import List NArith Bool.
From DC Require Import Base.Utf8.
Import ListNotations.
Local Open Scope bool_scope.
Local Open Scope N_scope.

(* the lowercase hex digit of n < 16 *)
Definition hexdigit (n : N) : N := if n <? 10 then 48 + n else 87 + n.

Definition is_plain_ascii (b : N) : bool :=
  (32 <=? b) && (b <=? 126) && negb (b =? 39) && negb (b =? 92).

Definition hex_escape (b : N) : list N := [92; 120; hexdigit (b / 16); hexdigit (b mod 16)].

Definition quote_byte (b : N) : list N :=
  if b =? 39 then [92; 39]
  else if b =? 92 then [92; 92]
  else if is_plain_ascii b then [b]
  else hex_escape b.

Definition quote_body (v : list N) : list N := flat_map quote_byte v.
Definition quote (v : list N) : list N := 39 :: quote_body v ++ [39].

(* raw passthrough of well-formed multi-byte UTF-8: [decode_rune] says how many bytes the sequence at the
   head has; width 1 on a byte >= 0x80 means "invalid here" and the byte is hex-escaped *)
Fixpoint quote_raw_body (fuel : nat) (v : list N) : list N :=
  match fuel with
  | O => []
  | S f =>
      match v with
      | [] => []
      | b :: v' =>
          if b <? 128 then quote_byte b ++ quote_raw_body f v'
          else
            let sz := snd (decode_rune v) in
            if Nat.ltb 1 sz then firstn sz v ++ quote_raw_body f (skipn sz v)
            else hex_escape b ++ quote_raw_body f v'
      end
  end.
Definition quote_raw (v : list N) : list N := 39 :: quote_raw_body (length v) v ++ [39].

(* a string token may be followed by anything but another quote ('' is the doubled-quote escape) *)
Definition follow_ok (rest : list N) : Prop :=
  match rest with 39 :: _ => False | _ => True end.
Definition follow_okb (rest : list N) : bool :=
  match rest with 39 :: _ => false | _ => true end.

Definition bytes_ok (v : list N) : Prop := Forall (fun b => b < 256) v.
Definition bytes_okb (v : list N) : bool := forallb (fun b => b <? 256) v.

(* ---------- ClickHouse's escaping ---------- *)

(* writeAnyEscapedString<'\''> on one byte *)
Definition ch_escape_byte (b : N) : list N :=
  if b =? 8 then [92; 98]            (* \b *)
  else if b =? 12 then [92; 102]     (* \f *)
  else if b =? 10 then [92; 110]     (* \n *)
  else if b =? 13 then [92; 114]     (* \r *)
  else if b =? 9 then [92; 116]      (* \t *)
  else if b =? 0 then [92; 48]       (* \0 *)
  else if b =? 92 then [92; 92]      (* \\ *)
  else if b =? 39 then [92; 39]      (* \' *)
  else [b].
Definition ch_escape (s : list N) : list N := flat_map ch_escape_byte s.

(* the text after "Literal " for a string literal with value v *)
Definition canon_string (v : list N) : list N := ch_escape ([39] ++ ch_escape v ++ [39]).
