(* C12: totality of the lexer model over the pure stream: with the fuel `tokenize` supplies no loop
   runs out of fuel; every scanner started before end of input consumes at least one rune and returns a
   non-EOF token; NextToken at end of input (or at a NUL) returns EOF and leaves the state unchanged. *)
From Coq Require Import List NArith Bool Lia Arith.
From DC Require Import Base.Utf8 Base.Unicode Base.UnicodeFacts Base.Stream Base.Item Gen.TokenTable Lexer.LexerModel.
Import ListNotations.
Local Open Scope bool_scope.

Notation plex := (@lex (list N)).
Notation rc := (read_char pure_stream).

(* remaining work: bytes not yet read, plus one for the current character *)
Definition mu (l : plex) : nat := length (l_src l) + (if l_eof l then 0 else 1).
(* at end of input the current character is 0 *)
Definition wf (l : plex) : Prop := l_eof l = true -> l_ch l = 0%N.

Definition le_st (l l' : plex) : Prop := wf l' /\ mu l' <= mu l.      (* l' is l after some reads *)
Definition lt_st (l l' : plex) : Prop := wf l' /\ mu l' < mu l.       (* ... at least one real read *)

Lemma decode_size_pos : forall b bs, 1 <= snd (decode_rune (b :: bs)) <= 4.
Proof.
  intros b bs. unfold decode_rune.
  repeat match goal with
         | |- context [if ?c then _ else _] => destruct c
         | |- context [match ?l with [] => _ | _ :: _ => _ end] => destruct l
         end; cbn; lia.
Qed.

(* read_char on the pure stream, case by case *)
Lemma rc_cases : forall l : plex,
  (l_eof l = true /\ l_eof (rc l) = true /\ l_ch (rc l) = 0%N /\ l_src (rc l) = l_src l) \/
  (l_eof l = false /\ l_src l = [] /\ l_eof (rc l) = true /\ l_ch (rc l) = 0%N /\ l_src (rc l) = []) \/
  (l_eof l = false /\ exists b bs, l_src l = b :: bs /\ l_eof (rc l) = false /\
     l_ch (rc l) = fst (decode_rune (b :: bs)) /\ l_src (rc l) = skipn (snd (decode_rune (b :: bs))) (b :: bs)).
Proof.
  intros l. unfold read_char. destruct (l_eof l) eqn:E.
  - left. cbn. auto.
  - right. cbn [s_read_rune pure_stream]. unfold pure_read_rune.
    destruct (l_src l) as [|b bs] eqn:Es.
    + left. cbn. auto.
    + right. split; [reflexivity|]. exists b, bs. split; [reflexivity|].
      destruct (decode_rune (b :: bs)) as [r sz]. cbn. auto.
Qed.

Lemma rc_wf : forall l, wf (rc l).
Proof.
  intros l. unfold wf. destruct (rc_cases l) as [(_ & _ & H & _)|[(_ & _ & _ & H & _)|(_ & b & bs & _ & H & _)]].
  - intros _; exact H.
  - intros _; exact H.
  - intros H1; rewrite H in H1; discriminate H1.
Qed.

Lemma rc_mu_le : forall l, mu (rc l) <= mu l.
Proof.
  intros l. unfold mu.
  destruct (rc_cases l) as [(E & E1 & _ & S1)|[(E & Es & E1 & _ & S1)|(E & b & bs & Es & E1 & _ & S1)]];
    rewrite E, E1, S1.
  - lia.
  - rewrite Es. cbn. lia.
  - rewrite Es, skipn_length. pose proof (decode_size_pos b bs). cbn [length]. lia.
Qed.

Lemma rc_mu_lt : forall l, l_eof l = false -> mu (rc l) < mu l.
Proof.
  intros l E0. unfold mu.
  destruct (rc_cases l) as [(E & E1 & _ & S1)|[(E & Es & E1 & _ & S1)|(E & b & bs & Es & E1 & _ & S1)]];
    rewrite E, E1, S1.
  - rewrite E in E0; discriminate E0.
  - rewrite Es. cbn. lia.
  - rewrite Es, skipn_length. pose proof (decode_size_pos b bs). cbn [length]. lia.
Qed.

Lemma rc_eof_stays : forall l, l_eof l = true -> l_eof (rc l) = true.
Proof. intros l E. unfold read_char. rewrite E. reflexivity. Qed.

Lemma le_refl : forall l, wf l -> le_st l l.
Proof. intros l H; split; [exact H|lia]. Qed.
Lemma le_rc : forall l, le_st l (rc l).
Proof. intros l; split; [apply rc_wf|apply rc_mu_le]. Qed.
Lemma lt_rc : forall l, l_eof l = false -> lt_st l (rc l).
Proof. intros l E; split; [apply rc_wf|apply rc_mu_lt; exact E]. Qed.
Lemma le_trans : forall a b c, le_st a b -> le_st b c -> le_st a c.
Proof. intros a b c [_ H1] [W H2]; split; [exact W|lia]. Qed.
Lemma lt_le_trans : forall a b c, lt_st a b -> le_st b c -> lt_st a c.
Proof. intros a b c [_ H1] [W H2]; split; [exact W|lia]. Qed.
Lemma le_lt_trans : forall a b c, le_st a b -> lt_st b c -> lt_st a c.
Proof. intros a b c [_ H1] [W H2]; split; [exact W|lia]. Qed.
Lemma lt_le : forall a b, lt_st a b -> le_st a b.
Proof. intros a b [W H]; split; [exact W|lia]. Qed.
Lemma le_rc_after : forall a b, le_st a b -> le_st a (rc b).
Proof. intros a b H. eapply le_trans; [exact H|apply le_rc]. Qed.
Lemma lt_rc_after : forall a b, lt_st a b -> lt_st a (rc b).
Proof. intros a b H. eapply lt_le_trans; [exact H|apply le_rc]. Qed.

(* not at end of input when the current character is not 0 *)
Lemma ch_not_eof : forall l, wf l -> l_ch l <> 0%N -> l_eof l = false.
Proof. intros l W H. destruct (l_eof l) eqn:E; [|reflexivity]. exfalso. apply H, W. exact E. Qed.

(* ---- peeking does not change the pure stream ---- *)
Lemma peek_char_st : forall l, snd (peek_char pure_stream l) = l.
Proof.
  intros l. unfold peek_char. destruct (l_eof l); [reflexivity|].
  cbn [s_peek pure_stream]. unfold pure_peek.
  destruct (firstn (Nat.min 1 bufio_size) (l_src l)); destruct l; reflexivity.
Qed.
Lemma peek_char_n_st : forall n l, snd (peek_char_n pure_stream n l) = l.
Proof.
  intros n l. unfold peek_char_n. destruct (l_eof l || Nat.ltb n 1); [reflexivity|].
  cbn [s_peek pure_stream]. unfold pure_peek. destruct l; reflexivity.
Qed.
Lemma is_identifier_after_dot_st : forall l, snd (is_identifier_after_dot pure_stream l) = l.
Proof.
  intros l. unfold is_identifier_after_dot. cbn [s_peek pure_stream]. unfold pure_peek.
  assert (Hs : set_src l (l_src l) = l) by (destruct l; reflexivity). rewrite Hs.
  repeat match goal with
         | |- context [match ?x with _ => _ end] => destruct x
         end; reflexivity.
Qed.

(* ---- the generic loop lemmas ---- *)
Section Loops.
Context {A : Type} (m : A -> nat) (P : A -> Prop).

Lemma loop_total : forall body,
  (forall a, P a -> P (fst (body a)) /\ m (fst (body a)) <= m a /\ (snd (body a) = true -> m (fst (body a)) < m a)) ->
  forall fuel a, P a -> m a < fuel ->
  exists a', loop fuel body a = Some a' /\ P a' /\ m a' <= m a.
Proof.
  intros body Hb fuel. induction fuel as [|f IH]; intros a Pa Hm; [lia|].
  cbn. destruct (Hb a Pa) as (P1 & Hle & Hlt). destruct (body a) as [a1 c]; cbn in *.
  destruct c.
  - specialize (Hlt eq_refl). destruct (IH a1 P1) as (a2 & E & P2 & H2); [lia|].
    exists a2. split; [exact E|]. split; [exact P2|lia].
  - exists a1. auto.
Qed.

Lemma loopo_total : forall body F,
  (forall a, P a -> m a < F -> exists a1 c, body a = Some (a1, c) /\ P a1 /\ m a1 <= m a /\ (c = true -> m a1 < m a)) ->
  forall fuel a, P a -> m a < fuel -> m a < F ->
  exists a', loopo fuel body a = Some a' /\ P a' /\ m a' <= m a.
Proof.
  intros body F Hb fuel. induction fuel as [|f IH]; intros a Pa Hm HF; [lia|].
  cbn. destruct (Hb a Pa HF) as (a1 & c & E & P1 & Hle & Hlt). rewrite E.
  destruct c.
  - specialize (Hlt eq_refl). destruct (IH a1 P1) as (a2 & E2 & P2 & H2); [lia|lia|].
    exists a2. split; [exact E2|]. split; [exact P2|lia].
  - exists a1. auto.
Qed.
End Loops.

(* measure and invariant on (lexer, builder) and (lexer, builder, nesting) states *)
Definition m2 {B : Type} (st : plex * B) : nat := mu (fst st).
Definition P2 {B : Type} (st : plex * B) : Prop := wf (fst st).
Definition m3 {B C : Type} (st : plex * B * C) : nat := mu (fst (fst st)).
Definition P3 {B C : Type} (st : plex * B * C) : Prop := wf (fst (fst st)).

(* ---- the tactic that discharges one loop body / straight-line code ---- *)

Ltac peek_norm :=
  repeat match goal with
  | |- context [peek_char pure_stream ?l] =>
      let pk := fresh "pk" in let l1 := fresh "l1" in let E := fresh "Epk" in
      destruct (peek_char pure_stream l) as [pk l1] eqn:E;
      let H := fresh in pose proof (peek_char_st l) as H; rewrite E in H; cbn [snd] in H; subst l1
  | |- context [peek_char_n pure_stream ?n ?l] =>
      let pk := fresh "pk" in let l1 := fresh "l1" in let E := fresh "Epk" in
      destruct (peek_char_n pure_stream n l) as [pk l1] eqn:E;
      let H := fresh in pose proof (peek_char_n_st n l) as H; rewrite E in H; cbn [snd] in H; subst l1
  end.

(* facts of the form "class 0 = false" by computation *)
Ltac zero_class H :=
  vm_compute in H; discriminate H.

(* derive l_eof l = false from a hypothesis that says something non-zero about l_ch l *)
Ltac get_not_eof l :=
  match goal with
  | E : l_eof l = false |- _ => idtac
  | W : wf l |- _ =>
      let E := fresh "Ene" in
      destruct (l_eof l) eqn:E;
      [ exfalso; pose proof (W eq_refl) as Hz;
        repeat match goal with
               | H : context [l_ch l] |- _ => rewrite Hz in H
               end;
        solve [ match goal with H : _ = true |- _ => zero_class H end
              | match goal with H : _ = false |- _ => zero_class H end
              | match goal with H : negb _ = true |- _ => zero_class H end ]
      | ]
  end.

#[export] Hint Resolve le_refl le_rc lt_rc le_rc_after lt_rc_after lt_le rc_wf : lexdb.

(* ---- automation for loop bodies ---- *)

(* add mu/wf facts for every `rc x` occurring in the goal *)
Ltac rc_facts :=
  repeat match goal with
  | |- context [read_char pure_stream ?x] =>
      lazymatch goal with
      | H : mu (rc x) <= mu x |- _ => fail
      | _ => idtac
      end;
      pose proof (rc_mu_le x); pose proof (rc_wf x)
  | H0 : context [read_char pure_stream ?x] |- _ =>
      lazymatch goal with
      | H : mu (rc x) <= mu x |- _ => fail
      | _ => idtac
      end;
      pose proof (rc_mu_le x); pose proof (rc_wf x)
  end.

(* add the strict fact for l when l_eof l = false is known *)
Ltac rc_strict :=
  repeat match goal with
  | E : l_eof ?x = false |- _ =>
      lazymatch goal with
      | H : mu (rc x) < mu x |- _ => fail
      | _ => pose proof (rc_mu_lt x E)
      end
  end.

Ltac split_ifs :=
  repeat (peek_norm;
          match goal with
          | |- context [if ?c then _ else _] => let E := fresh "C" in destruct c eqn:E
          end).

Ltac leaf :=
  unfold m2, P2, m3, P3 in *; cbn [fst snd] in *; rc_facts; rc_strict;
  repeat match goal with
         | |- _ /\ _ => split
         | |- wf (rc _) => apply rc_wf
         | |- wf _ => assumption
         | |- _ -> _ => intro
         | |- le_st _ _ => unfold le_st
         | |- lt_st _ _ => unfold lt_st
         end;
  try discriminate; try lia.

(* every character class used as a loop condition is false on 0 *)
Definition class0 (cond : N -> bool) : Prop := cond 0%N = false.

Lemma cond_not_eof : forall (cond : N -> bool) (l : plex), class0 cond -> wf l -> cond (l_ch l) = true -> l_eof l = false.
Proof.
  intros cond l C0 W H. destruct (l_eof l) eqn:E; [|reflexivity].
  rewrite (W E) in H. rewrite C0 in H. discriminate H.
Qed.

Lemma take_while_total : forall cond, class0 cond -> forall fuel (st : plex * sb),
  wf (fst st) -> mu (fst st) < fuel ->
  exists st', take_while pure_stream fuel cond st = Some st' /\ le_st (fst st) (fst st').
Proof.
  intros cond C0 fuel st W Hm. unfold take_while.
  destruct (loop_total m2 P2 (fun '(l, b) => if cond (l_ch l) then (rc l, wr (l_ch l) b, true) else (l, b, false))) with (fuel := fuel) (a := st)
    as (st' & E & W' & Hle); [|exact W|exact Hm|].
  - intros [l b] Wl. cbn beta iota zeta. destruct (cond (l_ch l)) eqn:C.
    + pose proof (cond_not_eof cond l C0 Wl C). leaf.
    + leaf.
  - exists st'. split; [exact E|]. split; assumption.
Qed.

Lemma skip_while_total : forall cond, class0 cond -> forall fuel (l : plex),
  wf l -> mu l < fuel ->
  exists l', skip_while pure_stream fuel cond l = Some l' /\ le_st l l' /\ cond (l_ch l') = false.
Proof.
  intros cond C0 fuel. unfold skip_while.
  induction fuel as [|f IH]; intros l W Hm; [lia|].
  cbn. destruct (cond (l_ch l)) eqn:C.
  - pose proof (cond_not_eof cond l C0 W C) as E.
    destruct (IH (rc l)) as (l' & E' & Hle & Hc); [apply rc_wf|pose proof (rc_mu_lt l E); lia|].
    exists l'. split; [exact E'|]. split; [|exact Hc].
    eapply le_trans; [apply le_rc|exact Hle].
  - exists l. split; [reflexivity|]. split; [apply le_refl; exact W|exact C].
Qed.

(* ---- bodies of the individual loops ---- *)

Definition body_ok {A : Type} (m : A -> nat) (P : A -> Prop) (body : A -> A * bool) : Prop :=
  forall a, P a -> P (fst (body a)) /\ m (fst (body a)) <= m a /\ (snd (body a) = true -> m (fst (body a)) < m a).

Lemma loop2_total : forall {B : Type} (body : plex * B -> plex * B * bool),
  body_ok m2 P2 body ->
  forall fuel st, wf (fst st) -> mu (fst st) < fuel ->
  exists st', loop fuel body st = Some st' /\ le_st (fst st) (fst st').
Proof.
  intros B body Hb fuel st W Hm.
  destruct (loop_total m2 P2 body Hb fuel st W Hm) as (st' & E & W' & Hle).
  exists st'. split; [exact E|]. split; assumption.
Qed.

Lemma to_eol_total : forall stop fuel (st : plex * sb),
  wf (fst st) -> mu (fst st) < fuel ->
  exists st', to_eol pure_stream fuel stop st = Some st' /\ le_st (fst st) (fst st').
Proof.
  intros stop fuel st W Hm. unfold to_eol. apply loop2_total; [|exact W|exact Hm].
  intros [l b] Wl. cbn beta iota zeta. unfold not_eol.
  destruct (l_eof l) eqn:E; cbn [negb andb]; rewrite ?andb_false_r; cbn [andb]; [leaf|].
  split_ifs; leaf.
Qed.

Lemma block_body_ok : body_ok m3 P3 (block_body pure_stream).
Proof.
  intros [[l b] n] Wl. unfold block_body.
  destruct (l_eof l) eqn:E; cbn [negb andb]; [leaf|].
  split_ifs; leaf.
Qed.

Lemma escape_switch_le : forall bt (l : plex) b, wf l ->
  le_st l (fst (fst (escape_switch pure_stream bt l b))).
Proof.
  intros bt l b W. unfold escape_switch. split_ifs; leaf.
Qed.

Lemma quoted_body_ok : forall q bt, body_ok m2 P2 (quoted_body pure_stream q bt).
Proof.
  intros q bt [l b] Wl. unfold quoted_body.
  destruct (l_eof l) eqn:E; [leaf|].
  destruct (l_ch l =? q)%N.
  - split_ifs; leaf.
  - destruct (l_ch l =? 92)%N; [|leaf].
    destruct (l_eof (rc l)) eqn:E1; [leaf|].
    pose proof (escape_switch_le bt (rc l) b (rc_wf l)) as [W2 H2].
    destruct (escape_switch pure_stream bt (rc l) b) as [[l2 b2] adv]. cbn [fst] in *.
    destruct adv; leaf.
Qed.

Lemma hex_string_body_ok : body_ok m2 P2 (hex_string_body pure_stream).
Proof. intros [l b] Wl. unfold hex_string_body. split_ifs; leaf. Qed.

Lemma bin_string_body_ok : body_ok m2 P2 (bin_string_body pure_stream).
Proof. intros [l b] Wl. unfold bin_string_body. split_ifs; leaf. Qed.

Lemma dquoted_body_ok : body_ok m2 P2 (dquoted_body pure_stream).
Proof. intros [l b] Wl. unfold dquoted_body. split_ifs; leaf. Qed.

Lemma until_close_total : forall close fuel (st : plex * sb),
  wf (fst st) -> mu (fst st) < fuel ->
  exists st', until_close pure_stream fuel close st = Some st' /\ le_st (fst st) (fst st').
Proof.
  intros close fuel st W Hm. unfold until_close. apply loop2_total; [|exact W|exact Hm].
  intros [l b] Wl. cbn beta iota zeta.
  destruct (l_eof l) eqn:E; cbn [negb andb]; [leaf|]. split_ifs; leaf.
Qed.

Lemma iter_read_le : forall n (l : plex), wf l -> le_st l (iter_read pure_stream n l).
Proof.
  induction n as [|n IH]; intros l W; cbn [iter_read]; [apply le_refl; exact W|].
  eapply le_trans; [apply le_rc|apply IH, rc_wf].
Qed.

Lemma delim_match_st : forall rest i (l : plex), snd (delim_match pure_stream i rest l) = l.
Proof.
  induction rest as [|c rest IH]; intros i l; cbn [delim_match]; [reflexivity|].
  destruct (peek_char_n pure_stream i l) as [pk l1] eqn:E.
  pose proof (peek_char_n_st i l) as H. rewrite E in H. cbn [snd] in H. subst l1.
  destruct (pk =? c)%N; [apply IH|reflexivity].
Qed.

Lemma dollar_body_ok : forall closing, body_ok m2 P2 (dollar_body pure_stream closing).
Proof.
  intros closing [l b] Wl. unfold dollar_body.
  destruct (l_eof l) eqn:E; [leaf|].
  destruct (l_ch l =? 36)%N; [|leaf].
  destruct (delim_match pure_stream 1 (tl closing) l) as [m l1] eqn:Em.
  pose proof (delim_match_st (tl closing) 1%nat l) as H. rewrite Em in H. cbn [snd] in H. subst l1.
  destruct m; [|leaf].
  unfold m2, P2 in *. cbn [fst snd] in *. destruct (iter_read_le (length closing) l Wl) as [W2 H2].
  repeat split; [exact W2|exact H2|discriminate].
Qed.

Lemma try_read_dollar_tag_cases : forall (l : plex), wf l ->
  try_read_dollar_tag pure_stream l = ([], l) \/
  (le_st l (snd (try_read_dollar_tag pure_stream l)) /\
   (l_eof l = false -> lt_st l (snd (try_read_dollar_tag pure_stream l)))).
Proof.
  intros l W. unfold try_read_dollar_tag. cbn [s_peek pure_stream]. unfold pure_peek.
  assert (Hs : set_src l (l_src l) = l) by (destruct l; reflexivity). rewrite Hs.
  destruct (firstn (Nat.min 8192 bufio_size) (l_src l)) as [|b0 bs0]; [left; reflexivity|].
  destruct (decode_rune (b0 :: bs0)) as [r sz].
  destruct (negb (is_letter r) && negb (r =? 95)%N); [left; reflexivity|].
  destruct (scan_tag (length (b0 :: bs0)) (skipn sz (b0 :: bs0)) (wr r [])) as [tagr rest].
  destruct rest as [|c0 rest0]; [left; reflexivity|].
  destruct (decode_rune (c0 :: rest0)) as [r2 sz2].
  destruct (negb (r2 =? 36)%N); [left; reflexivity|].
  destruct (find_sub _ _); [|left; reflexivity].
  right. cbn [fst snd].
  pose proof (iter_read_le (length (sb_str tagr)) (rc l) (rc_wf l)) as [W2 H2].
  set (l2 := iter_read pure_stream (length (sb_str tagr)) (rc l)) in *.
  split.
  - split; [apply rc_wf|]. pose proof (rc_mu_le l2). pose proof (rc_mu_le l). lia.
  - intros E. split; [apply rc_wf|]. pose proof (rc_mu_le l2). pose proof (rc_mu_lt l E). lia.
Qed.

Lemma skip_underscores_total : forall fuel (l : plex), wf l -> mu l < fuel ->
  exists l', skip_underscores pure_stream fuel l = Some l' /\ le_st l l'.
Proof.
  intros fuel l W Hm. unfold skip_underscores.
  destruct (loop_total mu wf (fun l0 : plex =>
      if (l_ch l0 =? 95)%N
      then let '(pk, l1) := peek_char pure_stream l0 in if is_digit pk then (rc l1, true) else (l1, false)
      else (l0, false))) with (fuel := fuel) (a := l) as (l' & E & W' & Hle); [|exact W|exact Hm|].
  - intros l0 W0. destruct (l_ch l0 =? 95)%N eqn:C.
    + assert (E0 : l_eof l0 = false).
      { apply ch_not_eof; [exact W0|]. apply N.eqb_eq in C. rewrite C. discriminate. }
      split_ifs; leaf.
    + leaf.
  - exists l'. split; [exact E|]. split; assumption.
Qed.

(* ---- number pieces ---- *)

Lemma is_digit_class0 : class0 is_digit. Proof. vm_compute. reflexivity. Qed.
Lemma is_hex_digit_class0 : class0 is_hex_digit. Proof. vm_compute. reflexivity. Qed.
Lemma is_ident_char_class0 : class0 is_ident_char. Proof. vm_compute. reflexivity. Qed.
Lemma is_bin_char_class0 : class0 is_bin_char. Proof. vm_compute. reflexivity. Qed.
Lemma is_oct_char_class0 : class0 is_oct_char. Proof. vm_compute. reflexivity. Qed.
Lemma is_ws_class0 : class0 is_ws. Proof. vm_compute. reflexivity. Qed.
Lemma hex_us_class0 : class0 (fun c => is_hex_digit c || (c =? 95)%N). Proof. vm_compute. reflexivity. Qed.
Lemma ident_dollar_class0 : class0 (fun c => is_ident_char c || (c =? 36)%N). Proof. vm_compute. reflexivity. Qed.

Definition st_ok (fuel : nat) (st : plex * sb) : Prop := wf (fst st) /\ mu (fst st) < fuel.
Definition st_res (st : plex * sb) (r : option (plex * sb)) : Prop :=
  exists st', r = Some st' /\ le_st (fst st) (fst st').

Lemma digits_us_total : forall fuel (st : plex * sb), wf (fst st) -> mu (fst st) < fuel ->
  st_res st (digits_us pure_stream fuel st).
Proof.
  intros fuel st W Hm. unfold st_res, digits_us.
  match goal with |- context [loopo fuel ?body st] =>
    destruct (loopo_total m2 P2 body fuel) with (fuel := fuel) (a := st) as (st' & E & W' & Hle); [|exact W|exact Hm|exact Hm|]
  end.
  - intros [l b] Wl HF. unfold m2, P2 in *. cbn [fst] in *.
    destruct (is_digit (l_ch l)) eqn:C.
    + pose proof (cond_not_eof is_digit l is_digit_class0 Wl C) as E0.
      destruct (skip_underscores_total fuel (rc l) (rc_wf l)) as (l' & E' & W' & Hle').
      { pose proof (rc_mu_le l). lia. }
      rewrite E'. eexists; eexists; split; [reflexivity|]. cbn [fst].
      pose proof (rc_mu_lt l E0). repeat split; [exact W'|lia|intros _; lia].
    + eexists; eexists; split; [reflexivity|]. cbn [fst]. repeat split; [exact Wl|lia|discriminate].
  - exists st'. split; [exact E|]. split; assumption.
Qed.

Lemma st_res_refl : forall st, wf (fst st) -> st_res st (Some st).
Proof. intros st W. exists st. split; [reflexivity|apply le_refl; exact W]. Qed.

Lemma st_res_via : forall st st1 r, le_st (fst st) (fst st1) -> st_res st1 r -> st_res st r.
Proof.
  intros st st1 r H (st' & E & H'). exists st'. split; [exact E|]. eapply le_trans; eassumption.
Qed.

Lemma fraction_part_total : forall fuel (st : plex * sb), wf (fst st) -> mu (fst st) < fuel ->
  st_res st (fraction_part pure_stream fuel st).
Proof.
  intros fuel [l b] W Hm. cbn [fst] in *. unfold fraction_part.
  destruct (l_ch l =? 46)%N; [|apply st_res_refl; exact W].
  peek_norm. destruct (is_digit pk || _).
  - apply st_res_via with (st1 := (rc l, wr (l_ch l) b)); [cbn [fst]; apply le_rc|].
    apply digits_us_total; cbn [fst]; [apply rc_wf|pose proof (rc_mu_le l); lia].
  - apply st_res_refl; exact W.
Qed.

Lemma exponent_part_total : forall fuel (st : plex * sb), wf (fst st) -> mu (fst st) < fuel ->
  st_res st (exponent_part pure_stream fuel st).
Proof.
  intros fuel [l b] W Hm. cbn [fst] in *. unfold exponent_part.
  destruct ((l_ch l =? 101)%N || (l_ch l =? 69)%N); [|apply st_res_refl; exact W].
  destruct ((l_ch (rc l) =? 43)%N || (l_ch (rc l) =? 45)%N).
  - apply st_res_via with (st1 := (rc (rc l), wr (l_ch (rc l)) (wr (l_ch l) b))); [cbn [fst]; leaf|].
    apply digits_us_total; cbn [fst]; leaf.
  - apply st_res_via with (st1 := (rc l, wr (l_ch l) b)); [cbn [fst]; leaf|].
    apply digits_us_total; cbn [fst]; leaf.
Qed.

Lemma take_while_res : forall cond, class0 cond -> forall fuel (st : plex * sb),
  wf (fst st) -> mu (fst st) < fuel -> st_res st (take_while pure_stream fuel cond st).
Proof. intros. apply take_while_total; assumption. Qed.

Lemma bind_res : forall st r (f : plex * sb -> option (plex * sb)) fuel,
  mu (fst st) < fuel ->
  st_res st r ->
  (forall st1, wf (fst st1) -> mu (fst st1) < fuel -> st_res st1 (f st1)) ->
  st_res st (bind r f).
Proof.
  intros st r f fuel Hm (st1 & E & [W1 H1]) Hf. subst r. cbn [bind].
  eapply st_res_via; [split; [exact W1|exact H1]|]. apply Hf; [exact W1|lia].
Qed.

Lemma hex_tail_total : forall fuel (st : plex * sb), wf (fst st) -> mu (fst st) < fuel ->
  st_res st (hex_tail pure_stream fuel st).
Proof.
  intros fuel st W Hm. unfold hex_tail.
  eapply bind_res; [exact Hm|apply take_while_res; [exact hex_us_class0|exact W|exact Hm]|].
  intros [l b] W1 Hm1. cbn [fst] in *.
  eapply bind_res with (fuel := fuel); [exact Hm1| |].
  - destruct (l_ch l =? 46)%N; [|apply st_res_refl; exact W1].
    apply st_res_via with (st1 := (rc l, wr (l_ch l) b)); [cbn [fst]; apply le_rc|].
    apply take_while_res; [exact is_hex_digit_class0|cbn [fst]; apply rc_wf|cbn [fst]; pose proof (rc_mu_le l); lia].
  - intros [l2 b2] W2 Hm2. cbn [fst] in *.
    destruct ((l_ch l2 =? 112)%N || (l_ch l2 =? 80)%N); [|apply st_res_refl; exact W2].
    destruct ((l_ch (rc l2) =? 43)%N || (l_ch (rc l2) =? 45)%N).
    + apply st_res_via with (st1 := (rc (rc l2), wr (l_ch (rc l2)) (wr (l_ch l2) b2))); [cbn [fst]; leaf|].
      apply take_while_res; [exact is_digit_class0|cbn [fst]; leaf|cbn [fst]; leaf].
    + apply st_res_via with (st1 := (rc l2, wr (l_ch l2) b2)); [cbn [fst]; leaf|].
      apply take_while_res; [exact is_digit_class0|cbn [fst]; leaf|cbn [fst]; leaf].
Qed.

Lemma us_digit_groups_total : forall fuel (st : plex * sb), wf (fst st) -> mu (fst st) < fuel ->
  st_res st (us_digit_groups pure_stream fuel st).
Proof.
  intros fuel st W Hm. unfold st_res, us_digit_groups.
  match goal with |- context [loopo fuel ?body st] =>
    destruct (loopo_total m2 P2 body fuel) with (fuel := fuel) (a := st) as (st' & E & W' & Hle); [|exact W|exact Hm|exact Hm|]
  end.
  - intros [l b] Wl HF. unfold m2, P2 in *. cbn [fst] in *.
    destruct (l_ch l =? 95)%N eqn:C.
    + assert (E0 : l_eof l = false).
      { apply ch_not_eof; [exact Wl|]. apply N.eqb_eq in C. rewrite C. discriminate. }
      peek_norm. destruct (is_digit pk).
      * destruct (take_while_total is_digit is_digit_class0 fuel (rc l, b)) as (st1 & E1 & W1 & H1).
        { cbn [fst]; apply rc_wf. } { cbn [fst]. pose proof (rc_mu_le l). lia. }
        rewrite E1. eexists; eexists; split; [reflexivity|]. cbn [fst] in *.
        pose proof (rc_mu_lt l E0). repeat split; [exact W1|lia|intros _; lia].
      * eexists; eexists; split; [reflexivity|]. cbn [fst]. repeat split; [exact Wl|lia|discriminate].
    + eexists; eexists; split; [reflexivity|]. cbn [fst]. repeat split; [exact Wl|lia|discriminate].
  - exists st'. split; [exact E|]. split; assumption.
Qed.

(* ---- scanners ---- *)

Definition tok_lt (l : plex) (r : option (item * plex)) : Prop :=
  exists it l', r = Some (it, l') /\ it_tok it <> T_EOF /\ lt_st l l'.
Definition tok_le (l : plex) (r : option (item * plex)) : Prop :=
  exists it l', r = Some (it, l') /\ it_tok it <> T_EOF /\ le_st l l'.

Lemma lookup_not_eof : forall s, lookup s <> T_EOF.
Proof.
  intros s. unfold lookup.
  assert (G : forall tbl acc, acc <> T_EOF ->
    fold_left (fun (acc : N) (e : N * list N * list N) => let '(i, _, sp) := e in
       if (keyword_beg <? i)%N && (i <? keyword_end)%N && bytes_eqb sp s then i else acc) tbl acc <> T_EOF).
  { induction tbl as [|[[i nm] sp] tbl IH]; intros acc Hacc; cbn [fold_left]; [exact Hacc|].
    apply IH. destruct ((keyword_beg <? i)%N && (i <? keyword_end)%N && bytes_eqb sp s) eqn:C; [|exact Hacc].
    apply andb_prop in C. destruct C as [C _]. apply andb_prop in C. destruct C as [C _].
    apply N.ltb_lt in C. intros Hi. subst i. vm_compute in C. discriminate C. }
  apply G. vm_compute. discriminate.
Qed.

(* a scanner of the shape: [prefix reads]; loop; [suffix]; build item *)
Ltac finish_tok :=
  eexists; eexists; split; [reflexivity|]; split; [vm_compute; discriminate|].

Lemma read_line_comment_ok : forall fuel (l : plex), wf l -> l_eof l = false -> mu l < fuel ->
  tok_lt l (read_line_comment pure_stream fuel l).
Proof.
  intros fuel l W E Hm. unfold read_line_comment.
  destruct (to_eol_total false fuel (rc (rc l), wr (l_ch (rc l)) (wr (l_ch l) []))) as ([l' b'] & E' & W' & H'); cbn [fst] in *; [leaf|leaf|].
  rewrite E'. cbn [bind]. finish_tok. leaf.
Qed.

Lemma read_hash_comment_ok : forall fuel (l : plex), wf l -> l_eof l = false -> mu l < fuel ->
  tok_lt l (read_hash_comment pure_stream fuel l).
Proof.
  intros fuel l W E Hm. unfold read_hash_comment.
  destruct (to_eol_total false fuel (rc l, wr (l_ch l) [])) as ([l' b'] & E' & W' & H'); cbn [fst] in *; [leaf|leaf|].
  rewrite E'. cbn [bind]. finish_tok. leaf.
Qed.

Lemma read_unicode_minus_comment_ok : forall fuel (l : plex), wf l -> l_eof l = false -> mu l < fuel ->
  tok_lt l (read_unicode_minus_comment pure_stream fuel l).
Proof.
  intros fuel l W E Hm. unfold read_unicode_minus_comment.
  destruct (to_eol_total true fuel (rc l, wr (l_ch l) [])) as ([l' b'] & E' & W' & H'); cbn [fst] in *; [leaf|leaf|].
  rewrite E'. cbn [bind]. finish_tok. leaf.
Qed.

Lemma read_block_comment_ok : forall fuel (l : plex), wf l -> l_eof l = false -> mu l < fuel ->
  tok_lt l (read_block_comment pure_stream fuel l).
Proof.
  intros fuel l W E Hm. unfold read_block_comment.
  destruct (loop_total m3 P3 (block_body pure_stream) block_body_ok fuel
              (rc (rc l), wr (l_ch (rc l)) (wr (l_ch l) []), 1)) as ([[l' b'] n'] & E' & W' & H');
    unfold m3, P3 in *; cbn [fst] in *; [leaf|leaf|].
  rewrite E'. cbn [bind]. finish_tok. leaf.
Qed.

(* scanners of the shape  pos := l.pos; l.readChar(); loop body; item *)
Lemma quoted_scanner : forall (body : plex * sb -> plex * sb * bool) fuel (l : plex) (k : plex * sb -> option (item * plex)),
  body_ok m2 P2 body -> wf l -> l_eof l = false -> mu l < fuel ->
  (forall l' b', le_st (rc l) l' -> tok_le l' (k (l', b'))) ->
  tok_lt l (bind (loop fuel body (rc l, [])) k).
Proof.
  intros body fuel l k Hb W E Hm Hk.
  destruct (loop2_total body Hb fuel (rc l, [])) as ([l' b'] & E' & H'); cbn [fst] in *; [leaf|leaf|].
  rewrite E'. cbn [bind].
  destruct (Hk l' b' H') as (it & l2 & Ek & Ht & H2). exists it, l2. split; [exact Ek|]. split; [exact Ht|].
  destruct H' as [W' H']. destruct H2 as [W2 H2]. split; [exact W2|]. pose proof (rc_mu_lt l E). lia.
Qed.

Ltac simple_k :=
  intros l' b' [W' H']; finish_tok; leaf.

Lemma read_string_ok : forall fuel (l : plex), wf l -> l_eof l = false -> mu l < fuel ->
  tok_lt l (read_string pure_stream fuel l).
Proof.
  intros fuel l W E Hm. unfold read_string.
  apply quoted_scanner; [apply quoted_body_ok|exact W|exact E|exact Hm|]. simple_k.
Qed.

Lemma read_backtick_identifier_ok : forall fuel (l : plex), wf l -> l_eof l = false -> mu l < fuel ->
  tok_lt l (read_backtick_identifier pure_stream fuel l).
Proof.
  intros fuel l W E Hm. unfold read_backtick_identifier.
  apply quoted_scanner; [apply quoted_body_ok|exact W|exact E|exact Hm|]. simple_k.
Qed.

Lemma read_hex_string_ok : forall fuel (l : plex), wf l -> l_eof l = false -> mu l < fuel ->
  tok_lt l (read_hex_string pure_stream fuel l).
Proof.
  intros fuel l W E Hm. unfold read_hex_string.
  apply quoted_scanner; [apply hex_string_body_ok|exact W|exact E|exact Hm|]. simple_k.
Qed.

Lemma read_binary_string_ok : forall fuel (l : plex), wf l -> l_eof l = false -> mu l < fuel ->
  tok_lt l (read_binary_string pure_stream fuel l).
Proof.
  intros fuel l W E Hm. unfold read_binary_string.
  destruct (loop_total m2 P2 (bin_string_body pure_stream) bin_string_body_ok fuel (rc l, []))
    as ([l' b'] & E' & W' & H'); unfold m2, P2 in *; cbn [fst] in *; [leaf|leaf|].
  rewrite E'. cbn [bind]. finish_tok. leaf.
Qed.

Lemma read_quoted_identifier_ok : forall fuel (l : plex), wf l -> l_eof l = false -> mu l < fuel ->
  tok_lt l (read_quoted_identifier pure_stream fuel l).
Proof.
  intros fuel l W E Hm. unfold read_quoted_identifier.
  apply quoted_scanner; [apply dquoted_body_ok|exact W|exact E|exact Hm|]. simple_k.
Qed.

Ltac until_close_scanner close :=
  match goal with
  | W : wf ?l, E : l_eof ?l = false, Hm : mu ?l < ?fuel |- _ =>
    destruct (until_close_total close fuel (rc l, [])) as ([l' b'] & E' & W' & H'); cbn [fst] in *; [leaf|leaf|];
    rewrite E'; cbn [bind]; finish_tok; destruct (l_ch l' =? close)%N; leaf
  end.

Lemma read_unicode_string_ok : forall fuel (l : plex), wf l -> l_eof l = false -> mu l < fuel ->
  tok_lt l (read_unicode_string pure_stream fuel l).
Proof. intros fuel l W E Hm. unfold read_unicode_string. until_close_scanner 8217%N. Qed.

Lemma read_unicode_quoted_identifier_ok : forall fuel (l : plex), wf l -> l_eof l = false -> mu l < fuel ->
  tok_lt l (read_unicode_quoted_identifier pure_stream fuel l).
Proof. intros fuel l W E Hm. unfold read_unicode_quoted_identifier. until_close_scanner 8221%N. Qed.

Lemma read_parameter_ok : forall fuel (l : plex), wf l -> l_eof l = false -> mu l < fuel ->
  tok_lt l (read_parameter pure_stream fuel l).
Proof. intros fuel l W E Hm. unfold read_parameter. until_close_scanner 125%N. Qed.

Lemma read_dollar_quoted_string_le : forall fuel tag (l : plex), wf l -> mu l < fuel ->
  tok_le l (read_dollar_quoted_string pure_stream fuel tag l).
Proof.
  intros fuel tag l W Hm. unfold read_dollar_quoted_string.
  set (l0 := match tag with [] => rc (rc l) | _ => l end).
  assert (H0 : le_st l l0) by (unfold l0; destruct tag; leaf).
  destruct H0 as [W0 H0].
  destruct (loop2_total (dollar_body pure_stream (36%N :: tag ++ [36%N])) (dollar_body_ok _) fuel (l0, []))
    as ([l' b'] & E' & W' & H'); cbn [fst] in *; [exact W0|lia|].
  rewrite E'. cbn [bind]. finish_tok. leaf.
Qed.

Lemma read_dollar_quoted_string_empty_lt : forall fuel (l : plex), wf l -> l_eof l = false -> mu l < fuel ->
  tok_lt l (read_dollar_quoted_string pure_stream fuel [] l).
Proof.
  intros fuel l W E Hm. unfold read_dollar_quoted_string.
  destruct (loop2_total (dollar_body pure_stream (36%N :: [] ++ [36%N])) (dollar_body_ok _) fuel (rc (rc l), []))
    as ([l' b'] & E' & W' & H'); cbn [fst] in *; [leaf|leaf|].
  rewrite E'. cbn [bind]. finish_tok. leaf.
Qed.

Lemma read_dollar_identifier_ok : forall fuel (l : plex), wf l -> l_eof l = false -> mu l < fuel ->
  tok_lt l (read_dollar_identifier pure_stream fuel l).
Proof.
  intros fuel l W E Hm. unfold read_dollar_identifier.
  destruct (take_while_total _ ident_dollar_class0 fuel (rc l, wr (l_ch l) [])) as ([l' b'] & E' & W' & H'); cbn [fst] in *; [leaf|leaf|].
  rewrite E'. cbn [bind]. finish_tok. leaf.
Qed.

(* ---- numbers and identifiers ---- *)

Lemma item_of_res : forall (mk : plex * sb -> option (item * plex)) (st0 : plex * sb) r,
  st_res st0 r ->
  (forall st, exists it, mk st = Some (it, fst st) /\ it_tok it <> T_EOF) ->
  tok_le (fst st0) (bind r mk).
Proof.
  intros mk st0 r (st & E & H) Hmk. subst r. cbn [bind].
  destruct (Hmk st) as (it & E1 & Ht). exists it, (fst st). auto.
Qed.

Lemma num_item_shape : forall pos (st : plex * sb), exists it, num_item pos st = Some (it, fst st) /\ it_tok it <> T_EOF.
Proof. intros pos [l b]. eexists; split; [reflexivity|]. vm_compute; discriminate. Qed.
Lemma ident_item_shape : forall pos (st : plex * sb), exists it, ident_item pos st = Some (it, fst st) /\ it_tok it <> T_EOF.
Proof. intros pos [l b]. eexists; split; [reflexivity|]. vm_compute; discriminate. Qed.

Lemma tok_le_via : forall (l l1 : plex) r, le_st l l1 -> tok_le l1 r -> tok_le l r.
Proof.
  intros l l1 r H (it & l' & E & Ht & H'). exists it, l'. split; [exact E|]. split; [exact Ht|].
  eapply le_trans; eassumption.
Qed.
Lemma tok_lt_via : forall (l l1 : plex) r, lt_st l l1 -> tok_le l1 r -> tok_lt l r.
Proof.
  intros l l1 r H (it & l' & E & Ht & H'). exists it, l'. split; [exact E|]. split; [exact Ht|].
  eapply lt_le_trans; eassumption.
Qed.

(* a chain  bind r1 (fun st => bind (f2 st) ... mk)  of total pieces *)
Lemma bind_tok : forall fuel (st0 : plex * sb) r (k : plex * sb -> option (item * plex)),
  mu (fst st0) < fuel ->
  st_res st0 r ->
  (forall st, wf (fst st) -> mu (fst st) < fuel -> tok_le (fst st) (k st)) ->
  tok_le (fst st0) (bind r k).
Proof.
  intros fuel st0 r k Hm (st & E & [W H]) Hk. subst r. cbn [bind].
  eapply tok_le_via; [split; [exact W|exact H]|]. apply Hk; [exact W|lia].
Qed.

Ltac use_item shape :=
  match goal with
  | |- tok_le ?l (bind ?r ?k) =>
      match r with
      | context [(l, ?b)] => apply (item_of_res k (l, b)); [|apply shape]
      end
  end.

Lemma number_general_ok : forall fuel pos (st : plex * sb), wf (fst st) -> mu (fst st) < fuel ->
  tok_le (fst st) (number_general pure_stream fuel pos st).
Proof.
  intros fuel pos st W Hm. unfold number_general.
  eapply bind_tok; [exact Hm|apply digits_us_total; assumption|].
  intros st1 W1 Hm1. eapply bind_tok; [exact Hm1|apply fraction_part_total; assumption|].
  intros st2 W2 Hm2. apply item_of_res; [apply exponent_part_total; assumption|apply num_item_shape].
Qed.

Lemma read_number_ok : forall fuel (l : plex), wf l -> l_eof l = false -> l_ch l = 46%N -> mu l < fuel ->
  tok_lt l (read_number pure_stream fuel l).
Proof.
  intros fuel l W E C Hm. unfold read_number. rewrite C. cbn [N.eqb Pos.eqb fst snd].
  apply tok_lt_via with (l1 := rc l); [apply lt_rc; exact E|].
  pose proof (rc_wf l) as W1. pose proof (rc_mu_le l) as H1.
  set (l1 := rc l) in *.
  destruct (l_ch l1 =? 48)%N.
  - pose proof (rc_wf l1) as W2. pose proof (rc_mu_le l1) as H2.
    apply tok_le_via with (l1 := rc l1); [apply le_rc|].
    set (l2 := rc l1) in *.
    pose proof (rc_wf l2) as W3. pose proof (rc_mu_le l2) as H3.
    destruct ((l_ch l2 =? 120)%N || (l_ch l2 =? 88)%N).
    { apply tok_le_via with (l1 := rc l2); [apply le_rc|].
      use_item num_item_shape. apply hex_tail_total; cbn [fst]; [exact W3|lia]. }
    destruct ((l_ch l2 =? 98)%N || (l_ch l2 =? 66)%N).
    { apply tok_le_via with (l1 := rc l2); [apply le_rc|].
      use_item num_item_shape. apply take_while_res; [exact is_bin_char_class0|exact W3|cbn [fst]; lia]. }
    destruct ((l_ch l2 =? 111)%N || (l_ch l2 =? 79)%N).
    { apply tok_le_via with (l1 := rc l2); [apply le_rc|].
      use_item num_item_shape. apply take_while_res; [exact is_oct_char_class0|exact W3|cbn [fst]; lia]. }
    match goal with |- tok_le l2 (number_general _ _ ?p (l2, ?b)) => apply (number_general_ok fuel p (l2, b)) end; cbn [fst]; [exact W2|lia].
  - match goal with |- tok_le l1 (number_general _ _ ?p (l1, ?b)) => apply (number_general_ok fuel p (l1, b)) end; cbn [fst]; [exact W1|lia].
Qed.

Lemma number_rest_ok : forall fuel pos sc (st : plex * sb), wf (fst st) -> mu (fst st) < fuel ->
  tok_le (fst st) (number_rest pure_stream fuel pos sc st).
Proof.
  intros fuel pos sc st W Hm. unfold number_rest.
  eapply bind_tok; [exact Hm|apply us_digit_groups_total; assumption|].
  intros st1 W1 Hm1. eapply bind_tok; [exact Hm1|apply fraction_part_total; assumption|].
  intros st2 W2 Hm2. eapply bind_tok; [exact Hm2|apply exponent_part_total; assumption|].
  intros [l b] W3 Hm3. cbn [fst snd] in *.
  pose proof (peek_char_st l) as Hp.
  eapply (bind_tok fuel (l, b)); [exact Hm3| |].
  - destruct (bytes_eqb (sb_str b) [48%N] && ((l_ch l =? 120)%N || (l_ch l =? 88)%N)).
    { apply st_res_via with (st1 := (rc l, wr (l_ch l) b)); [cbn [fst]; apply le_rc|].
      apply hex_tail_total; cbn [fst]; [apply rc_wf|pose proof (rc_mu_le l); lia]. }
    destruct (bytes_eqb (sb_str b) [48%N] && ((l_ch l =? 98)%N || (l_ch l =? 66)%N)); [|apply st_res_refl; exact W3].
    rewrite Hp.
    destruct ((fst (peek_char pure_stream l) =? 48)%N || (fst (peek_char pure_stream l) =? 49)%N); [|apply st_res_refl; exact W3].
    apply st_res_via with (st1 := (rc l, wr (l_ch l) b)); [cbn [fst]; apply le_rc|].
    apply take_while_res; [exact is_bin_char_class0|cbn [fst]; apply rc_wf|cbn [fst]; pose proof (rc_mu_le l); lia].
  - intros [l4 b4] W4 Hm4. cbn [fst snd] in *.
    match goal with |- tok_le l4 (bind ?r ?k) => apply (item_of_res k (l4, b4) r); [|apply num_item_shape] end.
    destruct ((sc =? 48)%N && Nat.eqb (length b4) 1 && ((l_ch l4 =? 111)%N || (l_ch l4 =? 79)%N)); [|apply st_res_refl; exact W4].
    apply st_res_via with (st1 := (rc l4, wr (l_ch l4) b4)); [cbn [fst]; apply le_rc|].
    apply take_while_res; [exact is_oct_char_class0|cbn [fst]; apply rc_wf|cbn [fst]; pose proof (rc_mu_le l4); lia].
Qed.

Lemma take_while_first : forall cond fuel (l : plex) b, class0 cond -> wf l -> cond (l_ch l) = true -> mu l < fuel ->
  exists st', take_while pure_stream fuel cond (l, b) = Some st' /\ lt_st l (fst st').
Proof.
  intros cond fuel l b C0 W C Hm. pose proof (cond_not_eof cond l C0 W C) as E.
  destruct fuel as [|f]; [lia|]. unfold take_while. cbn [loop]. rewrite C.
  destruct (take_while_total cond C0 f (rc l, wr (l_ch l) b)) as (st' & E' & H'); cbn [fst]; [apply rc_wf|pose proof (rc_mu_lt l E); lia|].
  unfold take_while in E'. rewrite E'. exists st'. split; [reflexivity|].
  eapply lt_le_trans; [apply lt_rc; exact E|exact H'].
Qed.

Lemma read_number_or_ident_ok : forall fuel (l : plex), wf l -> is_digit (l_ch l) = true -> mu l < fuel ->
  tok_lt l (read_number_or_ident pure_stream fuel l).
Proof.
  intros fuel l W C Hm. unfold read_number_or_ident.
  destruct (take_while_first is_digit fuel l [] is_digit_class0 W C Hm) as ([l1 b1] & E1 & Hlt).
  unfold sb in *. rewrite E1. cbn [bind fst snd] in *.
  apply tok_lt_via with (l1 := l1); [exact Hlt|].
  destruct Hlt as [W1 Hlt]. assert (Hm1 : mu l1 < fuel) by lia.
  pose proof (peek_char_st l1) as Hp.
  assert (Hl2 : forall c : bool, (if c then l1 else l1) = l1) by (intros []; reflexivity).
  repeat first [rewrite Hp | rewrite Hl2].
  destruct ((l_ch l1 =? 95)%N && _).
  - apply tok_le_via with (l1 := rc l1); [apply le_rc|].
    use_item ident_item_shape.
    apply take_while_res; [exact is_ident_char_class0|cbn [fst]; apply rc_wf|cbn [fst]; pose proof (rc_mu_le l1); lia].
  - destruct (is_letter (l_ch l1) && _ && _).
    + use_item ident_item_shape.
      apply take_while_res; [exact is_ident_char_class0|exact W1|exact Hm1].
    + match goal with |- tok_le l1 (number_rest _ _ ?p ?sc _) => apply (number_rest_ok fuel p sc (l1, b1)) end; [exact W1|exact Hm1].
Qed.

Lemma take_ident_runes_total : forall fuel (st : plex * list N), wf (fst st) -> mu (fst st) < fuel ->
  exists st', take_ident_runes pure_stream fuel st = Some st' /\ le_st (fst st) (fst st').
Proof.
  intros fuel st W Hm. unfold take_ident_runes. apply loop2_total; [|exact W|exact Hm].
  intros [l b] Wl. cbn beta iota zeta. destruct (is_ident_char (l_ch l)) eqn:C.
  - pose proof (cond_not_eof is_ident_char l is_ident_char_class0 Wl C). leaf.
  - leaf.
Qed.

Lemma read_identifier_ok : forall fuel (l : plex), wf l -> is_ident_start (l_ch l) = true -> mu l < fuel ->
  tok_lt l (read_identifier pure_stream fuel l).
Proof.
  intros fuel l W C Hm.
  assert (E : l_eof l = false).
  { apply (cond_not_eof is_ident_start l); [vm_compute; reflexivity|exact W|exact C]. }
  assert (Cic : is_ident_char (l_ch l) = true).
  { unfold is_ident_start in C. unfold is_ident_char. apply orb_prop in C. destruct C as [C|C]; rewrite C; cbn; [reflexivity|].
    rewrite ?orb_true_r. reflexivity. }
  unfold read_identifier.
  pose proof (peek_char_st l) as Hp.
  assert (Hl : forall c : bool, snd (if c then peek_char pure_stream l else (0%N, l)) = l) by (intros []; [exact Hp|reflexivity]).
  set (cnd := ((l_ch l =? 120)%N || (l_ch l =? 88)%N || (l_ch l =? 98)%N || (l_ch l =? 66)%N)).
  destruct (if cnd then peek_char pure_stream l else (0%N, l)) as [pk l0] eqn:EX.
  assert (Hl0 : l0 = l) by (pose proof (Hl cnd) as H0; rewrite EX in H0; exact H0).
  subst l0.
  destruct (((l_ch l =? 120)%N || (l_ch l =? 88)%N) && (pk =? 39)%N).
  { apply tok_lt_via with (l1 := rc l); [apply lt_rc; exact E|].
    destruct (l_eof (rc l)) eqn:E1.
    - (* at end of input right after x: readHexString's loop does not run *)
      unfold read_hex_string. destruct fuel as [|f]; [lia|]. cbn [loop]. unfold hex_string_body.
      rewrite (rc_eof_stays (rc l) E1). cbn [bind]. finish_tok. leaf.
    - pose proof (read_hex_string_ok fuel (rc l) (rc_wf l) E1) as (it & l' & E' & Ht & H'); [pose proof (rc_mu_le l); lia|].
      exists it, l'. split; [exact E'|]. split; [exact Ht|apply lt_le; exact H']. }
  destruct (((l_ch l =? 98)%N || (l_ch l =? 66)%N) && (pk =? 39)%N).
  { apply tok_lt_via with (l1 := rc l); [apply lt_rc; exact E|].
    destruct (l_eof (rc l)) eqn:E1.
    - unfold read_binary_string. destruct fuel as [|f]; [lia|]. cbn [loop]. unfold bin_string_body.
      rewrite (rc_eof_stays (rc l) E1). cbn [bind]. finish_tok. leaf.
    - pose proof (read_binary_string_ok fuel (rc l) (rc_wf l) E1) as (it & l' & E' & Ht & H'); [pose proof (rc_mu_le l); lia|].
      exists it, l'. split; [exact E'|]. split; [exact Ht|apply lt_le; exact H']. }
  (* the identifier loop consumes at least the first character *)
  destruct fuel as [|f]; [lia|]. unfold take_ident_runes. cbn [loop]. rewrite Cic.
  destruct (take_ident_runes_total f (rc l, [l_ch l])) as ([l' rs] & E' & H'); cbn [fst]; [apply rc_wf|pose proof (rc_mu_lt l E); lia|].
  unfold take_ident_runes in E'. rewrite E'. cbn [bind].
  eexists; eexists; split; [reflexivity|]. split; [cbn [it_tok mk_item]; apply lookup_not_eof|].
  eapply lt_le_trans; [apply lt_rc; exact E|exact H'].
Qed.

Lemma read_dollar_identifier_le : forall fuel (l : plex), wf l -> mu l < fuel ->
  tok_le l (read_dollar_identifier pure_stream fuel l).
Proof.
  intros fuel l W Hm. unfold read_dollar_identifier.
  destruct (take_while_total _ ident_dollar_class0 fuel (rc l, wr (l_ch l) [])) as ([l' b'] & E' & W' & H'); cbn [fst] in *; [leaf|leaf|].
  rewrite E'. cbn [bind]. finish_tok. leaf.
Qed.

(* ---- NextToken ---- *)

Definition at_end (l : plex) : Prop := l_eof l = true \/ l_ch l = 0%N.

Definition eof_item (l : plex) : item := mk_item T_EOF [] (l_pos l) false.

Lemma skip_whitespace_at_end : forall fuel (l : plex), wf l -> at_end l -> 0 < fuel ->
  skip_whitespace pure_stream fuel l = Some l.
Proof.
  intros fuel l W A Hf. destruct fuel as [|f]; [lia|]. unfold skip_whitespace, skip_while. cbn [loop].
  assert (Hz : l_ch l = 0%N) by (destruct A as [A|A]; [apply W; exact A|exact A]).
  rewrite Hz. rewrite is_ws_class0. reflexivity.
Qed.

Lemma next_token_at_end : forall fuel (l : plex), wf l -> at_end l -> 0 < fuel ->
  next_token pure_stream fuel l = Some (eof_item l, l).
Proof.
  intros fuel l W A Hf. unfold next_token. rewrite (skip_whitespace_at_end fuel l W A Hf). cbn [bind].
  assert (Hc : l_eof l || (l_ch l =? 0)%N = true).
  { destruct A as [A|A]; [rewrite A; reflexivity|rewrite A; apply orb_true_r]. }
  rewrite Hc. reflexivity.
Qed.

Ltac tok_simple :=
  repeat match goal with
         | |- tok_lt _ (if ?c then _ else _) => destruct c
         end;
  unfold simple; finish_tok; leaf.

Ltac dispatch tac :=
  match goal with
  | |- tok_lt _ (if ?c then _ else _) => let C := fresh "C" in destruct c eqn:C; [tac|]
  end.

Lemma next_token_not_end : forall fuel (l : plex), wf l -> l_eof l = false -> l_ch l <> 0%N ->
  is_ws (l_ch l) = false -> mu l < fuel ->
  tok_lt l (next_token pure_stream fuel l).
Proof.
  intros fuel l W E Hnz Hws Hm. unfold next_token.
  assert (Hsk : skip_whitespace pure_stream fuel l = Some l).
  { destruct fuel as [|f]; [lia|]. unfold skip_whitespace, skip_while. cbn [loop]. rewrite Hws. reflexivity. }
  rewrite Hsk. cbn [bind]. rewrite E. cbn [orb].
  destruct (l_ch l =? 0)%N eqn:Cz; [apply N.eqb_eq in Cz; contradiction|].
  pose proof (peek_char_st l) as Hp.
  match goal with |- context [if ?c then peek_char pure_stream l else (0%N, l)] => set (np := c) end.
  destruct (if np then peek_char pure_stream l else (0%N, l)) as [pk l0] eqn:EX.
  assert (Hl0 : l0 = l).
  { destruct np; [rewrite EX in Hp; exact Hp|inversion EX; reflexivity]. }
  subst l0. clear EX np.
  dispatch ltac:(apply read_line_comment_ok; assumption).
  dispatch ltac:(apply read_hash_comment_ok; assumption).
  dispatch ltac:(apply read_block_comment_ok; assumption).
  dispatch ltac:(apply read_unicode_minus_comment_ok; assumption).
  dispatch tok_simple. (* + *)
  dispatch tok_simple. (* - *)
  dispatch tok_simple. (* * *)
  dispatch tok_simple. (* / *)
  dispatch tok_simple. (* % *)
  dispatch tok_simple. (* = *)
  dispatch tok_simple. (* ! *)
  dispatch tok_simple. (* < *)
  dispatch tok_simple. (* > *)
  dispatch tok_simple. (* | *)
  dispatch tok_simple. (* : *)
  dispatch tok_simple. (* ( *)
  dispatch tok_simple. (* ) *)
  dispatch tok_simple. (* [ *)
  dispatch tok_simple. (* ] *)
  dispatch ltac:(apply read_parameter_ok; assumption).
  dispatch tok_simple. (* } *)
  dispatch tok_simple. (* , *)
  (* . *)
  dispatch ltac:(idtac).
  { destruct (is_digit pk); [|tok_simple].
    destruct (is_identifier_after_dot pure_stream l) as [idp l1] eqn:Ei.
    pose proof (is_identifier_after_dot_st l) as Hi. rewrite Ei in Hi. cbn [snd] in Hi. subst l1.
    destruct idp; [tok_simple|].
    apply read_number_ok; try assumption. apply N.eqb_eq; assumption. }
  dispatch tok_simple. (* ; *)
  dispatch tok_simple. (* ? *)
  dispatch tok_simple. (* ^ *)
  (* $ *)
  dispatch ltac:(idtac).
  { destruct (pk =? 36)%N; [apply read_dollar_quoted_string_empty_lt; assumption|].
    destruct (try_read_dollar_tag_cases l W) as [Ht|[Hle Hlt]].
    - rewrite Ht. apply read_dollar_identifier_ok; assumption.
    - specialize (Hlt E). destruct (try_read_dollar_tag pure_stream l) as [tag l2]. cbn [snd] in *.
      assert (Hm2 : mu l2 < fuel) by (destruct Hlt; lia).
      destruct tag as [|t0 tag].
      + eapply tok_lt_via; [exact Hlt|]. apply read_dollar_identifier_le; [apply Hlt|exact Hm2].
      + eapply tok_lt_via; [exact Hlt|]. apply read_dollar_quoted_string_le; [apply Hlt|exact Hm2]. }
  dispatch ltac:(apply read_string_ok; assumption).
  dispatch ltac:(apply read_unicode_string_ok; assumption).
  dispatch ltac:(apply read_quoted_identifier_ok; assumption).
  dispatch ltac:(apply read_unicode_quoted_identifier_ok; assumption).
  dispatch ltac:(apply read_backtick_identifier_ok; assumption).
  (* @ *)
  dispatch ltac:(idtac).
  { destruct (pk =? 64)%N; [|tok_simple].
    destruct (is_ident_start (l_ch (rc (rc l))) || is_digit (l_ch (rc (rc l)))); [|tok_simple].
    destruct (take_while_total is_ident_char is_ident_char_class0 fuel (rc (rc l), [64%N; 64%N])) as ([l3 b3] & E3 & W3 & H3);
      cbn [fst] in *; [leaf|leaf|].
    rewrite E3. cbn [bind]. unfold simple. finish_tok. leaf. }
  dispatch ltac:(apply read_number_or_ident_ok; assumption).
  dispatch ltac:(apply read_identifier_ok; assumption).
  unfold simple. finish_tok. leaf.
Qed.

Lemma next_token_ok : forall fuel (l : plex), wf l -> mu l < fuel ->
  exists it l', next_token pure_stream fuel l = Some (it, l') /\ wf l' /\
    ((it = eof_item l' /\ at_end l' /\ mu l' <= mu l) \/ (it_tok it <> T_EOF /\ mu l' < mu l)).
Proof.
  intros fuel l W Hm.
  destruct (skip_while_total is_ws is_ws_class0 fuel l W Hm) as (l1 & E1 & [W1 H1] & Hws).
  assert (Hf : 0 < fuel) by lia.
  assert (Hsame : next_token pure_stream fuel l = next_token pure_stream fuel l1).
  { unfold next_token, skip_whitespace. rewrite E1. cbn [bind].
    destruct fuel as [|f]; [lia|]. unfold skip_while. cbn [loop]. rewrite Hws. reflexivity. }
  rewrite Hsame.
  destruct (l_eof l1) eqn:E.
  - exists (eof_item l1), l1. split; [apply next_token_at_end; [exact W1|left; exact E|exact Hf]|].
    split; [exact W1|]. left. split; [reflexivity|]. split; [left; exact E|exact H1].
  - destruct (N.eq_dec (l_ch l1) 0) as [Hz|Hnz].
    + exists (eof_item l1), l1. split; [apply next_token_at_end; [exact W1|right; exact Hz|exact Hf]|].
      split; [exact W1|]. left. split; [reflexivity|]. split; [right; exact Hz|exact H1].
    + destruct (next_token_not_end fuel l1 W1 E Hnz Hws) as (it & l' & E' & Ht & [W' H']); [lia|].
      exists it, l'. split; [exact E'|]. split; [exact W'|]. right. split; [exact Ht|lia].
Qed.

Lemma next_n_at_end : forall k fuel (l : plex), wf l -> at_end l -> 0 < fuel ->
  next_n pure_stream k fuel l = Some (repeat (eof_item l) k).
Proof.
  induction k as [|k IH]; intros fuel l W A Hf; cbn [next_n repeat]; [reflexivity|].
  rewrite (next_token_at_end fuel l W A Hf). cbn [bind]. rewrite (IH fuel l W A Hf). reflexivity.
Qed.

Lemma tokenize_loop_ok : forall n fuel (l : plex), wf l -> mu l < n -> mu l < fuel ->
  exists pre e, tokenize_loop pure_stream n fuel l = Some (pre ++ [e]) /\ it_tok e = T_EOF /\
    Forall (fun i => it_tok i <> T_EOF) pre /\ length pre <= mu l /\
    forall k, next_n pure_stream (length pre + 1 + k) fuel l = Some (pre ++ e :: repeat e k).
Proof.
  induction n as [|n IH]; intros fuel l W Hn Hf; [lia|].
  cbn [tokenize_loop].
  destruct (next_token_ok fuel l W Hf) as (it & l' & E & W' & [(Hit & A & Hle)|(Ht & Hlt)]); rewrite E; cbn [bind].
  - subst it. cbn [eof_item it_tok mk_item]. rewrite N.eqb_refl.
    exists [], (eof_item l'). cbn [app length]. split; [reflexivity|]. split; [reflexivity|].
    split; [constructor|]. split; [lia|].
    intros k. cbn [Nat.add next_n]. rewrite E. cbn [bind].
    rewrite (next_n_at_end k fuel l' W' A); [reflexivity|lia].
  - destruct (it_tok it =? T_EOF)%N eqn:C; [apply N.eqb_eq in C; contradiction|].
    destruct (IH fuel l' W') as (pre & e & E' & He & Hpre & Hlen & Hst); [lia|lia|].
    rewrite E'. cbn [bind].
    exists (it :: pre), e. split; [reflexivity|]. split; [exact He|].
    split; [constructor; assumption|]. split; [cbn [length]; lia|].
    intros k. cbn [length Nat.add next_n]. rewrite E. cbn [bind]. rewrite (Hst k). reflexivity.
Qed.

Lemma init_lex_ok : forall bs, wf (init_lex pure_stream bs) /\ mu (init_lex pure_stream bs) <= length bs.
Proof.
  intros bs. unfold init_lex. split; [apply rc_wf|].
  set (l0 := {| l_src := bs; l_ch := 0%N; l_pos := {| p_off := 0; p_line := 1; p_col := 0 |}; l_eof := false |}).
  pose proof (rc_mu_lt l0 eq_refl) as H.
  assert (H0 : mu l0 = length bs + 1) by reflexivity. lia.
Qed.

(* C12 over the model: total, one EOF and it is last, at most one token per byte plus one, EOF sticky *)
Theorem tokenize_total : forall bs,
  exists pre e, tokenize bs = Some (pre ++ [e]) /\ it_tok e = T_EOF /\
    Forall (fun i => it_tok i <> T_EOF) pre /\ length (pre ++ [e]) <= length bs + 1 /\
    forall k, next_tokens (length (pre ++ [e]) + k) bs = Some ((pre ++ [e]) ++ repeat e k).
Proof.
  intros bs. unfold tokenize, tokenize_fuel, next_tokens.
  destruct (init_lex_ok bs) as [W H].
  destruct (tokenize_loop_ok (length bs + 2) (length bs + 2) (init_lex pure_stream bs) W) as (pre & e & E & He & Hpre & Hlen & Hst); [lia|lia|].
  exists pre, e. split; [exact E|]. split; [exact He|]. split; [exact Hpre|].
  rewrite app_length. cbn [length]. split; [lia|].
  intros k. rewrite <- app_assoc. cbn [app]. apply Hst.
Qed.
