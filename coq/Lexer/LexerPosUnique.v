(* A reported position names at most one token (consequence of the strictly increasing offsets of
   LexerPos.tokenize_offsets): two non-EOF tokens of one Tokenize result with the same Position are the
   same element of the list.  Used by Properties/C13.v (C13_e). *)
From Coq Require Import List Arith NArith Sorted Lia.
From DC Require Import Base.Item Gen.TokenTable Lexer.LexerModel Lexer.LexerPos.
Import ListNotations.

Lemma sorted_lt_nth_lt : forall (l : list N), StronglySorted N.lt l ->
  forall m n a b, (m < n)%nat -> nth_error l m = Some a -> nth_error l n = Some b -> (a < b)%N.
Proof.
  intros l Hs; induction Hs as [|x l Hs IH Hx]; intros m n a b Hmn Ha Hb.
  - destruct m; discriminate.
  - destruct n as [|n]; [lia|]. cbn [nth_error] in Hb.
    destruct m as [|m]; cbn [nth_error] in Ha.
    + injection Ha as <-. rewrite Forall_forall in Hx. apply Hx. eapply nth_error_In; eassumption.
    + eapply IH; [|eassumption|eassumption]. lia.
Qed.

Lemma sorted_lt_nth_inj : forall (l : list N), StronglySorted N.lt l ->
  forall m n a, nth_error l m = Some a -> nth_error l n = Some a -> m = n.
Proof.
  intros l Hs m n a Ha Hb.
  destruct (Nat.lt_trichotomy m n) as [H|[H|H]]; [|exact H|].
  - pose proof (sorted_lt_nth_lt l Hs m n a a H Ha Hb). lia.
  - pose proof (sorted_lt_nth_lt l Hs n m a a H Hb Ha). lia.
Qed.

Theorem tokenize_position_names_one_token : forall (bs : list N) (pre : list item) (e : item),
  tokenize bs = Some (pre ++ [e]) ->
  (forall m n i j, (m < n)%nat -> nth_error pre m = Some i -> nth_error pre n = Some j ->
     (p_off (it_pos i) < p_off (it_pos j))%N) /\
  (forall m n i j, nth_error pre m = Some i -> nth_error pre n = Some j -> it_pos i = it_pos j -> m = n).
Proof.
  intros bs pre e E.
  destruct (tokenize_offsets bs) as (pre' & e' & E' & _ & _ & Hs & _).
  rewrite E in E'. injection E' as E'. apply app_inj_tail in E'. destruct E' as [<- <-].
  split.
  - intros m n i j Hmn Hi Hj.
    eapply (sorted_lt_nth_lt _ Hs m n); [exact Hmn| |]; rewrite nth_error_map.
    + rewrite Hi. reflexivity.
    + rewrite Hj. reflexivity.
  - intros m n i j Hi Hj Hp.
    eapply (sorted_lt_nth_inj _ Hs m n (p_off (it_pos i))); rewrite nth_error_map.
    + rewrite Hi. reflexivity.
    + rewrite Hj, Hp. reflexivity.
Qed.
