(* C05, lexer part 4: follow-independence, per token class.

   tok_ok t sg r  ->  NextToken on a lexer positioned at t ++ r returns a token with signature sg and
   leaves the lexer positioned at r -- whatever r is beyond the condition in tok_ok (which looks at
   the first rune / first byte of r only).  Classes: identifiers and keywords (ASCII), unsigned
   integers and decimals d+.d+, '...' strings, "..." and `...` identifiers with plain ASCII bodies,
   operators and punctuation. *)
From Coq Require Import List NArith Bool Lia Arith ZifyBool.
From DC Require Import Base.Utf8 Base.Unicode Base.UnicodeFacts Base.Stream Base.Item Gen.TokenTable
  Lexer.LexerModel Lexer.LexerTotal Lexer.LexerLayoutSpec Lexer.LexerLayoutRel Lexer.LexerLayoutRun
  Lexer.LexerLayoutGap.
Import ListNotations.
Local Open Scope bool_scope.

(* split hypotheses of the form  negb a && negb b = true *)
Ltac split_follow :=
  repeat match goal with
         | H : _ && _ = true |- _ => apply andb_prop in H; destruct H
         | H : negb _ = true |- _ => apply negb_true_iff in H
         | H : any_follow _ = true |- _ => clear H
         end.

Ltac rewrite_false E :=
  repeat match goal with
         | H : ?x = false |- _ => rewrite H in E
         end.

Lemma at_cons_ascii2 : forall l b c r, at_ l (b :: c :: r) -> (b <? 128)%N = true -> (c <? 128)%N = true ->
  pkc l = c.
Proof.
  intros l b c r H Hb Hc. destruct (at_cons_ascii l b _ H Hb) as (_ & He & Hs & _).
  rewrite (pkc_src l He), Hs. apply pk_byte_ascii, Hc.
Qed.

(* ---------- operators and punctuation ---------- *)

(* E : next_token (S f) l = Some (it, l'), l positioned at c :: tl *)
Ltac open_token E l Hc He Hs :=
  unfold next_token in E; rewrite skip_ws_none in E by (rewrite Hc; reflexivity);
  cbn [bind] in E; rewrite ?peek_char_eta in E; rewrite ?(pkc_src l He), ?Hs in E;
  rewrite ?pk_byte_ascii in E by reflexivity;
  rewrite He, Hc in E; cbv beta zeta in E.

Ltac close_simple E :=
  unfold simple in E; injection E as <- <-; split; [reflexivity|assumption].

Lemma op_ok : forall t k fol r f it l', In (t, k, fol) op_table -> fol r = true ->
  next_token pure_stream f (st_at (t ++ r)) = Some (it, l') ->
  sig_item it = (k, t, false) /\ at_ l' r.
Proof.
  intros t k fol r f it l' Hin Hf E. destruct f as [|f]; [discriminate E|].
  unfold op_table in Hin. cbn [In] in Hin.
  repeat (destruct Hin as [Heq|Hin];
    [ injection Heq as <- <- <-; cbn [app] in E;
      match type of E with
      | next_token _ _ (st_at (?c :: ?tl)) = _ =>
          pose proof (at_st (c :: tl)) as Hat; set (l := st_at (c :: tl)) in *;
          destruct (at_cons_ascii l c tl Hat eq_refl) as (Hc & He & Hs & Hat1)
      end;
      try (match type of Hat1 with
           | at_ _ (?c2 :: ?tl2) =>
               destruct (at_cons_ascii (rc l) c2 tl2 Hat1 eq_refl) as (Hc2 & He2 & Hs2 & Hat2);
               try (match type of Hat2 with
                    | at_ _ (?c3 :: ?tl3) =>
                        destruct (at_cons_ascii (rc (rc l)) c3 tl3 Hat2 eq_refl) as (Hc3 & He3 & Hs3 & Hat3)
                    end)
           end);
      open_token E l Hc He Hs; walk;
      cbv beta in Hf; split_follow;
      try (match goal with H : (hd_rune r =? _)%N = false |- _ =>
             first [ rewrite <- (at_ch _ _ Hat2) in H | rewrite <- (at_ch _ _ Hat1) in H ] end);
      rewrite ?Hc2, ?Hc3 in E;
      rewrite_false E; walk; close_simple E
    | ]).
  contradiction.
Qed.

(* ---------- ASCII classes ---------- *)

Definition ascii_class_ok (b : N) : bool :=
  implb (is_ident_start_a b) (is_ident_start b && is_ident_char b && negb (is_digit b)) &&
  implb (is_ident_char_a b) (is_ident_char b) &&
  Bool.eqb (is_digit_a b) (is_digit b) &&
  implb (is_digit_a b) (negb (is_ident_start b)).

Lemma ascii_classes : forall b, (b < 128)%N -> ascii_class_ok b = true.
Proof.
  intros b Hb.
  assert (H : forallb ascii_class_ok ascii = true) by (vm_compute; reflexivity).
  apply (proj1 (forallb_forall _ _) H). apply ascii_complete. exact Hb.
Qed.

Lemma ident_start_a_lt : forall b, is_ident_start_a b = true -> (b < 128)%N.
Proof. intros b H. unfold is_ident_start_a, in_range in H. lia. Qed.
Lemma ident_char_a_lt : forall b, is_ident_char_a b = true -> (b < 128)%N.
Proof. intros b H. unfold is_ident_char_a, in_range in H. lia. Qed.
Lemma digit_a_lt : forall b, is_digit_a b = true -> (b < 128)%N.
Proof. intros b H. unfold is_digit_a, in_range in H. lia. Qed.

Lemma ident_char_a_ok : forall b, is_ident_char_a b = true -> is_ident_char b = true.
Proof.
  intros b H. pose proof (ascii_classes b (ident_char_a_lt b H)) as A. unfold ascii_class_ok in A.
  rewrite H in A.
  destruct (is_ident_start_a b), (is_ident_start b), (is_ident_char b), (is_digit b), (is_digit_a b);
    cbn in A; try discriminate A; reflexivity.
Qed.

Lemma digit_a_ok : forall b, is_digit_a b = true -> is_digit b = true.
Proof.
  intros b H. pose proof (ascii_classes b (digit_a_lt b H)) as A. unfold ascii_class_ok in A.
  rewrite H in A.
  destruct (is_ident_start_a b), (is_ident_start b), (is_ident_char b), (is_digit b), (is_ident_char_a b);
    cbn in A; try discriminate A; reflexivity.
Qed.

(* ---------- dispatch: a letter goes to readIdentifier, a digit to readNumberOrIdent ---------- *)

Definition ident_start_list : list N :=
  Eval vm_compute in filter is_ident_start_a ascii.
Definition digit_list : list N :=
  Eval vm_compute in filter is_digit_a ascii.

Lemma ident_start_in : forall b, is_ident_start_a b = true -> In b ident_start_list.
Proof.
  intros b H. change ident_start_list with (filter is_ident_start_a ascii).
  apply filter_In. split; [apply ascii_complete, ident_start_a_lt, H|exact H].
Qed.
Lemma digit_in : forall b, is_digit_a b = true -> In b digit_list.
Proof.
  intros b H. change digit_list with (filter is_digit_a ascii).
  apply filter_In. split; [apply ascii_complete, digit_a_lt, H|exact H].
Qed.

Ltac walkg :=
  repeat match goal with
         | |- context [if ?c then _ else _] =>
             first [ change c with true | change c with false ]; cbv iota
         end.

Lemma nt_ident_dispatch : forall f (l : plex), l_eof l = false -> is_ident_start_a (l_ch l) = true ->
  next_token pure_stream (Datatypes.S f) l = read_identifier pure_stream (Datatypes.S f) l.
Proof.
  intros f l He H. pose proof (ident_start_in _ H) as Hin.
  unfold next_token.
  assert (Hws : is_ws (l_ch l) = false).
  { unfold ident_start_list in Hin. cbn [In] in Hin.
    repeat (destruct Hin as [<-|Hin]; [reflexivity|]). contradiction. }
  rewrite skip_ws_none by exact Hws. cbn [bind]. rewrite He.
  unfold ident_start_list in Hin. cbn [In] in Hin.
  repeat (destruct Hin as [<-|Hin]; [cbv beta zeta; walkg; reflexivity|]).
  contradiction.
Qed.

Lemma nt_digit_dispatch : forall f (l : plex), l_eof l = false -> is_digit_a (l_ch l) = true ->
  next_token pure_stream (Datatypes.S f) l = read_number_or_ident pure_stream (Datatypes.S f) l.
Proof.
  intros f l He H. pose proof (digit_in _ H) as Hin.
  unfold next_token.
  assert (Hws : is_ws (l_ch l) = false).
  { unfold digit_list in Hin. cbn [In] in Hin.
    repeat (destruct Hin as [<-|Hin]; [reflexivity|]). contradiction. }
  rewrite skip_ws_none by exact Hws. cbn [bind]. rewrite He.
  unfold digit_list in Hin. cbn [In] in Hin.
  repeat (destruct Hin as [<-|Hin]; [cbv beta zeta; walkg; reflexivity|]).
  contradiction.
Qed.

(* ---------- identifiers and keywords ---------- *)

Lemma take_ident_step : forall f (l : plex) rs,
  take_ident_runes pure_stream (Datatypes.S f) (l, rs) =
  if is_ident_char (l_ch l) then take_ident_runes pure_stream f (rc l, l_ch l :: rs) else Some (l, rs).
Proof.
  intros f l rs. unfold take_ident_runes. cbn [loop]. destruct (is_ident_char (l_ch l)); reflexivity.
Qed.

Lemma take_ident_spec : forall f t r (l : plex) acc l1 rs,
  at_ l (t ++ r) -> forallb is_ident_char_a t = true -> is_ident_char (hd_rune r) = false ->
  take_ident_runes pure_stream f (l, acc) = Some (l1, rs) -> at_ l1 r /\ rs = rev t ++ acc.
Proof.
  induction f as [|f IH]; intros t r l acc l1 rs Hat Ht Hr E; [discriminate E|].
  rewrite take_ident_step in E. destruct t as [|c t].
  - cbn [app] in Hat. rewrite (at_ch _ _ Hat), Hr in E. injection E as <- <-. split; [exact Hat|reflexivity].
  - cbn [forallb] in Ht. apply andb_prop in Ht. destruct Ht as [Hc Ht].
    pose proof (ident_char_a_lt c Hc) as Hlt.
    destruct (at_cons_ascii l c (t ++ r) Hat) as (Hch & _ & _ & Hat1); [lia|].
    rewrite Hch, (ident_char_a_ok c Hc) in E.
    destruct (IH t r (rc l) (c :: acc) l1 rs Hat1 Ht Hr E) as [H1 H2].
    split; [exact H1|]. rewrite H2. cbn [rev]. rewrite <- app_assoc. reflexivity.
Qed.

Lemma encode_ascii : forall b, (b < 128)%N -> encode_rune b = [b].
Proof. intros b H. unfold encode_rune. replace (b <? 128)%N with true by lia. reflexivity. Qed.

Lemma flat_encode_ascii : forall t, Forall (fun b => (b < 128)%N) t -> flat_map encode_rune t = t.
Proof.
  induction t as [|b t IH]; intros H; [reflexivity|]. inversion H as [|? ? Hb Ht]. subst.
  cbn [flat_map]. rewrite (encode_ascii b Hb), IH by exact Ht. reflexivity.
Qed.

Lemma to_upper_ascii : forall b, (b < 128)%N -> to_upper b = ascii_upper b /\ (ascii_upper b < 128)%N.
Proof.
  intros b H. unfold to_upper, ascii_upper, rng, in_range. replace (b <? 128)%N with true by lia.
  destruct ((97 <=? b)%N && (b <=? 122)%N) eqn:C; split; try reflexivity; lia.
Qed.

Lemma upper_bytes_ascii : forall t, Forall (fun b => (b < 128)%N) t -> upper_bytes t = map ascii_upper t.
Proof.
  induction t as [|b t IH]; intros H; [reflexivity|]. inversion H as [|? ? Hb Ht]. subst.
  unfold upper_bytes in *. cbn [flat_map map]. destruct (to_upper_ascii b Hb) as [E1 E2].
  rewrite E1, (encode_ascii _ E2), IH by exact Ht. reflexivity.
Qed.

Lemma ident_word_ascii : forall t, ident_word t = true -> Forall (fun b => (b < 128)%N) t.
Proof.
  intros [|c t] H; [discriminate H|]. cbn [ident_word] in H. apply andb_prop in H. destruct H as [Hc Ht].
  constructor; [apply ident_start_a_lt, Hc|].
  apply Forall_forall. intros b Hb. apply ident_char_a_lt. apply (proj1 (forallb_forall _ _) Ht b Hb).
Qed.

Lemma ident_ok : forall t r f it l', ident_word t = true -> follow_ident t r = true ->
  next_token pure_stream f (st_at (t ++ r)) = Some (it, l') ->
  sig_item it = (lookup (map ascii_upper t), t, false) /\ at_ l' r.
Proof.
  intros t r f it l' Hw Hf E. destruct f as [|f]; [discriminate E|].
  pose proof (ident_word_ascii t Hw) as Hascii.
  destruct t as [|c cs]; [discriminate Hw|].
  pose proof Hw as Hw0. cbn [ident_word] in Hw. apply andb_prop in Hw. destruct Hw as [Hc Hcs].
  pose proof (ident_start_a_lt c Hc) as Hlt.
  pose proof (at_st ((c :: cs) ++ r)) as Hat. set (l := st_at ((c :: cs) ++ r)) in *.
  destruct (at_cons_ascii l c (cs ++ r) Hat) as (Hch & He & Hs & Hat1); [lia|].
  rewrite nt_ident_dispatch in E by (try rewrite Hch; assumption).
  unfold read_identifier in E. cbv beta zeta in E. rewrite peek_char_eta in E.
  rewrite (pkc_src l He), Hs, Hch in E.
  unfold follow_ident in Hf. apply andb_prop in Hf. destruct Hf as [Hf1 Hf2].
  apply negb_true_iff in Hf1. apply negb_true_iff in Hf2.
  (* the x'..' / b'..' test fails *)
  set (cnd := ((c =? 120)%N || (c =? 88)%N || (c =? 98)%N || (c =? 66)%N)) in *.
  assert (Hpk : cnd = true -> (pk_byte (cs ++ r) =? 39)%N = false).
  { intros Hcnd. destruct cs as [|c2 cs2].
    - cbn [app]. cbn [xb_single] in Hf2. fold cnd in Hf2. rewrite Hcnd in Hf2. exact Hf2.
    - cbn [app forallb] in *. apply andb_prop in Hcs. destruct Hcs as [Hc2 _].
      rewrite pk_byte_ascii by (pose proof (ident_char_a_lt c2 Hc2); lia).
      unfold is_ident_char_a, in_range in Hc2. lia. }
  assert (E' : bind (take_ident_runes pure_stream (Datatypes.S f) (l, []))
                 (fun '(l0, rs) => Some (mk_item (lookup (upper_bytes (frev rs))) (flat_map encode_rune (frev rs)) (l_pos l) false, l0))
               = Some (it, l')).
  { destruct cnd eqn:Hcnd.
    - rewrite (Hpk eq_refl) in E. rewrite !andb_false_r in E. exact E.
    - cbv iota in E. replace ((c =? 120)%N || (c =? 88)%N) with false in E by (unfold cnd in Hcnd; lia).
      replace ((c =? 98)%N || (c =? 66)%N) with false in E by (unfold cnd in Hcnd; lia).
      cbn [andb] in E. exact E. }
  clear E.
  destruct (take_ident_runes pure_stream (Datatypes.S f) (l, [])) as [[l1 rs]|] eqn:Et; [|discriminate E'].
  cbn [bind] in E'. injection E' as <- <-.
  destruct (take_ident_spec (Datatypes.S f) (c :: cs) r l [] l1 rs Hat) as [H1 H2]; [| exact Hf1 | exact Et |].
  { cbn [forallb]. rewrite Hcs, andb_true_r. unfold is_ident_start_a, is_ident_char_a in *. lia. }
  split; [|exact H1].
  unfold sig_item. cbn [it_tok it_val it_quoted mk_item].
  rewrite H2, app_nil_r. unfold frev. rewrite rev_append_rev, app_nil_r, rev_involutive.
  rewrite upper_bytes_ascii, flat_encode_ascii by exact Hascii. reflexivity.
Qed.

