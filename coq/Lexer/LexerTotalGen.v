(* Totality of the lexer model over an ARBITRARY stream implementation.

   Lexer/LexerTotal.v proves C12 over the pure stream (all bytes available at once; Peek never
   changes the state).  This file re-does that proof against an abstract interface: a stream
   implementation `o : stream_ops St` together with a measure `smu : St -> nat` such that

     Hpeek : Peek never increases the measure,
     Hread : a ReadRune that RETURNS A RUNE strictly decreases it.

   Nothing is assumed about a ReadRune that returns an error (end of input or any other): the lexer
   sets l.eof then and never touches the stream again through readChar; the remaining work of a
   lexer state is

     mu l = 0                    when l.eof
          = smu (l_src l) + 1    otherwise.

   Peek may change the stream state (bufio.Reader fills its buffer, consumes error chunks, ...), so
   where LexerTotal.v uses "peeking leaves the lexer unchanged" this file uses the relation
   `peeked l l1`: same ch / eof, stream measure not larger.

   Results (Section Gen, all for every fuel > mu l):
     next_token_ok     NextToken returns; EOF exactly at end of input / NUL, otherwise a non-EOF token
                       and strictly less remaining work;
     next_n_total, run_lexer_total   any number of NextToken calls return;
     tokenize_loop_ok  Tokenize returns, one EOF and it is last, EOF is sticky.
   Instances: Lexer/LexerTotalBufio.v (bufio.Reader over ANY scripted reader) and, as a sanity check,
   the pure stream at the end of this file (pure_tokenize_total_again = LexerTotal.tokenize_total). *)
From Coq Require Import List NArith Bool Lia Arith ZifyN ZifyNat ZifyBool.
From DC Require Import Base.Utf8 Base.Unicode Base.UnicodeFacts Base.Stream Base.Item Gen.TokenTable Lexer.LexerModel.
From DC Require Lexer.LexerTotal Lexer.LexerSim.
Import ListNotations.
Local Open Scope bool_scope.

(* generic pieces of LexerTotal.v that do not mention the stream *)
Notation class0 := LexerTotal.class0.
Notation loop_total := LexerTotal.loop_total.
Notation loopo_total := LexerTotal.loopo_total.
Notation run_lexer := LexerSim.run_lexer.

Section Gen.
Context {St : Type} (o : stream_ops St) (smu : St -> nat).
Hypothesis Hpeek : forall n s, smu (snd (s_peek o n s)) <= smu s.
Hypothesis Hread : forall s r, fst (s_read_rune o s) = Some r -> smu (snd (s_read_rune o s)) < smu s.

Notation glex := (@lex St).
Notation rc := (read_char o).

(* remaining work *)
Definition mu (l : glex) : nat := if l_eof l then 0 else Datatypes.S (smu (l_src l)).
(* at end of input the current character is 0 *)
Definition wf (l : glex) : Prop := l_eof l = true -> l_ch l = 0%N.

Definition le_st (l l' : glex) : Prop := wf l' /\ mu l' <= mu l.      (* l' is l after some reads *)
Definition lt_st (l l' : glex) : Prop := wf l' /\ mu l' < mu l.       (* ... at least one real read *)

(* read_char, case by case *)
Lemma rc_cases : forall l : glex,
  (l_eof l = true /\ l_eof (rc l) = true /\ l_ch (rc l) = 0%N /\ l_src (rc l) = l_src l) \/
  (l_eof l = false /\ l_eof (rc l) = true /\ l_ch (rc l) = 0%N) \/
  (l_eof l = false /\ l_eof (rc l) = false /\ smu (l_src (rc l)) < smu (l_src l)).
Proof.
  intros l. unfold read_char. destruct (l_eof l) eqn:E.
  - left. cbn. auto.
  - right. pose proof (Hread (l_src l)) as Hr.
    destruct (s_read_rune o (l_src l)) as [[[r sz]|] s'] eqn:Es; cbn [fst snd] in Hr.
    + right. cbn. split; [reflexivity|]. split; [reflexivity|]. apply (Hr (r, sz)). reflexivity.
    + left. cbn. auto.
Qed.

Lemma rc_wf : forall l, wf (rc l).
Proof.
  intros l. unfold wf. destruct (rc_cases l) as [(_ & _ & H & _)|[(_ & _ & H)|(_ & H & _)]].
  - intros _; exact H.
  - intros _; exact H.
  - intros H1; rewrite H in H1; discriminate H1.
Qed.

Lemma rc_mu_le : forall l, mu (rc l) <= mu l.
Proof.
  intros l. unfold mu.
  destruct (rc_cases l) as [(E & E1 & _ & S1)|[(E & E1 & _)|(E & E1 & S1)]]; rewrite E, E1; lia.
Qed.

Lemma rc_mu_lt : forall l, l_eof l = false -> mu (rc l) < mu l.
Proof.
  intros l E0. unfold mu.
  destruct (rc_cases l) as [(E & E1 & _ & S1)|[(E & E1 & _)|(E & E1 & S1)]]; rewrite E, E1; try lia.
Qed.

Lemma rc_eof_stays : forall l, l_eof l = true -> l_eof (rc l) = true.
Proof. intros l E. unfold read_char. rewrite E. reflexivity. Qed.

Lemma le_refl : forall l, wf l -> le_st l l.
Proof. intros l H; split; [exact H|lia]. Qed.
Lemma le_rc : forall l, le_st l (rc l).
Proof. intros l; split; [apply rc_wf|apply rc_mu_le]. Qed.
Lemma lt_rc : forall l, l_eof l = false -> lt_st l (rc l).
Proof. intros l E; split; [apply rc_wf|apply rc_mu_lt; exact E]. Qed.
Lemma le_trans : forall a b c, le_st a b -> le_st b c -> le_st a c.
Proof. intros a b c [_ H1] [W H2]; split; [exact W|lia]. Qed.
Lemma lt_le_trans : forall a b c, lt_st a b -> le_st b c -> lt_st a c.
Proof. intros a b c [_ H1] [W H2]; split; [exact W|lia]. Qed.
Lemma le_lt_trans : forall a b c, le_st a b -> lt_st b c -> lt_st a c.
Proof. intros a b c [_ H1] [W H2]; split; [exact W|lia]. Qed.
Lemma lt_le : forall a b, lt_st a b -> le_st a b.
Proof. intros a b [W H]; split; [exact W|lia]. Qed.
Lemma le_rc_after : forall a b, le_st a b -> le_st a (rc b).
Proof. intros a b H. eapply le_trans; [exact H|apply le_rc]. Qed.
Lemma lt_rc_after : forall a b, lt_st a b -> lt_st a (rc b).
Proof. intros a b H. eapply lt_le_trans; [exact H|apply le_rc]. Qed.

(* not at end of input when the current character is not 0 *)
Lemma ch_not_eof : forall l, wf l -> l_ch l <> 0%N -> l_eof l = false.
Proof. intros l W H. destruct (l_eof l) eqn:E; [|reflexivity]. exfalso. apply H, W. exact E. Qed.

(* ---- peeking: same character / eof flag, stream measure not larger ---- *)
Definition peeked (l l1 : glex) : Prop :=
  l_ch l1 = l_ch l /\ l_eof l1 = l_eof l /\ smu (l_src l1) <= smu (l_src l).

Lemma peeked_refl : forall l, peeked l l.
Proof. intros l. repeat split. lia. Qed.
Lemma peeked_trans : forall a b c, peeked a b -> peeked b c -> peeked a c.
Proof. intros a b c (H1 & H2 & H3) (K1 & K2 & K3). repeat split; [congruence|congruence|lia]. Qed.
Lemma peeked_mu : forall l l1, peeked l l1 -> mu l1 <= mu l.
Proof. intros l l1 (_ & H2 & H3). unfold mu. rewrite H2. destruct (l_eof l); lia. Qed.
Lemma peeked_wf : forall l l1, wf l -> peeked l l1 -> wf l1.
Proof. intros l l1 W (H1 & H2 & _) E. rewrite H1. apply W. rewrite <- H2. exact E. Qed.
Lemma peeked_le : forall l l1, wf l -> peeked l l1 -> le_st l l1.
Proof. intros l l1 W H. split; [eapply peeked_wf; eassumption|apply peeked_mu; exact H]. Qed.

Lemma set_src_peeked : forall l n, peeked l (set_src l (snd (s_peek o n (l_src l)))).
Proof. intros l n. repeat split. cbn. apply Hpeek. Qed.

Lemma peek_char_pk : forall l, peeked l (snd (peek_char o l)).
Proof.
  intros l. unfold peek_char. destruct (l_eof l); [apply peeked_refl|].
  pose proof (set_src_peeked l 1) as H.
  destruct (s_peek o 1 (l_src l)) as [bs s']. cbn [snd] in H. destruct bs; exact H.
Qed.
Lemma peek_char_n_pk : forall n l, peeked l (snd (peek_char_n o n l)).
Proof.
  intros n l. unfold peek_char_n. destruct (l_eof l || Nat.ltb n 1); [apply peeked_refl|].
  pose proof (set_src_peeked l (n * 4)) as H.
  destruct (s_peek o (n * 4) (l_src l)) as [bs s']. exact H.
Qed.
Lemma is_identifier_after_dot_pk : forall l, peeked l (snd (is_identifier_after_dot o l)).
Proof.
  intros l. unfold is_identifier_after_dot.
  pose proof (set_src_peeked l 32) as H.
  destruct (s_peek o 32 (l_src l)) as [bs s']. cbn [snd] in H.
  repeat match goal with
         | |- context [match ?x with _ => _ end] => destruct x
         end; exact H.
Qed.

(* measure and invariant on (lexer, builder) and (lexer, builder, nesting) states *)
Definition m2 {B : Type} (st : glex * B) : nat := mu (fst st).
Definition P2 {B : Type} (st : glex * B) : Prop := wf (fst st).
Definition m3 {B C : Type} (st : glex * B * C) : nat := mu (fst (fst st)).
Definition P3 {B C : Type} (st : glex * B * C) : Prop := wf (fst (fst st)).

(* ---- automation ---- *)

(* turn a `peeked l l1` fact into its components and the mu inequality *)
Ltac use_pk H :=
  let Hm := fresh "Hmu" in
  pose proof (peeked_mu _ _ H) as Hm;
  let Hc := fresh "Hch" in let He := fresh "Heof" in let Hs := fresh "Hsm" in
  destruct H as (Hc & He & Hs).

(* facts about a peeked state that follow from facts about the original one *)
Ltac transfer :=
  repeat match goal with
  | Heof : l_eof ?l1 = l_eof ?l, E : l_eof ?l = false |- _ =>
      lazymatch goal with
      | _ : l_eof l1 = false |- _ => fail
      | _ => assert (l_eof l1 = false) by (rewrite Heof; exact E)
      end
  | Heof : l_eof ?l1 = l_eof ?l, Hch : l_ch ?l1 = l_ch ?l, W : wf ?l |- _ =>
      lazymatch goal with
      | _ : wf l1 |- _ => fail
      | _ => assert (wf l1) by (intros Htr; rewrite Hch; apply W; rewrite <- Heof; exact Htr)
      end
  end.

Ltac peek_norm :=
  repeat match goal with
  | |- context [peek_char o ?l] =>
      let pk := fresh "pk" in let l1 := fresh "l1" in let E := fresh "Epk" in let H := fresh "Hpk" in
      pose proof (peek_char_pk l) as H;
      destruct (peek_char o l) as [pk l1] eqn:E; cbn [snd] in H; use_pk H
  | |- context [peek_char_n o ?n ?l] =>
      let pk := fresh "pk" in let l1 := fresh "l1" in let E := fresh "Epk" in let H := fresh "Hpk" in
      pose proof (peek_char_n_pk n l) as H;
      destruct (peek_char_n o n l) as [pk l1] eqn:E; cbn [snd] in H; use_pk H
  end.

(* add mu/wf facts for every `rc x` occurring in the goal *)
Ltac rc_facts :=
  repeat match goal with
  | |- context [read_char o ?x] =>
      lazymatch goal with
      | H : mu (rc x) <= mu x |- _ => fail
      | _ => idtac
      end;
      pose proof (rc_mu_le x); pose proof (rc_wf x)
  | H0 : context [read_char o ?x] |- _ =>
      lazymatch goal with
      | H : mu (rc x) <= mu x |- _ => fail
      | _ => idtac
      end;
      pose proof (rc_mu_le x); pose proof (rc_wf x)
  end.

(* add the strict fact for l when l_eof l = false is known *)
Ltac rc_strict :=
  repeat match goal with
  | E : l_eof ?x = false |- _ =>
      lazymatch goal with
      | H : mu (rc x) < mu x |- _ => fail
      | _ => pose proof (rc_mu_lt x E)
      end
  end.

Ltac split_ifs :=
  repeat (peek_norm;
          match goal with
          | |- context [if ?c then _ else _] => let E := fresh "C" in destruct c eqn:E
          end).

Ltac leaf :=
  unfold m2, P2, m3, P3 in *; cbn [fst snd] in *; transfer; rc_facts; rc_strict;
  repeat match goal with
         | |- _ /\ _ => split
         | |- wf (rc _) => apply rc_wf
         | |- wf _ => assumption
         | |- _ -> _ => intro
         | |- le_st _ _ => unfold le_st
         | |- lt_st _ _ => unfold lt_st
         end;
  try discriminate; try lia.

Lemma cond_not_eof : forall (cond : N -> bool) (l : glex), class0 cond -> wf l -> cond (l_ch l) = true -> l_eof l = false.
Proof.
  intros cond l C0 W H. destruct (l_eof l) eqn:E; [|reflexivity].
  rewrite (W E) in H. unfold LexerTotal.class0 in C0. rewrite C0 in H. discriminate H.
Qed.

Lemma take_while_total : forall cond, class0 cond -> forall fuel (st : glex * sb),
  wf (fst st) -> mu (fst st) < fuel ->
  exists st', take_while o fuel cond st = Some st' /\ le_st (fst st) (fst st').
Proof.
  intros cond C0 fuel st W Hm. unfold take_while.
  destruct (loop_total m2 P2 (fun '(l, b) => if cond (l_ch l) then (rc l, wr (l_ch l) b, true) else (l, b, false))) with (fuel := fuel) (a := st)
    as (st' & E & W' & Hle); [|exact W|exact Hm|].
  - intros [l b] Wl. cbn beta iota zeta. destruct (cond (l_ch l)) eqn:C.
    + pose proof (cond_not_eof cond l C0 Wl C). leaf.
    + leaf.
  - exists st'. split; [exact E|]. split; assumption.
Qed.

Lemma skip_while_total : forall cond, class0 cond -> forall fuel (l : glex),
  wf l -> mu l < fuel ->
  exists l', skip_while o fuel cond l = Some l' /\ le_st l l' /\ cond (l_ch l') = false.
Proof.
  intros cond C0 fuel. unfold skip_while.
  induction fuel as [|f IH]; intros l W Hm; [lia|].
  cbn. destruct (cond (l_ch l)) eqn:C.
  - pose proof (cond_not_eof cond l C0 W C) as E.
    destruct (IH (rc l)) as (l' & E' & Hle & Hc); [apply rc_wf|pose proof (rc_mu_lt l E); lia|].
    exists l'. split; [exact E'|]. split; [|exact Hc].
    eapply le_trans; [apply le_rc|exact Hle].
  - exists l. split; [reflexivity|]. split; [apply le_refl; exact W|exact C].
Qed.

(* ---- bodies of the individual loops ---- *)

Definition body_ok {A : Type} (m : A -> nat) (P : A -> Prop) (body : A -> A * bool) : Prop :=
  forall a, P a -> P (fst (body a)) /\ m (fst (body a)) <= m a /\ (snd (body a) = true -> m (fst (body a)) < m a).

Lemma loop2_total : forall {B : Type} (body : glex * B -> glex * B * bool),
  body_ok m2 P2 body ->
  forall fuel st, wf (fst st) -> mu (fst st) < fuel ->
  exists st', loop fuel body st = Some st' /\ le_st (fst st) (fst st').
Proof.
  intros B body Hb fuel st W Hm.
  destruct (loop_total m2 P2 body Hb fuel st W Hm) as (st' & E & W' & Hle).
  exists st'. split; [exact E|]. split; assumption.
Qed.

Lemma to_eol_total : forall stop fuel (st : glex * sb),
  wf (fst st) -> mu (fst st) < fuel ->
  exists st', to_eol o fuel stop st = Some st' /\ le_st (fst st) (fst st').
Proof.
  intros stop fuel st W Hm. unfold to_eol. apply loop2_total; [|exact W|exact Hm].
  intros [l b] Wl. cbn beta iota zeta. unfold not_eol.
  destruct (l_eof l) eqn:E; cbn [negb andb]; rewrite ?andb_false_r; cbn [andb]; [leaf|].
  split_ifs; leaf.
Qed.

Lemma block_body_ok : body_ok m3 P3 (block_body o).
Proof.
  intros [[l b] n] Wl. unfold block_body.
  destruct (l_eof l) eqn:E; cbn [negb andb]; [leaf|].
  split_ifs; leaf.
Qed.

Lemma escape_switch_le : forall bt (l : glex) b, wf l ->
  le_st l (fst (fst (escape_switch o bt l b))).
Proof.
  intros bt l b W. unfold escape_switch. split_ifs; leaf.
Qed.

Lemma quoted_body_ok : forall q bt, body_ok m2 P2 (quoted_body o q bt).
Proof.
  intros q bt [l b] Wl. unfold quoted_body.
  destruct (l_eof l) eqn:E; [leaf|].
  destruct (l_ch l =? q)%N.
  - split_ifs; leaf.
  - destruct (l_ch l =? 92)%N; [|leaf].
    destruct (l_eof (rc l)) eqn:E1; [leaf|].
    pose proof (escape_switch_le bt (rc l) b (rc_wf l)) as [W2 H2].
    destruct (escape_switch o bt (rc l) b) as [[l2 b2] adv]. cbn [fst] in *.
    destruct adv; leaf.
Qed.

Lemma hex_string_body_ok : body_ok m2 P2 (hex_string_body o).
Proof. intros [l b] Wl. unfold hex_string_body. split_ifs; leaf. Qed.

Lemma bin_string_body_ok : body_ok m2 P2 (bin_string_body o).
Proof. intros [l b] Wl. unfold bin_string_body. split_ifs; leaf. Qed.

Lemma dquoted_body_ok : body_ok m2 P2 (dquoted_body o).
Proof. intros [l b] Wl. unfold dquoted_body. split_ifs; leaf. Qed.

Lemma until_close_total : forall close fuel (st : glex * sb),
  wf (fst st) -> mu (fst st) < fuel ->
  exists st', until_close o fuel close st = Some st' /\ le_st (fst st) (fst st').
Proof.
  intros close fuel st W Hm. unfold until_close. apply loop2_total; [|exact W|exact Hm].
  intros [l b] Wl. cbn beta iota zeta.
  destruct (l_eof l) eqn:E; cbn [negb andb]; [leaf|]. split_ifs; leaf.
Qed.

Lemma iter_read_le : forall n (l : glex), wf l -> le_st l (iter_read o n l).
Proof.
  induction n as [|n IH]; intros l W; cbn [iter_read]; [apply le_refl; exact W|].
  eapply le_trans; [apply le_rc|apply IH, rc_wf].
Qed.

Lemma delim_match_pk : forall rest i (l : glex), peeked l (snd (delim_match o i rest l)).
Proof.
  induction rest as [|c rest IH]; intros i l; cbn [delim_match]; [apply peeked_refl|].
  pose proof (peek_char_n_pk i l) as H.
  destruct (peek_char_n o i l) as [pk l1]. cbn [snd] in H.
  destruct (pk =? c)%N; [eapply peeked_trans; [exact H|apply IH]|exact H].
Qed.

Lemma dollar_body_ok : forall closing, body_ok m2 P2 (dollar_body o closing).
Proof.
  intros closing [l b] Wl. unfold dollar_body.
  destruct (l_eof l) eqn:E; [leaf|].
  destruct (l_ch l =? 36)%N; [|leaf].
  pose proof (delim_match_pk (tl closing) 1%nat l) as H.
  destruct (delim_match o 1 (tl closing) l) as [m l1] eqn:Em. cbn [snd] in H. use_pk H.
  destruct m; [|leaf].
  unfold m2, P2 in *. cbn [fst snd] in *. transfer.
  match goal with W1 : wf l1 |- _ => destruct (iter_read_le (length closing) l1 W1) as [W2 H2] end.
  repeat split; [exact W2|lia|discriminate].
Qed.

(* tryReadDollarTag: either no tag and only a Peek happened, or the tag was consumed *)
Lemma try_read_dollar_tag_cases : forall (l : glex), wf l ->
  (fst (try_read_dollar_tag o l) = [] /\ peeked l (snd (try_read_dollar_tag o l))) \/
  (le_st l (snd (try_read_dollar_tag o l)) /\
   (l_eof l = false -> lt_st l (snd (try_read_dollar_tag o l)))).
Proof.
  intros l W. unfold try_read_dollar_tag.
  pose proof (set_src_peeked l 8192) as H.
  destruct (s_peek o 8192 (l_src l)) as [bs s']. cbn [snd] in H.
  set (l0 := set_src l s') in *. clearbody l0.
  destruct bs as [|b0 bs0]; [left; split; [reflexivity|exact H]|].
  destruct (decode_rune (b0 :: bs0)) as [r sz].
  destruct (negb (is_letter r) && negb (r =? 95)%N); [left; split; [reflexivity|exact H]|].
  destruct (scan_tag (length (b0 :: bs0)) (skipn sz (b0 :: bs0)) (wr r [])) as [tagr rest].
  destruct rest as [|c0 rest0]; [left; split; [reflexivity|exact H]|].
  destruct (decode_rune (c0 :: rest0)) as [r2 sz2].
  destruct (negb (r2 =? 36)%N); [left; split; [reflexivity|exact H]|].
  destruct (find_sub _ _); [|left; split; [reflexivity|exact H]].
  right. cbn [fst snd]. use_pk H.
  pose proof (iter_read_le (length (sb_str tagr)) (rc l0) (rc_wf l0)) as [W2 H2].
  set (l2 := iter_read o (length (sb_str tagr)) (rc l0)) in *.
  split.
  - split; [apply rc_wf|]. pose proof (rc_mu_le l2). pose proof (rc_mu_le l0). lia.
  - intros E. transfer. split; [apply rc_wf|]. pose proof (rc_mu_le l2).
    match goal with E0 : l_eof l0 = false |- _ => pose proof (rc_mu_lt l0 E0) end. lia.
Qed.

Lemma skip_underscores_total : forall fuel (l : glex), wf l -> mu l < fuel ->
  exists l', skip_underscores o fuel l = Some l' /\ le_st l l'.
Proof.
  intros fuel l W Hm. unfold skip_underscores.
  destruct (loop_total mu wf (fun l0 : glex =>
      if (l_ch l0 =? 95)%N
      then let '(pk, l1) := peek_char o l0 in if is_digit pk then (rc l1, true) else (l1, false)
      else (l0, false))) with (fuel := fuel) (a := l) as (l' & E & W' & Hle); [|exact W|exact Hm|].
  - intros l0 W0. destruct (l_ch l0 =? 95)%N eqn:C.
    + assert (E0 : l_eof l0 = false).
      { apply ch_not_eof; [exact W0|]. apply N.eqb_eq in C. rewrite C. discriminate. }
      split_ifs; leaf.
    + leaf.
  - exists l'. split; [exact E|]. split; assumption.
Qed.

(* ---- number pieces ---- *)

Definition st_res (st : glex * sb) (r : option (glex * sb)) : Prop :=
  exists st', r = Some st' /\ le_st (fst st) (fst st').

Lemma digits_us_total : forall fuel (st : glex * sb), wf (fst st) -> mu (fst st) < fuel ->
  st_res st (digits_us o fuel st).
Proof.
  intros fuel st W Hm. unfold st_res, digits_us.
  match goal with |- context [loopo fuel ?body st] =>
    destruct (loopo_total m2 P2 body fuel) with (fuel := fuel) (a := st) as (st' & E & W' & Hle); [|exact W|exact Hm|exact Hm|]
  end.
  - intros [l b] Wl HF. unfold m2, P2 in *. cbn [fst] in *.
    destruct (is_digit (l_ch l)) eqn:C.
    + pose proof (cond_not_eof is_digit l LexerTotal.is_digit_class0 Wl C) as E0.
      destruct (skip_underscores_total fuel (rc l) (rc_wf l)) as (l' & E' & W' & Hle').
      { pose proof (rc_mu_le l). lia. }
      rewrite E'. eexists; eexists; split; [reflexivity|]. cbn [fst].
      pose proof (rc_mu_lt l E0). repeat split; [exact W'|lia|intros _; lia].
    + eexists; eexists; split; [reflexivity|]. cbn [fst]. repeat split; [exact Wl|lia|discriminate].
  - exists st'. split; [exact E|]. split; assumption.
Qed.

Lemma st_res_refl : forall st, wf (fst st) -> st_res st (Some st).
Proof. intros st W. exists st. split; [reflexivity|apply le_refl; exact W]. Qed.

Lemma st_res_le : forall st st1, le_st (fst st) (fst st1) -> st_res st (Some st1).
Proof. intros st st1 H. exists st1. split; [reflexivity|exact H]. Qed.

Lemma st_res_via : forall st st1 r, le_st (fst st) (fst st1) -> st_res st1 r -> st_res st r.
Proof.
  intros st st1 r H (st' & E & H'). exists st'. split; [exact E|]. eapply le_trans; eassumption.
Qed.

Lemma fraction_part_total : forall fuel (st : glex * sb), wf (fst st) -> mu (fst st) < fuel ->
  st_res st (fraction_part o fuel st).
Proof.
  intros fuel [l b] W Hm. cbn [fst] in *. unfold fraction_part.
  destruct (l_ch l =? 46)%N; [|apply st_res_refl; exact W].
  peek_norm. transfer. destruct (is_digit pk || _).
  - apply st_res_via with (st1 := (rc l1, wr (l_ch l1) b)); [cbn [fst]; leaf|].
    apply digits_us_total; cbn [fst]; leaf.
  - apply st_res_le. cbn [fst]. leaf.
Qed.

Lemma exponent_part_total : forall fuel (st : glex * sb), wf (fst st) -> mu (fst st) < fuel ->
  st_res st (exponent_part o fuel st).
Proof.
  intros fuel [l b] W Hm. cbn [fst] in *. unfold exponent_part.
  destruct ((l_ch l =? 101)%N || (l_ch l =? 69)%N); [|apply st_res_refl; exact W].
  destruct ((l_ch (rc l) =? 43)%N || (l_ch (rc l) =? 45)%N).
  - apply st_res_via with (st1 := (rc (rc l), wr (l_ch (rc l)) (wr (l_ch l) b))); [cbn [fst]; leaf|].
    apply digits_us_total; cbn [fst]; leaf.
  - apply st_res_via with (st1 := (rc l, wr (l_ch l) b)); [cbn [fst]; leaf|].
    apply digits_us_total; cbn [fst]; leaf.
Qed.

Lemma take_while_res : forall cond, class0 cond -> forall fuel (st : glex * sb),
  wf (fst st) -> mu (fst st) < fuel -> st_res st (take_while o fuel cond st).
Proof. intros. apply take_while_total; assumption. Qed.

Lemma bind_res : forall st r (f : glex * sb -> option (glex * sb)) fuel,
  mu (fst st) < fuel ->
  st_res st r ->
  (forall st1, wf (fst st1) -> mu (fst st1) < fuel -> st_res st1 (f st1)) ->
  st_res st (bind r f).
Proof.
  intros st r f fuel Hm (st1 & E & [W1 H1]) Hf. subst r. cbn [bind].
  eapply st_res_via; [split; [exact W1|exact H1]|]. apply Hf; [exact W1|lia].
Qed.

Lemma hex_tail_total : forall fuel (st : glex * sb), wf (fst st) -> mu (fst st) < fuel ->
  st_res st (hex_tail o fuel st).
Proof.
  intros fuel st W Hm. unfold hex_tail.
  eapply bind_res; [exact Hm|apply take_while_res; [exact LexerTotal.hex_us_class0|exact W|exact Hm]|].
  intros [l b] W1 Hm1. cbn [fst] in *.
  eapply bind_res with (fuel := fuel); [exact Hm1| |].
  - destruct (l_ch l =? 46)%N; [|apply st_res_refl; exact W1].
    apply st_res_via with (st1 := (rc l, wr (l_ch l) b)); [cbn [fst]; apply le_rc|].
    apply take_while_res; [exact LexerTotal.is_hex_digit_class0|cbn [fst]; apply rc_wf|cbn [fst]; pose proof (rc_mu_le l); lia].
  - intros [l2 b2] W2 Hm2. cbn [fst] in *.
    destruct ((l_ch l2 =? 112)%N || (l_ch l2 =? 80)%N); [|apply st_res_refl; exact W2].
    destruct ((l_ch (rc l2) =? 43)%N || (l_ch (rc l2) =? 45)%N).
    + apply st_res_via with (st1 := (rc (rc l2), wr (l_ch (rc l2)) (wr (l_ch l2) b2))); [cbn [fst]; leaf|].
      apply take_while_res; [exact LexerTotal.is_digit_class0|cbn [fst]; leaf|cbn [fst]; leaf].
    + apply st_res_via with (st1 := (rc l2, wr (l_ch l2) b2)); [cbn [fst]; leaf|].
      apply take_while_res; [exact LexerTotal.is_digit_class0|cbn [fst]; leaf|cbn [fst]; leaf].
Qed.

Lemma us_digit_groups_total : forall fuel (st : glex * sb), wf (fst st) -> mu (fst st) < fuel ->
  st_res st (us_digit_groups o fuel st).
Proof.
  intros fuel st W Hm. unfold st_res, us_digit_groups.
  match goal with |- context [loopo fuel ?body st] =>
    destruct (loopo_total m2 P2 body fuel) with (fuel := fuel) (a := st) as (st' & E & W' & Hle); [|exact W|exact Hm|exact Hm|]
  end.
  - intros [l b] Wl HF. unfold m2, P2 in *. cbn [fst] in *.
    destruct (l_ch l =? 95)%N eqn:C.
    + assert (E0 : l_eof l = false).
      { apply ch_not_eof; [exact Wl|]. apply N.eqb_eq in C. rewrite C. discriminate. }
      peek_norm. transfer. destruct (is_digit pk).
      * destruct (take_while_total is_digit LexerTotal.is_digit_class0 fuel (rc l1, b)) as (st1 & E1 & W1 & H1).
        { cbn [fst]; apply rc_wf. } { cbn [fst]. pose proof (rc_mu_le l1). lia. }
        rewrite E1. eexists; eexists; split; [reflexivity|]. cbn [fst] in *.
        match goal with E1' : l_eof l1 = false |- _ => pose proof (rc_mu_lt l1 E1') end.
        repeat split; [exact W1|lia|intros _; lia].
      * eexists; eexists; split; [reflexivity|]. cbn [fst]. repeat split; [assumption|lia|discriminate].
    + eexists; eexists; split; [reflexivity|]. cbn [fst]. repeat split; [exact Wl|lia|discriminate].
  - exists st'. split; [exact E|]. split; assumption.
Qed.

(* ---- scanners ---- *)

Definition tok_lt (l : glex) (r : option (item * glex)) : Prop :=
  exists it l', r = Some (it, l') /\ it_tok it <> T_EOF /\ lt_st l l'.
Definition tok_le (l : glex) (r : option (item * glex)) : Prop :=
  exists it l', r = Some (it, l') /\ it_tok it <> T_EOF /\ le_st l l'.

Ltac finish_tok :=
  eexists; eexists; split; [reflexivity|]; split; [vm_compute; discriminate|].

Lemma read_line_comment_ok : forall fuel (l : glex), wf l -> l_eof l = false -> mu l < fuel ->
  tok_lt l (read_line_comment o fuel l).
Proof.
  intros fuel l W E Hm. unfold read_line_comment.
  destruct (to_eol_total false fuel (rc (rc l), wr (l_ch (rc l)) (wr (l_ch l) []))) as ([l' b'] & E' & W' & H'); cbn [fst] in *; [leaf|leaf|].
  rewrite E'. cbn [bind]. finish_tok. leaf.
Qed.

Lemma read_hash_comment_ok : forall fuel (l : glex), wf l -> l_eof l = false -> mu l < fuel ->
  tok_lt l (read_hash_comment o fuel l).
Proof.
  intros fuel l W E Hm. unfold read_hash_comment.
  destruct (to_eol_total false fuel (rc l, wr (l_ch l) [])) as ([l' b'] & E' & W' & H'); cbn [fst] in *; [leaf|leaf|].
  rewrite E'. cbn [bind]. finish_tok. leaf.
Qed.

Lemma read_unicode_minus_comment_ok : forall fuel (l : glex), wf l -> l_eof l = false -> mu l < fuel ->
  tok_lt l (read_unicode_minus_comment o fuel l).
Proof.
  intros fuel l W E Hm. unfold read_unicode_minus_comment.
  destruct (to_eol_total true fuel (rc l, wr (l_ch l) [])) as ([l' b'] & E' & W' & H'); cbn [fst] in *; [leaf|leaf|].
  rewrite E'. cbn [bind]. finish_tok. leaf.
Qed.

Lemma read_block_comment_ok : forall fuel (l : glex), wf l -> l_eof l = false -> mu l < fuel ->
  tok_lt l (read_block_comment o fuel l).
Proof.
  intros fuel l W E Hm. unfold read_block_comment.
  destruct (loop_total m3 P3 (block_body o) block_body_ok fuel
              (rc (rc l), wr (l_ch (rc l)) (wr (l_ch l) []), 1)) as ([[l' b'] n'] & E' & W' & H');
    unfold m3, P3 in *; cbn [fst] in *; [leaf|leaf|].
  rewrite E'. cbn [bind]. finish_tok. leaf.
Qed.

(* scanners of the shape  pos := l.pos; l.readChar(); loop body; item *)
Lemma quoted_scanner : forall (body : glex * sb -> glex * sb * bool) fuel (l : glex) (k : glex * sb -> option (item * glex)),
  body_ok m2 P2 body -> wf l -> l_eof l = false -> mu l < fuel ->
  (forall l' b', le_st (rc l) l' -> tok_le l' (k (l', b'))) ->
  tok_lt l (bind (loop fuel body (rc l, [])) k).
Proof.
  intros body fuel l k Hb W E Hm Hk.
  destruct (loop2_total body Hb fuel (rc l, [])) as ([l' b'] & E' & H'); cbn [fst] in *; [leaf|leaf|].
  rewrite E'. cbn [bind].
  destruct (Hk l' b' H') as (it & l2 & Ek & Ht & H2). exists it, l2. split; [exact Ek|]. split; [exact Ht|].
  destruct H' as [W' H']. destruct H2 as [W2 H2]. split; [exact W2|]. pose proof (rc_mu_lt l E). lia.
Qed.

Ltac simple_k :=
  intros l' b' [W' H']; finish_tok; leaf.

Lemma read_string_ok : forall fuel (l : glex), wf l -> l_eof l = false -> mu l < fuel ->
  tok_lt l (read_string o fuel l).
Proof.
  intros fuel l W E Hm. unfold read_string.
  apply quoted_scanner; [apply quoted_body_ok|exact W|exact E|exact Hm|]. simple_k.
Qed.

Lemma read_backtick_identifier_ok : forall fuel (l : glex), wf l -> l_eof l = false -> mu l < fuel ->
  tok_lt l (read_backtick_identifier o fuel l).
Proof.
  intros fuel l W E Hm. unfold read_backtick_identifier.
  apply quoted_scanner; [apply quoted_body_ok|exact W|exact E|exact Hm|]. simple_k.
Qed.

Lemma read_hex_string_ok : forall fuel (l : glex), wf l -> l_eof l = false -> mu l < fuel ->
  tok_lt l (read_hex_string o fuel l).
Proof.
  intros fuel l W E Hm. unfold read_hex_string.
  apply quoted_scanner; [apply hex_string_body_ok|exact W|exact E|exact Hm|]. simple_k.
Qed.

Lemma read_binary_string_ok : forall fuel (l : glex), wf l -> l_eof l = false -> mu l < fuel ->
  tok_lt l (read_binary_string o fuel l).
Proof.
  intros fuel l W E Hm. unfold read_binary_string.
  destruct (loop_total m2 P2 (bin_string_body o) bin_string_body_ok fuel (rc l, []))
    as ([l' b'] & E' & W' & H'); unfold m2, P2 in *; cbn [fst] in *; [leaf|leaf|].
  rewrite E'. cbn [bind]. finish_tok. leaf.
Qed.

Lemma read_quoted_identifier_ok : forall fuel (l : glex), wf l -> l_eof l = false -> mu l < fuel ->
  tok_lt l (read_quoted_identifier o fuel l).
Proof.
  intros fuel l W E Hm. unfold read_quoted_identifier.
  apply quoted_scanner; [apply dquoted_body_ok|exact W|exact E|exact Hm|]. simple_k.
Qed.

Ltac until_close_scanner close :=
  match goal with
  | W : wf ?l, E : l_eof ?l = false, Hm : mu ?l < ?fuel |- _ =>
    destruct (until_close_total close fuel (rc l, [])) as ([l' b'] & E' & W' & H'); cbn [fst] in *; [leaf|leaf|];
    rewrite E'; cbn [bind]; finish_tok; destruct (l_ch l' =? close)%N; leaf
  end.

Lemma read_unicode_string_ok : forall fuel (l : glex), wf l -> l_eof l = false -> mu l < fuel ->
  tok_lt l (read_unicode_string o fuel l).
Proof. intros fuel l W E Hm. unfold read_unicode_string. until_close_scanner 8217%N. Qed.

Lemma read_unicode_quoted_identifier_ok : forall fuel (l : glex), wf l -> l_eof l = false -> mu l < fuel ->
  tok_lt l (read_unicode_quoted_identifier o fuel l).
Proof. intros fuel l W E Hm. unfold read_unicode_quoted_identifier. until_close_scanner 8221%N. Qed.

Lemma read_parameter_ok : forall fuel (l : glex), wf l -> l_eof l = false -> mu l < fuel ->
  tok_lt l (read_parameter o fuel l).
Proof. intros fuel l W E Hm. unfold read_parameter. until_close_scanner 125%N. Qed.

Lemma read_dollar_quoted_string_le : forall fuel tag (l : glex), wf l -> mu l < fuel ->
  tok_le l (read_dollar_quoted_string o fuel tag l).
Proof.
  intros fuel tag l W Hm. unfold read_dollar_quoted_string.
  set (l0 := match tag with [] => rc (rc l) | _ => l end).
  assert (H0 : le_st l l0) by (unfold l0; destruct tag; leaf).
  destruct H0 as [W0 H0].
  destruct (loop2_total (dollar_body o (36%N :: tag ++ [36%N])) (dollar_body_ok _) fuel (l0, []))
    as ([l' b'] & E' & W' & H'); cbn [fst] in *; [exact W0|lia|].
  rewrite E'. cbn [bind]. finish_tok. leaf.
Qed.

Lemma read_dollar_quoted_string_empty_lt : forall fuel (l : glex), wf l -> l_eof l = false -> mu l < fuel ->
  tok_lt l (read_dollar_quoted_string o fuel [] l).
Proof.
  intros fuel l W E Hm. unfold read_dollar_quoted_string.
  destruct (loop2_total (dollar_body o (36%N :: [] ++ [36%N])) (dollar_body_ok _) fuel (rc (rc l), []))
    as ([l' b'] & E' & W' & H'); cbn [fst] in *; [leaf|leaf|].
  rewrite E'. cbn [bind]. finish_tok. leaf.
Qed.

Lemma read_dollar_identifier_ok : forall fuel (l : glex), wf l -> l_eof l = false -> mu l < fuel ->
  tok_lt l (read_dollar_identifier o fuel l).
Proof.
  intros fuel l W E Hm. unfold read_dollar_identifier.
  destruct (take_while_total _ LexerTotal.ident_dollar_class0 fuel (rc l, wr (l_ch l) [])) as ([l' b'] & E' & W' & H'); cbn [fst] in *; [leaf|leaf|].
  rewrite E'. cbn [bind]. finish_tok. leaf.
Qed.

(* ---- numbers and identifiers ---- *)

Lemma item_of_res : forall (mk : glex * sb -> option (item * glex)) (st0 : glex * sb) r,
  st_res st0 r ->
  (forall st, exists it, mk st = Some (it, fst st) /\ it_tok it <> T_EOF) ->
  tok_le (fst st0) (bind r mk).
Proof.
  intros mk st0 r (st & E & H) Hmk. subst r. cbn [bind].
  destruct (Hmk st) as (it & E1 & Ht). exists it, (fst st). auto.
Qed.

Lemma num_item_shape : forall pos (st : glex * sb), exists it, num_item pos st = Some (it, fst st) /\ it_tok it <> T_EOF.
Proof. intros pos [l b]. eexists; split; [reflexivity|]. vm_compute; discriminate. Qed.
Lemma ident_item_shape : forall pos (st : glex * sb), exists it, ident_item pos st = Some (it, fst st) /\ it_tok it <> T_EOF.
Proof. intros pos [l b]. eexists; split; [reflexivity|]. vm_compute; discriminate. Qed.

Lemma tok_le_via : forall (l l1 : glex) r, le_st l l1 -> tok_le l1 r -> tok_le l r.
Proof.
  intros l l1 r H (it & l' & E & Ht & H'). exists it, l'. split; [exact E|]. split; [exact Ht|].
  eapply le_trans; eassumption.
Qed.
Lemma tok_lt_via : forall (l l1 : glex) r, lt_st l l1 -> tok_le l1 r -> tok_lt l r.
Proof.
  intros l l1 r H (it & l' & E & Ht & H'). exists it, l'. split; [exact E|]. split; [exact Ht|].
  eapply lt_le_trans; eassumption.
Qed.
Lemma tok_lt_via_le : forall (l l1 : glex) r, le_st l l1 -> tok_lt l1 r -> tok_lt l r.
Proof.
  intros l l1 r H (it & l' & E & Ht & H'). exists it, l'. split; [exact E|]. split; [exact Ht|].
  eapply le_lt_trans; eassumption.
Qed.
Lemma tok_lt_le : forall (l : glex) r, tok_lt l r -> tok_le l r.
Proof.
  intros l r (it & l' & E & Ht & H'). exists it, l'. split; [exact E|]. split; [exact Ht|apply lt_le; exact H'].
Qed.

(* a chain  bind r1 (fun st => bind (f2 st) ... mk)  of total pieces *)
Lemma bind_tok : forall fuel (st0 : glex * sb) r (k : glex * sb -> option (item * glex)),
  mu (fst st0) < fuel ->
  st_res st0 r ->
  (forall st, wf (fst st) -> mu (fst st) < fuel -> tok_le (fst st) (k st)) ->
  tok_le (fst st0) (bind r k).
Proof.
  intros fuel st0 r k Hm (st & E & [W H]) Hk. subst r. cbn [bind].
  eapply tok_le_via; [split; [exact W|exact H]|]. apply Hk; [exact W|lia].
Qed.

Ltac use_item shape :=
  match goal with
  | |- tok_le ?l (bind ?r ?k) =>
      match r with
      | context [(l, ?b)] => apply (item_of_res k (l, b)); [|apply shape]
      end
  end.

Lemma number_general_ok : forall fuel pos (st : glex * sb), wf (fst st) -> mu (fst st) < fuel ->
  tok_le (fst st) (number_general o fuel pos st).
Proof.
  intros fuel pos st W Hm. unfold number_general.
  eapply bind_tok; [exact Hm|apply digits_us_total; assumption|].
  intros st1 W1 Hm1. eapply bind_tok; [exact Hm1|apply fraction_part_total; assumption|].
  intros st2 W2 Hm2. apply item_of_res; [apply exponent_part_total; assumption|apply num_item_shape].
Qed.

Lemma read_number_ok : forall fuel (l : glex), wf l -> l_eof l = false -> l_ch l = 46%N -> mu l < fuel ->
  tok_lt l (read_number o fuel l).
Proof.
  intros fuel l W E C Hm. unfold read_number. rewrite C. cbn [N.eqb Pos.eqb fst snd].
  apply tok_lt_via with (l1 := rc l); [apply lt_rc; exact E|].
  pose proof (rc_wf l) as W1. pose proof (rc_mu_le l) as H1.
  set (l1 := rc l) in *.
  destruct (l_ch l1 =? 48)%N.
  - pose proof (rc_wf l1) as W2. pose proof (rc_mu_le l1) as H2.
    apply tok_le_via with (l1 := rc l1); [apply le_rc|].
    set (l2 := rc l1) in *.
    pose proof (rc_wf l2) as W3. pose proof (rc_mu_le l2) as H3.
    destruct ((l_ch l2 =? 120)%N || (l_ch l2 =? 88)%N).
    { apply tok_le_via with (l1 := rc l2); [apply le_rc|].
      use_item num_item_shape. apply hex_tail_total; cbn [fst]; [exact W3|lia]. }
    destruct ((l_ch l2 =? 98)%N || (l_ch l2 =? 66)%N).
    { apply tok_le_via with (l1 := rc l2); [apply le_rc|].
      use_item num_item_shape. apply take_while_res; [exact LexerTotal.is_bin_char_class0|exact W3|cbn [fst]; lia]. }
    destruct ((l_ch l2 =? 111)%N || (l_ch l2 =? 79)%N).
    { apply tok_le_via with (l1 := rc l2); [apply le_rc|].
      use_item num_item_shape. apply take_while_res; [exact LexerTotal.is_oct_char_class0|exact W3|cbn [fst]; lia]. }
    match goal with |- tok_le l2 (number_general _ _ ?p (l2, ?b)) => apply (number_general_ok fuel p (l2, b)) end; cbn [fst]; [exact W2|lia].
  - match goal with |- tok_le l1 (number_general _ _ ?p (l1, ?b)) => apply (number_general_ok fuel p (l1, b)) end; cbn [fst]; [exact W1|lia].
Qed.

Lemma number_rest_ok : forall fuel pos sc (st : glex * sb), wf (fst st) -> mu (fst st) < fuel ->
  tok_le (fst st) (number_rest o fuel pos sc st).
Proof.
  intros fuel pos sc st W Hm. unfold number_rest.
  eapply bind_tok; [exact Hm|apply us_digit_groups_total; assumption|].
  intros st1 W1 Hm1. eapply bind_tok; [exact Hm1|apply fraction_part_total; assumption|].
  intros st2 W2 Hm2. eapply bind_tok; [exact Hm2|apply exponent_part_total; assumption|].
  intros [l b] W3 Hm3. cbn [fst snd] in *.
  pose proof (peek_char_pk l) as Hp.
  eapply (bind_tok fuel (l, b)); [exact Hm3| |].
  - destruct (bytes_eqb (sb_str b) [48%N] && ((l_ch l =? 120)%N || (l_ch l =? 88)%N)).
    { apply st_res_via with (st1 := (rc l, wr (l_ch l) b)); [cbn [fst]; apply le_rc|].
      apply hex_tail_total; cbn [fst]; [apply rc_wf|pose proof (rc_mu_le l); lia]. }
    destruct (bytes_eqb (sb_str b) [48%N] && ((l_ch l =? 98)%N || (l_ch l =? 66)%N)); [|apply st_res_refl; exact W3].
    set (l1 := snd (peek_char o l)) in *. clearbody l1. use_pk Hp. transfer.
    destruct ((fst (peek_char o l) =? 48)%N || (fst (peek_char o l) =? 49)%N); [|apply st_res_le; cbn [fst]; leaf].
    apply st_res_via with (st1 := (rc l1, wr (l_ch l1) b)); [cbn [fst]; leaf|].
    apply take_while_res; [exact LexerTotal.is_bin_char_class0|cbn [fst]; apply rc_wf|cbn [fst]; leaf].
  - intros [l4 b4] W4 Hm4. cbn [fst snd] in *.
    match goal with |- tok_le l4 (bind ?r ?k) => apply (item_of_res k (l4, b4) r); [|apply num_item_shape] end.
    destruct ((sc =? 48)%N && Nat.eqb (length b4) 1 && ((l_ch l4 =? 111)%N || (l_ch l4 =? 79)%N)); [|apply st_res_refl; exact W4].
    apply st_res_via with (st1 := (rc l4, wr (l_ch l4) b4)); [cbn [fst]; apply le_rc|].
    apply take_while_res; [exact LexerTotal.is_oct_char_class0|cbn [fst]; apply rc_wf|cbn [fst]; pose proof (rc_mu_le l4); lia].
Qed.

Lemma take_while_first : forall cond fuel (l : glex) b, class0 cond -> wf l -> cond (l_ch l) = true -> mu l < fuel ->
  exists st', take_while o fuel cond (l, b) = Some st' /\ lt_st l (fst st').
Proof.
  intros cond fuel l b C0 W C Hm. pose proof (cond_not_eof cond l C0 W C) as E.
  destruct fuel as [|f]; [lia|]. unfold take_while. cbn [loop]. rewrite C.
  destruct (take_while_total cond C0 f (rc l, wr (l_ch l) b)) as (st' & E' & H'); cbn [fst]; [apply rc_wf|pose proof (rc_mu_lt l E); lia|].
  unfold take_while in E'. rewrite E'. exists st'. split; [reflexivity|].
  eapply lt_le_trans; [apply lt_rc; exact E|exact H'].
Qed.

Lemma read_number_or_ident_ok : forall fuel (l : glex), wf l -> is_digit (l_ch l) = true -> mu l < fuel ->
  tok_lt l (read_number_or_ident o fuel l).
Proof.
  intros fuel l W C Hm. unfold read_number_or_ident.
  destruct (take_while_first is_digit fuel l [] LexerTotal.is_digit_class0 W C Hm) as ([l1 b1] & E1 & Hlt).
  unfold sb in *. rewrite E1. cbn [bind fst snd] in *.
  apply tok_lt_via with (l1 := l1); [exact Hlt|].
  destruct Hlt as [W1 Hlt]. assert (Hm1 : mu l1 < fuel) by lia.
  (* the lexer after the first optional peek *)
  set (l2 := if (l_ch l1 =? 95)%N then snd (peek_char o l1) else l1).
  assert (P12 : peeked l1 l2).
  { unfold l2. destruct (l_ch l1 =? 95)%N; [apply peek_char_pk|apply peeked_refl]. }
  clearbody l2.
  pose proof (peeked_le _ _ W1 P12) as L12. apply tok_le_via with (l1 := l2); [exact L12|].
  destruct L12 as [W2 H2]. assert (Hm2 : mu l2 < fuel) by lia.
  destruct ((l_ch l1 =? 95)%N && _).
  - apply tok_le_via with (l1 := rc l2); [apply le_rc|].
    use_item ident_item_shape.
    apply take_while_res; [exact LexerTotal.is_ident_char_class0|cbn [fst]; apply rc_wf|cbn [fst]; pose proof (rc_mu_le l2); lia].
  - (* ... and after the second one *)
    set (l3 := if is_letter (l_ch l2) && ((l_ch l2 =? 101)%N || (l_ch l2 =? 69)%N) then snd (peek_char o l2) else l2).
    assert (P23 : peeked l2 l3).
    { unfold l3. destruct (is_letter (l_ch l2) && _); [apply peek_char_pk|apply peeked_refl]. }
    clearbody l3.
    pose proof (peeked_le _ _ W2 P23) as L23. apply tok_le_via with (l1 := l3); [exact L23|].
    destruct L23 as [W3 H3]. assert (Hm3 : mu l3 < fuel) by lia.
    destruct (is_letter (l_ch l2) && _ && _).
    + use_item ident_item_shape.
      apply take_while_res; [exact LexerTotal.is_ident_char_class0|exact W3|exact Hm3].
    + match goal with |- tok_le l3 (number_rest _ _ ?p ?sc _) => apply (number_rest_ok fuel p sc (l3, b1)) end; [exact W3|exact Hm3].
Qed.

Lemma take_ident_runes_total : forall fuel (st : glex * list N), wf (fst st) -> mu (fst st) < fuel ->
  exists st', take_ident_runes o fuel st = Some st' /\ le_st (fst st) (fst st').
Proof.
  intros fuel st W Hm. unfold take_ident_runes. apply loop2_total; [|exact W|exact Hm].
  intros [l b] Wl. cbn beta iota zeta. destruct (is_ident_char (l_ch l)) eqn:C.
  - pose proof (cond_not_eof is_ident_char l LexerTotal.is_ident_char_class0 Wl C). leaf.
  - leaf.
Qed.

Lemma read_identifier_ok : forall fuel (l : glex), wf l -> is_ident_start (l_ch l) = true -> mu l < fuel ->
  tok_lt l (read_identifier o fuel l).
Proof.
  intros fuel l W C Hm.
  assert (E : l_eof l = false).
  { apply (cond_not_eof is_ident_start l); [vm_compute; reflexivity|exact W|exact C]. }
  assert (Cic : is_ident_char (l_ch l) = true).
  { unfold is_ident_start in C. unfold is_ident_char. apply orb_prop in C. destruct C as [C|C]; rewrite C; cbn; [reflexivity|].
    rewrite ?orb_true_r. reflexivity. }
  unfold read_identifier.
  set (cnd := ((l_ch l =? 120)%N || (l_ch l =? 88)%N || (l_ch l =? 98)%N || (l_ch l =? 66)%N)).
  assert (Hl : peeked l (snd (if cnd then peek_char o l else (0%N, l)))).
  { destruct cnd; [apply peek_char_pk|apply peeked_refl]. }
  destruct (if cnd then peek_char o l else (0%N, l)) as [pk l0] eqn:EX. cbn [snd] in Hl.
  apply tok_lt_via_le with (l1 := l0); [apply peeked_le; assumption|].
  use_pk Hl. transfer. rewrite <- Hch in Cic. clear EX cnd.
  assert (E0 : l_eof l0 = false) by assumption. assert (W0 : wf l0) by assumption.
  assert (Hm0 : mu l0 < fuel) by lia.
  rewrite <- Hch. clear Hch Heof Hsm Hmu C E W Hm.
  destruct (((l_ch l0 =? 120)%N || (l_ch l0 =? 88)%N) && (pk =? 39)%N).
  { apply tok_lt_via with (l1 := rc l0); [apply lt_rc; exact E0|].
    destruct (l_eof (rc l0)) eqn:E1.
    - (* at end of input right after x: readHexString's loop does not run *)
      unfold read_hex_string. destruct fuel as [|f]; [lia|]. cbn [loop]. unfold hex_string_body.
      rewrite (rc_eof_stays (rc l0) E1). cbn [bind]. finish_tok. leaf.
    - pose proof (read_hex_string_ok fuel (rc l0) (rc_wf l0) E1) as (it & l' & E' & Ht & H'); [pose proof (rc_mu_le l0); lia|].
      exists it, l'. split; [exact E'|]. split; [exact Ht|apply lt_le; exact H']. }
  destruct (((l_ch l0 =? 98)%N || (l_ch l0 =? 66)%N) && (pk =? 39)%N).
  { apply tok_lt_via with (l1 := rc l0); [apply lt_rc; exact E0|].
    destruct (l_eof (rc l0)) eqn:E1.
    - unfold read_binary_string. destruct fuel as [|f]; [lia|]. cbn [loop]. unfold bin_string_body.
      rewrite (rc_eof_stays (rc l0) E1). cbn [bind]. finish_tok. leaf.
    - pose proof (read_binary_string_ok fuel (rc l0) (rc_wf l0) E1) as (it & l' & E' & Ht & H'); [pose proof (rc_mu_le l0); lia|].
      exists it, l'. split; [exact E'|]. split; [exact Ht|apply lt_le; exact H']. }
  (* the identifier loop consumes at least the first character *)
  destruct fuel as [|f]; [lia|]. unfold take_ident_runes. cbn [loop]. rewrite Cic.
  destruct (take_ident_runes_total f (rc l0, [l_ch l0])) as ([l' rs] & E' & H'); cbn [fst]; [apply rc_wf|pose proof (rc_mu_lt l0 E0); lia|].
  unfold take_ident_runes in E'. rewrite E'. cbn [bind].
  eexists; eexists; split; [reflexivity|]. split; [cbn [it_tok mk_item]; apply LexerTotal.lookup_not_eof|].
  eapply lt_le_trans; [apply lt_rc; exact E0|exact H'].
Qed.

Lemma read_dollar_identifier_le : forall fuel (l : glex), wf l -> mu l < fuel ->
  tok_le l (read_dollar_identifier o fuel l).
Proof.
  intros fuel l W Hm. unfold read_dollar_identifier.
  destruct (take_while_total _ LexerTotal.ident_dollar_class0 fuel (rc l, wr (l_ch l) [])) as ([l' b'] & E' & W' & H'); cbn [fst] in *; [leaf|leaf|].
  rewrite E'. cbn [bind]. finish_tok. leaf.
Qed.

(* ---- NextToken ---- *)

Definition at_end (l : glex) : Prop := l_eof l = true \/ l_ch l = 0%N.

Definition eof_item (l : glex) : item := mk_item T_EOF [] (l_pos l) false.

Lemma skip_whitespace_at_end : forall fuel (l : glex), wf l -> at_end l -> 0 < fuel ->
  skip_whitespace o fuel l = Some l.
Proof.
  intros fuel l W A Hf. destruct fuel as [|f]; [lia|]. unfold skip_whitespace, skip_while. cbn [loop].
  assert (Hz : l_ch l = 0%N) by (destruct A as [A|A]; [apply W; exact A|exact A]).
  rewrite Hz. rewrite LexerTotal.is_ws_class0. reflexivity.
Qed.

(* at end of input (or at a NUL) NextToken returns EOF and does not touch the stream *)
Lemma next_token_at_end : forall fuel (l : glex), wf l -> at_end l -> 0 < fuel ->
  next_token o fuel l = Some (eof_item l, l).
Proof.
  intros fuel l W A Hf. unfold next_token. rewrite (skip_whitespace_at_end fuel l W A Hf). cbn [bind].
  assert (Hc : l_eof l || (l_ch l =? 0)%N = true).
  { destruct A as [A|A]; [rewrite A; reflexivity|rewrite A; apply orb_true_r]. }
  rewrite Hc. reflexivity.
Qed.

Ltac tok_simple :=
  repeat match goal with
         | |- tok_lt _ (if ?c then _ else _) => destruct c
         end;
  unfold simple; finish_tok; leaf.

Ltac dispatch tac :=
  match goal with
  | |- tok_lt _ (if ?c then _ else _) => let C := fresh "C" in destruct c eqn:C; [tac|]
  end.

Lemma next_token_not_end : forall fuel (l : glex), wf l -> l_eof l = false -> l_ch l <> 0%N ->
  is_ws (l_ch l) = false -> mu l < fuel ->
  tok_lt l (next_token o fuel l).
Proof.
  intros fuel l W E Hnz Hws Hm. unfold next_token.
  assert (Hsk : skip_whitespace o fuel l = Some l).
  { destruct fuel as [|f]; [lia|]. unfold skip_whitespace, skip_while. cbn [loop]. rewrite Hws. reflexivity. }
  rewrite Hsk. cbn [bind]. rewrite E. cbn [orb].
  destruct (l_ch l =? 0)%N eqn:Cz; [apply N.eqb_eq in Cz; contradiction|].
  match goal with |- context [if ?c then peek_char o l else (0%N, l)] => set (np := c) end.
  assert (Hl : peeked l (snd (if np then peek_char o l else (0%N, l)))).
  { destruct np; [apply peek_char_pk|apply peeked_refl]. }
  destruct (if np then peek_char o l else (0%N, l)) as [pk l0] eqn:EX. cbn [snd] in Hl.
  apply tok_lt_via_le with (l1 := l0); [apply peeked_le; assumption|].
  use_pk Hl. transfer. clear EX np.
  assert (E0 : l_eof l0 = false) by assumption. assert (W0 : wf l0) by assumption.
  assert (Hm0 : mu l0 < fuel) by lia.
  rewrite <- Hch in Hnz, Hws, Cz |- *. clear Hch Heof Hsm Hmu E W Hm Hsk.
  generalize (l_pos l). intros pos0. clear l.
  rename l0 into l, E0 into E, W0 into W, Hm0 into Hm.
  dispatch ltac:(apply read_line_comment_ok; assumption).
  dispatch ltac:(apply read_hash_comment_ok; assumption).
  dispatch ltac:(apply read_block_comment_ok; assumption).
  dispatch ltac:(apply read_unicode_minus_comment_ok; assumption).
  dispatch tok_simple. (* + *)
  dispatch tok_simple. (* - *)
  dispatch tok_simple. (* * *)
  dispatch tok_simple. (* / *)
  dispatch tok_simple. (* % *)
  dispatch tok_simple. (* = *)
  dispatch tok_simple. (* ! *)
  dispatch tok_simple. (* < *)
  dispatch tok_simple. (* > *)
  dispatch tok_simple. (* | *)
  dispatch tok_simple. (* : *)
  dispatch tok_simple. (* ( *)
  dispatch tok_simple. (* ) *)
  dispatch tok_simple. (* [ *)
  dispatch tok_simple. (* ] *)
  dispatch ltac:(apply read_parameter_ok; assumption).
  dispatch tok_simple. (* } *)
  dispatch tok_simple. (* , *)
  (* . *)
  dispatch ltac:(idtac).
  { destruct (is_digit pk); [|tok_simple].
    pose proof (is_identifier_after_dot_pk l) as Hi.
    destruct (is_identifier_after_dot o l) as [idp l1] eqn:Ei. cbn [snd] in Hi. use_pk Hi. transfer.
    destruct idp; [tok_simple|].
    apply tok_lt_via_le with (l1 := l1); [leaf|].
    apply read_number_ok; try assumption; [|lia]. rewrite Hch. apply N.eqb_eq; assumption. }
  dispatch tok_simple. (* ; *)
  dispatch tok_simple. (* ? *)
  dispatch tok_simple. (* ^ *)
  (* $ *)
  dispatch ltac:(idtac).
  { destruct (pk =? 36)%N; [apply read_dollar_quoted_string_empty_lt; assumption|].
    destruct (try_read_dollar_tag_cases l W) as [[Ht Hp]|[Hle Hlt]].
    - destruct (try_read_dollar_tag o l) as [tag l2]. cbn [fst snd] in *. subst tag.
      use_pk Hp. transfer.
      apply tok_lt_via_le with (l1 := l2); [leaf|].
      apply read_dollar_identifier_ok; try assumption. lia.
    - specialize (Hlt E). destruct (try_read_dollar_tag o l) as [tag l2]. cbn [snd] in *.
      assert (Hm2 : mu l2 < fuel) by (destruct Hlt; lia).
      destruct tag as [|t0 tag].
      + eapply tok_lt_via; [exact Hlt|]. apply read_dollar_identifier_le; [apply Hlt|exact Hm2].
      + eapply tok_lt_via; [exact Hlt|]. apply read_dollar_quoted_string_le; [apply Hlt|exact Hm2]. }
  dispatch ltac:(apply read_string_ok; assumption).
  dispatch ltac:(apply read_unicode_string_ok; assumption).
  dispatch ltac:(apply read_quoted_identifier_ok; assumption).
  dispatch ltac:(apply read_unicode_quoted_identifier_ok; assumption).
  dispatch ltac:(apply read_backtick_identifier_ok; assumption).
  (* @ *)
  dispatch ltac:(idtac).
  { destruct (pk =? 64)%N; [|tok_simple].
    destruct (is_ident_start (l_ch (rc (rc l))) || is_digit (l_ch (rc (rc l)))); [|tok_simple].
    destruct (take_while_total is_ident_char LexerTotal.is_ident_char_class0 fuel (rc (rc l), [64%N; 64%N])) as ([l3 b3] & E3 & W3 & H3);
      cbn [fst] in *; [leaf|leaf|].
    rewrite E3. cbn [bind]. unfold simple. finish_tok. leaf. }
  dispatch ltac:(apply read_number_or_ident_ok; assumption).
  dispatch ltac:(apply read_identifier_ok; assumption).
  unfold simple. finish_tok. leaf.
Qed.

(* NextToken returns whenever fuel > mu l *)
Lemma next_token_ok : forall fuel (l : glex), wf l -> mu l < fuel ->
  exists it l', next_token o fuel l = Some (it, l') /\ wf l' /\
    ((it = eof_item l' /\ at_end l' /\ mu l' <= mu l) \/ (it_tok it <> T_EOF /\ mu l' < mu l)).
Proof.
  intros fuel l W Hm.
  destruct (skip_while_total is_ws LexerTotal.is_ws_class0 fuel l W Hm) as (l1 & E1 & [W1 H1] & Hws).
  assert (Hf : 0 < fuel) by lia.
  assert (Hsame : next_token o fuel l = next_token o fuel l1).
  { unfold next_token, skip_whitespace. rewrite E1. cbn [bind].
    destruct fuel as [|f]; [lia|]. unfold skip_while. cbn [loop]. rewrite Hws. reflexivity. }
  rewrite Hsame.
  destruct (l_eof l1) eqn:E.
  - exists (eof_item l1), l1. split; [apply next_token_at_end; [exact W1|left; exact E|exact Hf]|].
    split; [exact W1|]. left. split; [reflexivity|]. split; [left; exact E|exact H1].
  - destruct (N.eq_dec (l_ch l1) 0) as [Hz|Hnz].
    + exists (eof_item l1), l1. split; [apply next_token_at_end; [exact W1|right; exact Hz|exact Hf]|].
      split; [exact W1|]. left. split; [reflexivity|]. split; [right; exact Hz|exact H1].
    + destruct (next_token_not_end fuel l1 W1 E Hnz Hws) as (it & l' & E' & Ht & [W' H']); [lia|].
      exists it, l'. split; [exact E'|]. split; [exact W'|]. right. split; [exact Ht|lia].
Qed.

Lemma next_n_at_end : forall k fuel (l : glex), wf l -> at_end l -> 0 < fuel ->
  next_n o k fuel l = Some (repeat (eof_item l) k).
Proof.
  induction k as [|k IH]; intros fuel l W A Hf; cbn [next_n repeat]; [reflexivity|].
  rewrite (next_token_at_end fuel l W A Hf). cbn [bind]. rewrite (IH fuel l W A Hf). reflexivity.
Qed.

(* any number of NextToken calls return: the items and the final lexer state *)
Lemma run_lexer_total : forall k fuel (l : glex), wf l -> mu l < fuel ->
  exists items l', run_lexer o k fuel l = Some (items, l') /\ length items = k /\ wf l' /\ mu l' <= mu l.
Proof.
  induction k as [|k IH]; intros fuel l W Hm; cbn [LexerSim.run_lexer].
  - exists [], l. repeat split; [exact W|lia].
  - destruct (next_token_ok fuel l W Hm) as (it & l1 & E & W1 & Hcase). rewrite E. cbn [bind].
    assert (Hle : mu l1 <= mu l) by (destruct Hcase as [(_ & _ & H)|(_ & H)]; lia).
    destruct (IH fuel l1 W1) as (items & l' & E' & Hlen & W' & H'); [lia|].
    rewrite E'. cbn [bind]. exists (it :: items), l'. repeat split; [cbn [length]; lia|exact W'|lia].
Qed.

Lemma next_n_total : forall k fuel (l : glex), wf l -> mu l < fuel ->
  exists items, next_n o k fuel l = Some items /\ length items = k.
Proof.
  intros k fuel l W Hm. destruct (run_lexer_total k fuel l W Hm) as (items & l' & E & Hlen & _).
  exists items. split; [|exact Hlen]. rewrite <- LexerSim.run_lexer_items, E. reflexivity.
Qed.

Lemma tokenize_loop_ok : forall n fuel (l : glex), wf l -> mu l < n -> mu l < fuel ->
  exists pre e, tokenize_loop o n fuel l = Some (pre ++ [e]) /\ it_tok e = T_EOF /\
    Forall (fun i => it_tok i <> T_EOF) pre /\ length pre <= mu l /\
    forall k, next_n o (length pre + 1 + k) fuel l = Some (pre ++ e :: repeat e k).
Proof.
  induction n as [|n IH]; intros fuel l W Hn Hf; [lia|].
  cbn [tokenize_loop].
  destruct (next_token_ok fuel l W Hf) as (it & l' & E & W' & [(Hit & A & Hle)|(Ht & Hlt)]); rewrite E; cbn [bind].
  - subst it. cbn [eof_item it_tok mk_item]. rewrite N.eqb_refl.
    exists [], (eof_item l'). cbn [app length]. split; [reflexivity|]. split; [reflexivity|].
    split; [constructor|]. split; [lia|].
    intros k. cbn [Nat.add next_n]. rewrite E. cbn [bind].
    rewrite (next_n_at_end k fuel l' W' A); [reflexivity|lia].
  - destruct (it_tok it =? T_EOF)%N eqn:C; [apply N.eqb_eq in C; contradiction|].
    destruct (IH fuel l' W') as (pre & e & E' & He & Hpre & Hlen & Hst); [lia|lia|].
    rewrite E'. cbn [bind].
    exists (it :: pre), e. split; [reflexivity|]. split; [exact He|].
    split; [constructor; assumption|]. split; [cbn [length]; lia|].
    intros k. cbn [length Nat.add next_n]. rewrite E. cbn [bind]. rewrite (Hst k). reflexivity.
Qed.

(* lexer.New: one readChar *)
Lemma init_lex_ok : forall s, wf (init_lex o s) /\ mu (init_lex o s) <= smu s.
Proof.
  intros s. unfold init_lex. split; [apply rc_wf|].
  set (l0 := {| l_src := s; l_ch := 0%N; l_pos := {| p_off := 0; p_line := 1; p_col := 0 |}; l_eof := false |}).
  pose proof (rc_mu_lt l0 eq_refl) as H.
  assert (H0 : mu l0 = Datatypes.S (smu s)) by reflexivity. lia.
Qed.

(* Tokenize over the stream: total, one EOF and it is last, at most one token per unit of the
   measure plus one, EOF sticky *)
Theorem tokenize_fuel_total : forall s fuel, smu s < fuel ->
  exists pre e, tokenize_fuel o fuel s = Some (pre ++ [e]) /\ it_tok e = T_EOF /\
    Forall (fun i => it_tok i <> T_EOF) pre /\ length (pre ++ [e]) <= smu s + 1 /\
    forall k, next_n o (length (pre ++ [e]) + k) fuel (init_lex o s) = Some ((pre ++ [e]) ++ repeat e k).
Proof.
  intros s fuel Hf. unfold tokenize_fuel.
  destruct (init_lex_ok s) as [W H].
  destruct (tokenize_loop_ok fuel fuel (init_lex o s) W) as (pre & e & E & He & Hpre & Hlen & Hst); [lia|lia|].
  exists pre, e. split; [exact E|]. split; [exact He|]. split; [exact Hpre|].
  rewrite app_length. cbn [length]. split; [lia|].
  intros k. rewrite <- app_assoc. cbn [app]. apply Hst.
Qed.

(* k NextToken calls on a fresh lexer *)
Theorem run_lexer_init_total : forall s k fuel, smu s < fuel ->
  exists items l', run_lexer o k fuel (init_lex o s) = Some (items, l') /\ length items = k /\
    wf l' /\ mu l' <= smu s.
Proof.
  intros s k fuel Hf. destruct (init_lex_ok s) as [W H].
  destruct (run_lexer_total k fuel (init_lex o s) W) as (items & l' & E & Hlen & W' & H'); [lia|].
  exists items, l'. repeat split; [exact E|exact Hlen|exact W'|lia].
Qed.

End Gen.

(* ---------- sanity: the pure stream is an instance ---------- *)

Lemma pure_peek_le : forall n (s : list N), length (snd (s_peek pure_stream n s)) <= length s.
Proof. intros n s. cbn. lia. Qed.

Lemma pure_read_lt : forall (s : list N) r,
  fst (s_read_rune pure_stream s) = Some r -> length (snd (s_read_rune pure_stream s)) < length s.
Proof.
  intros s r H. cbn [s_read_rune pure_stream] in *. unfold pure_read_rune in *.
  destruct s as [|b bs]; [discriminate H|].
  pose proof (LexerTotal.decode_size_pos b bs) as Hs.
  destruct (decode_rune (b :: bs)) as [r0 sz]. cbn [fst snd] in *.
  rewrite skipn_length. cbn [length]. lia.
Qed.

(* LexerTotal.tokenize_total again, as an instance of the generic theorem *)
Theorem pure_tokenize_total_again : forall bs,
  exists pre e, tokenize bs = Some (pre ++ [e]) /\ it_tok e = T_EOF /\
    Forall (fun i => it_tok i <> T_EOF) pre /\ length (pre ++ [e]) <= length bs + 1 /\
    forall k, next_tokens (length (pre ++ [e]) + k) bs = Some ((pre ++ [e]) ++ repeat e k).
Proof.
  intros bs. unfold tokenize, next_tokens.
  apply (tokenize_fuel_total pure_stream (@length N) pure_peek_le pure_read_lt bs (length bs + 2)). lia.
Qed.
