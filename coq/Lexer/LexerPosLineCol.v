(* C13: a (line, column) pair names at most one rune of the input, hence at most one non-EOF token of a
   Tokenize result: the specification's pos_of_rune_end is injective in (line, column).  Spec-side lemmas
   only mention Lexer/LexerPosSpec.v; the token-level corollary composes them with LexerPos.tokenize_line_col
   and LexerPosUnique.  Used by Properties/C13.v (C13_f). *)
From Coq Require Import List Arith NArith Bool Lia.
From DC Require Import Base.Utf8 Base.Item Gen.TokenTable Lexer.LexerModel Lexer.LexerPosSpec Lexer.LexerPos Lexer.LexerPosUnique.
Import ListNotations.

Lemma count_occ_app_N : forall (a b : list N) x, count_occ N.eq_dec (a ++ b) x = (count_occ N.eq_dec a x + count_occ N.eq_dec b x)%nat.
Proof. intros; apply count_occ_app. Qed.

(* run_no_nl (rev (b ++ ext)) when ext has no newline = length ext + run_no_nl (rev b) *)
Lemma run_no_nl_app_clean : forall l1 l2, count_occ N.eq_dec l1 10%N = O ->
  run_no_nl (l1 ++ l2) = (length l1 + run_no_nl l2)%nat.
Proof.
  induction l1 as [|x l1 IH]; intros l2 H; [reflexivity|].
  cbn [count_occ] in H. destruct (N.eq_dec x 10) as [E|E]; [discriminate|].
  cbn [app run_no_nl length]. apply N.eqb_neq in E. rewrite E. rewrite IH by exact H. reflexivity.
Qed.

Lemma count_occ_rev_N : forall (l : list N) x, count_occ N.eq_dec (rev l) x = count_occ N.eq_dec l x.
Proof.
  induction l as [|y l IH]; intros x; [reflexivity|].
  cbn [rev]. rewrite count_occ_app, IH. cbn [count_occ]. destruct (N.eq_dec y x); lia.
Qed.

Lemma line_col_strict : forall b ext, ext <> [] ->
  line_after (b ++ ext) = line_after b -> col_after (b ++ ext) = col_after b -> False.
Proof.
  intros b ext Hne Hl Hc. unfold line_after, col_after in *.
  rewrite count_occ_app in Hl.
  assert (H0 : count_occ N.eq_dec ext 10%N = O) by lia.
  rewrite rev_app_distr in Hc.
  rewrite run_no_nl_app_clean in Hc by (rewrite count_occ_rev_N; exact H0).
  rewrite rev_length in Hc. destruct ext; [congruence|]. cbn [length] in Hc. lia.
Qed.

Lemma find_rune_end_prefix : forall rs start before off s r sz b',
  find_rune_end rs start before off = Some (s, r, sz, b') ->
  exists k, b' = before ++ map fst (firstn k rs) /\ (k < length rs)%nat /\
            off = N.of_nat (start + fold_right (fun p a => (snd p + a)%nat) O (firstn (S k) rs)).
Proof.
  induction rs as [|[r0 sz0] rs IH]; intros start before off s r sz b' H; [discriminate|].
  cbn [find_rune_end] in H. destruct (N.eqb_spec (N.of_nat (start + sz0)) off) as [E|E].
  - injection H as <- <- <- <-. exists O. cbn. rewrite app_nil_r. split; [reflexivity|]. split; [lia|].
    rewrite <- E. f_equal. lia.
  - apply IH in H. destruct H as (k & Hb & Hk & Ho). exists (S k). cbn [firstn map fst length].
    split; [rewrite Hb, <- app_assoc; reflexivity|]. split; [lia|].
    rewrite Ho. f_equal. cbn [firstn fold_right snd]. lia.
Qed.

Lemma firstn_add_ : forall {A} (a b : nat) (l : list A), firstn (a + b) l = firstn a l ++ firstn b (skipn a l).
Proof. induction a as [|a IH]; intros b l; [reflexivity|]. destruct l as [|x l]; [cbn; rewrite firstn_nil; reflexivity|]. cbn. rewrite IH. reflexivity. Qed.

Theorem line_col_names_one_rune : forall bs off1 off2 p1 p2,
  pos_of_rune_end bs off1 = Some p1 -> pos_of_rune_end bs off2 = Some p2 ->
  p_line p1 = p_line p2 -> p_col p1 = p_col p2 -> off1 = off2.
Proof.
  intros bs off1 off2 p1 p2 H1 H2 Hl Hc. unfold pos_of_rune_end, rune_ending_at in *.
  destruct (find_rune_end (runes_of bs) 0 [] off1) as [[[[s1 r1] z1] b1]|] eqn:E1; [|discriminate].
  destruct (find_rune_end (runes_of bs) 0 [] off2) as [[[[s2 r2] z2] b2]|] eqn:E2; [|discriminate].
  injection H1 as <-. injection H2 as <-. cbn [p_line p_col] in Hl, Hc.
  apply find_rune_end_prefix in E1. apply find_rune_end_prefix in E2.
  destruct E1 as (k1 & B1 & K1 & O1). destruct E2 as (k2 & B2 & K2 & O2).
  cbn [app] in B1, B2.
  destruct (Nat.lt_trichotomy k1 k2) as [L|[L|L]].
  - exfalso. replace k2 with (k1 + (k2 - k1))%nat in B2 by lia.
    rewrite firstn_add_, map_app, <- B1 in B2. subst b2.
    eapply (line_col_strict b1); [|symmetry; exact Hl|symmetry; exact Hc].
    intros Hn. apply (f_equal (@length N)) in Hn. rewrite map_length, firstn_length, skipn_length in Hn. cbn in Hn. lia.
  - subst k2. congruence.
  - exfalso. replace k1 with (k2 + (k1 - k2))%nat in B1 by lia.
    rewrite firstn_add_, map_app, <- B2 in B1. subst b1.
    eapply (line_col_strict b2); [|exact Hl|exact Hc].
    intros Hn. apply (f_equal (@length N)) in Hn. rewrite map_length, firstn_length, skipn_length in Hn. cbn in Hn. lia.
Qed.

Theorem tokenize_line_col_names_one_token : forall (bs : list N) (pre : list item) (e : item),
  tokenize bs = Some (pre ++ [e]) ->
  Forall (fun i => it_tok i <> T_EOF) pre ->
  forall m n i j, nth_error pre m = Some i -> nth_error pre n = Some j ->
    p_line (it_pos i) = p_line (it_pos j) -> p_col (it_pos i) = p_col (it_pos j) -> m = n.
Proof.
  intros bs pre e E Hpre m n i j Hi Hj Hl Hc.
  rewrite Forall_forall in Hpre.
  assert (Ii : In i pre) by (eapply nth_error_In; eassumption).
  assert (Ij : In j pre) by (eapply nth_error_In; eassumption).
  pose proof (tokenize_line_col bs _ E i (in_or_app _ _ _ (or_introl Ii)) (Hpre i Ii)) as Pi.
  pose proof (tokenize_line_col bs _ E j (in_or_app _ _ _ (or_introl Ij)) (Hpre j Ij)) as Pj.
  pose proof (line_col_names_one_rune bs _ _ _ _ Pi Pj Hl Hc) as Ho.
  destruct (tokenize_position_names_one_token bs pre e E) as [Hlt _].
  destruct (Nat.lt_trichotomy m n) as [L|[L|L]]; [|exact L|].
  - pose proof (Hlt m n i j L Hi Hj) as X. unfold off in *. rewrite Ho in X. exfalso. exact (N.lt_irrefl _ X).
  - pose proof (Hlt n m j i L Hj Hi) as X. unfold off in *. rewrite Ho in X. exfalso. exact (N.lt_irrefl _ X).
Qed.
