(* C05, lexer part: the vocabulary of the layout theorems.  Definitions only.

   sig_raw / sig_of : what the parser can see of a token list once positions and comments are dropped
                      (sig_of additionally erases the letter case of the value of keyword tokens);
   sep1 / is_sep    : separators = whitespace runes and complete comments, defined without the lexer;
   cut              : the decidable side condition "this split point is a token boundary", computed by
                      the lexer model;
   tok_ok / lays    : a grammar of texts (token spellings of the covered classes, each followed by
                      something that cannot extend it) -- also defined without the lexer. *)
From Coq Require Import List NArith Bool.
From DC Require Import Base.Utf8 Base.Unicode Base.Stream Base.Item Gen.TokenTable Lexer.LexerModel.
Import ListNotations.
Local Open Scope bool_scope.
Local Open Scope N_scope.

(* ---------- signatures ---------- *)

Definition sigT : Type := N * list N * bool.     (* kind, value, quoted *)

Definition ascii_upper (b : N) : N := if in_range 97 122 b then b - 32 else b.

Definition is_comment (it : item) : bool := it_tok it =? T_LINE_COMMENT.
Definition sig_item (it : item) : sigT := (it_tok it, it_val it, it_quoted it).
Definition norm_sig (s : sigT) : sigT :=
  let '(t, v, q) := s in (t, if is_keyword t then map ascii_upper v else v, q).

Definition not_comment_sig (s : sigT) : bool := negb (fst (fst s) =? T_LINE_COMMENT).

(* positions dropped, comments dropped *)
Definition sig_raw (items : list item) : list sigT := filter not_comment_sig (map sig_item items).
(* ... and the letter case of keyword values erased *)
Definition sig_of (items : list item) : list sigT := map norm_sig (sig_raw items).

Definition lex_sig_raw (bs : list N) : option (list sigT) := option_map sig_raw (tokenize bs).
Definition lex_sig (bs : list N) : option (list sigT) := option_map sig_of (tokenize bs).

(* ---------- separators (independent of the lexer) ---------- *)

(* body of a line comment: no newline; no NUL either (lexer.go stops a line comment at a NUL rune, and
   NextToken then reports EOF there, so a NUL is not layout) *)
Definition no_nl_b (body : list N) : bool := forallb (fun b => negb (b =? 10) && negb (b =? 0)) body.

(* blk d bs = Some rest: reading bs at nesting depth d, the matching close of the outermost open
   comment is found and `rest` follows it.  Byte-wise: every byte of a multi-byte rune is >= 128 and
   cannot start or complete a two-byte marker. *)
Fixpoint blk (d : nat) (bs : list N) : option (list N) :=
  match bs with
  | [] => None
  | c :: r =>
      match r with
      | [] => None
      | c2 :: r2 =>
          if (c =? 42) && (c2 =? 47) then
            match d with
            | O => None
            | Datatypes.S O => Some r2
            | Datatypes.S d' => blk d' r2
            end
          else if (c =? 47) && (c2 =? 42) then blk (Datatypes.S d) r2
          else blk d r
      end
  end.

Inductive sep1 : list N -> Prop :=
| sep1_ws : forall r, is_ws r = true -> sep1 (encode_rune r)
| sep1_dash : forall body, no_nl_b body = true -> sep1 (45 :: 45 :: body ++ [10])
| sep1_hash : forall body, no_nl_b body = true -> sep1 (35 :: body ++ [10])
| sep1_block : forall inner, blk 1 inner = Some [] -> sep1 (47 :: 42 :: inner).

Inductive is_sep : list N -> Prop :=
| is_sep_nil : is_sep []
| is_sep_app : forall w ws, sep1 w -> is_sep ws -> is_sep (w ++ ws).

(* ---------- lexer states "positioned at" a remaining input ---------- *)

Definition pos0 : pos := {| p_off := 0; p_line := 1; p_col := 0 |}.

(* the state (up to its position) of a lexer whose unread input, including the current
   character, is `rest` *)
Definition st_at (rest : list N) : @lex (list N) :=
  match rest with
  | [] => mkLex [] 0 pos0 true
  | _ => mkLex (skipn (snd (decode_rune rest)) rest) (fst (decode_rune rest)) pos0 false
  end.

Definition at_b (l : @lex (list N)) (rest : list N) : bool :=
  bytes_eqb (l_src l) (l_src (st_at rest)) && (l_ch l =? l_ch (st_at rest)) &&
  Bool.eqb (l_eof l) (l_eof (st_at rest)).

(* the rune the lexer sees first in r (0 at the end), and what peekChar returns when r is what
   follows the current character: Peek(1) decodes ONE byte *)
Definition hd_rune (r : list N) : N := l_ch (st_at r).
Definition pk_byte (r : list N) : N :=
  match r with
  | [] => 0
  | x :: _ => fst (decode_rune [x])
  end.

(* ---------- the side condition computed by the lexer ---------- *)

(* run NextToken from l until the state is positioned at `rest` right before a NextToken call;
   the tokens produced on the way.  None: EOF reached first (or out of fuel). *)
Fixpoint cut_loop (n fuel : nat) (l : @lex (list N)) (rest : list N) : option (list item) :=
  match n with
  | O => None
  | Datatypes.S n' =>
      if at_b l rest then Some []
      else
        bind (next_token pure_stream fuel l) (fun '(it, l') =>
        if it_tok it =? T_EOF then None
        else bind (cut_loop n' fuel l' rest) (fun its => Some (it :: its)))
  end.

(* cut a rest = Some its: lexing a ++ rest, the lexer is positioned exactly at `rest` between two
   tokens, after having produced `its` (comments included) *)
Definition cut (a rest : list N) : option (list item) :=
  let bs := a ++ rest in
  cut_loop (length bs + 2) (length bs + 2) (init_lex pure_stream bs) rest.

Definition sig_eqb (x y : sigT) : bool :=
  (fst (fst x) =? fst (fst y)) && bytes_eqb (snd (fst x)) (snd (fst y)) && Bool.eqb (snd x) (snd y).
Fixpoint sigs_eqb (a b : list sigT) : bool :=
  match a, b with
  | [], [] => true
  | x :: a', y :: b' => sig_eqb x y && sigs_eqb a' b'
  | _, _ => false
  end.

(* the boundary between a and what follows is a token boundary in both texts, with the same tokens
   before it *)
Definition boundary_ok (a rest rest' : list N) : bool :=
  match cut a rest, cut a rest' with
  | Some its, Some its' => sigs_eqb (sig_raw its) (sig_raw its')
  | _, _ => false
  end.

(* ---------- token spellings of the covered classes ---------- *)

Definition is_ident_start_a (b : N) : bool := in_range 65 90 b || in_range 97 122 b || (b =? 95).
Definition is_ident_char_a (b : N) : bool :=
  in_range 65 90 b || in_range 97 122 b || in_range 48 57 b || (b =? 95) || (b =? 36).
Definition is_digit_a (b : N) : bool := in_range 48 57 b.

Definition ident_word (t : list N) : bool :=
  match t with
  | [] => false
  | c :: cs => is_ident_start_a c && forallb is_ident_char_a cs
  end.

Definition xb_single (t : list N) : bool :=
  match t with
  | [c] => (c =? 120) || (c =? 88) || (c =? 98) || (c =? 66)
  | _ => false
  end.

Definition follow_ident (t r : list N) : bool :=
  negb (is_ident_char (hd_rune r)) && negb (xb_single t && (pk_byte r =? 39)).

Definition digits (t : list N) : bool :=
  match t with [] => false | _ => forallb is_digit_a t end.

Definition follow_num (r : list N) : bool :=
  let c := hd_rune r in
  negb (is_digit c) && negb (c =? 95) && negb (c =? 46) && negb (is_letter c).

(* body of a quoted token: ASCII, without the quote character and without backslash *)
Definition plain_body (q : N) (body : list N) : bool :=
  forallb (fun b => (b <? 128) && negb (b =? q) && negb (b =? 92)) body.

(* operators and punctuation: spelling, token, condition on what follows *)
Definition any_follow (r : list N) : bool := true.
Definition op_table : list (list N * N * (list N -> bool)) :=
  [ ([43], T_PLUS, any_follow)
  ; ([45], T_MINUS, fun r => negb (pk_byte r =? 45) && negb (pk_byte r =? 62))
  ; ([45; 62], T_ARROW, any_follow)
  ; ([42], T_ASTERISK, any_follow)
  ; ([47], T_SLASH, fun r => negb (pk_byte r =? 42))
  ; ([37], T_PERCENT, any_follow)
  ; ([61], T_EQ, fun r => negb (hd_rune r =? 61))
  ; ([61; 61], T_EQ, any_follow)
  ; ([33; 61], T_NEQ, any_follow)
  ; ([60], T_LT, fun r => negb (pk_byte r =? 61) && negb (pk_byte r =? 62))
  ; ([60; 61], T_LTE, fun r => negb (hd_rune r =? 62))
  ; ([60; 61; 62], T_NULL_SAFE_EQ, any_follow)
  ; ([60; 62], T_NEQ, any_follow)
  ; ([62], T_GT, fun r => negb (pk_byte r =? 61))
  ; ([62; 61], T_GTE, any_follow)
  ; ([124; 124], T_CONCAT, any_follow)
  ; ([58; 58], T_COLONCOLON, any_follow)
  ; ([58], T_COLON, fun r => negb (pk_byte r =? 58))
  ; ([40], T_LPAREN, any_follow)
  ; ([41], T_RPAREN, any_follow)
  ; ([91], T_LBRACKET, any_follow)
  ; ([93], T_RBRACKET, any_follow)
  ; ([125], T_RBRACE, any_follow)
  ; ([44], T_COMMA, any_follow)
  ; ([46], T_DOT, fun r => negb (is_digit (pk_byte r)))
  ; ([59], T_SEMICOLON, any_follow)
  ; ([63], T_QUESTION, any_follow)
  ; ([94], T_CARET, any_follow)
  ; ([64], T_IDENT, fun r => negb (pk_byte r =? 64))
  ; ([33], T_ILLEGAL, fun r => negb (pk_byte r =? 61))
  ; ([124], T_ILLEGAL, fun r => negb (pk_byte r =? 124))
  ].

(* tok_ok t sg r: the spelling t, when followed by r, is one token with signature sg *)
Inductive tok_ok : list N -> sigT -> list N -> Prop :=
| tok_ident : forall t r, ident_word t = true -> follow_ident t r = true ->
    tok_ok t (lookup (map ascii_upper t), t, false) r
| tok_int : forall t r, digits t = true -> follow_num r = true ->
    tok_ok t (T_NUMBER, t, false) r
| tok_dec : forall t1 t2 r, digits t1 = true -> digits t2 = true -> follow_num r = true ->
    tok_ok (t1 ++ 46 :: t2) (T_NUMBER, t1 ++ 46 :: t2, false) r
| tok_string : forall body r, plain_body 39 body = true -> negb (pk_byte r =? 39) = true ->
    tok_ok (39 :: body ++ [39]) (T_STRING, body, false) r
| tok_dquoted : forall body r, plain_body 34 body = true -> negb (hd_rune r =? 34) = true ->
    tok_ok (34 :: body ++ [34]) (T_IDENT, body, true) r
| tok_backtick : forall body r, plain_body 96 body = true -> negb (pk_byte r =? 96) = true ->
    tok_ok (96 :: body ++ [96]) (T_IDENT, body, false) r
| tok_param : forall body r, plain_body 125 body = true ->
    tok_ok (123 :: body ++ [125]) (T_PARAM, body, false) r
| tok_op : forall t k fol r, In (t, k, fol) op_table -> fol r = true ->
    tok_ok t (k, t, false) r.

(* lays x s: x is a sequence of separators and covered token spellings whose signatures are s, each
   spelling followed by something (a separator or the next spelling) that cannot extend it *)
Inductive lays : list N -> list sigT -> Prop :=
| lays_nil : lays [] []
| lays_sep : forall w r s, sep1 w -> lays r s -> lays (w ++ r) s
| lays_tok : forall t sg r s, tok_ok t sg r -> lays r s -> lays (t ++ r) (sg :: s).

Definition eof_sig : sigT := (T_EOF, [], false).
