(* C04 (part D) -- count-vs-emit model of the remaining statement printers of
   /repo/internal/explain that compute a "(children N)" count or pass depths by hand:

     statements.go  explainInsertQuery, explainDropQuery, explainUndropQuery, explainRenameQuery,
                    explainExchangeQuery, explainSetQuery, explainSystemQuery, explainExplainQuery,
                    explainShowQuery, explainUseQuery, explainDescribeQuery, explainExistsTableQuery,
                    explainDetachQuery, explainAttachQuery, explainBackupQuery, explainRestoreQuery,
                    explainOptimizeQuery, explainTruncateQuery, explainDeleteQuery, explainKillQuery,
                    explainCheckQuery, explainCreateIndexQuery, explainAssignment, explainUpdateQuery,
                    explainParallelWithQuery
     explain.go     the statements printed inline by Node: the single-line ones (SetRoleQuery,
                    ASTTransactionControl, GrantQuery, the access-control CREATE / ALTER / DROP ...),
                    the "optional FORMAT child" ones (SHOW CREATE QUOTA / SETTINGS PROFILE / ROW POLICY /
                    ROLE, ShowGrantsQuery), CreateResourceQuery, CreateWorkloadQuery
     dictionary.go  explainDictionaryAttributeDeclaration, explainDictionaryDefinition,
                    explainDictionarySource, explainKeyValuePair, explainDictionaryLifetime,
                    explainDictionaryLayout, explainDictionaryRange
     tables.go      explainTablesInSelectQuery, explainTablesInSelectQueryElement,
                    explainTableExpression, explainSampleClause, explainViewExplain,
                    explainTableIdentifier(WithAlias), explainArrayJoinClause, explainTableJoin

   DEFINITIONS ONLY.  Hand-written transcription of /repo revision a86ab771a in the style of
   Ddl/DdlExplainModel.v (whose primitives, labels, column / index / engine / partition models are
   reused by import): the "(children N)" header is computed by the [count_*] functions or by the
   literal of the Go source, the children are emitted by separate code, exactly as in Go: same
   order of emission, same conditions, same derived locals (hasDatabase, hasFormat, hasSettings,
   isFlushLogs, hasColumns, hasSelectQuery, hasStorage, typeStr, format, hasSettingsAfterFormat,
   name, mode, funcName ...), every early return, nothing shared between the two sides that Go
   does not share.  Every printer is called from Node (or from its parent printer) with
   indent = strings.Repeat(" ", depth), so "%s <x>" is a line at depth+1, "%s  <x>" at depth+2, ...
   The tie to the Go code is the correspondence run
   /verif/harness/cmd/stmtcount  vs  /verif/driver/stmtcount.

   Abstraction (as in the Ddl model).  A sub-node that the Go code hands to [Node(sb, x, depth)]
   (expressions, data types, nested statements, table identifiers), to explainFunctionCall /
   explainFunctionCallWithAlias, or to the inherited-WITH recursion for a non-union statement is an
   already rendered tree ([rose]); [Node(sb, nil, d)] prints [nil_tree].  The SELECT printers the
   INSERT and EXPLAIN printers call with a non-trivial unionTail are NOT abstract: they are the
   model of Select/SelectExplainModel.v ([explain_insert_select], [explain_explain_select]), since
   the EXPLAIN header count is derived from the union's members.  Strings are the bytes as printed
   (after escapeStringLiteral / EscapeIdentifier, which map the empty string to itself and a
   non-empty one to a non-empty one); a string that is only tested is a [bool].  Typed-nil
   statements (`n == nil`: one line "*ast.XQuery") are outside the model (n != nil), as in the Ddl
   model. *)
From Coq Require Import List NArith Bool String Ascii.
From DC Require Import Tree.LineTree Select.SelectExplainModel Ddl.DdlExplainModel.
Import ListNotations.

(* ---------------------------------------------------------------------------------------- *)
(** * Labels *)

Definition L_Asterisk := bytes_of "Asterisk".
Definition L_InsertQuery := bytes_of "InsertQuery  ".                 (* "%sInsertQuery   (children %d)" *)
Definition L_DropQuery_multi := bytes_of "DropQuery  ".               (* "%sDropQuery   (children %d)" *)
Definition L_Rename := bytes_of "Rename".
Definition L_SYSTEM_query := bytes_of "SYSTEM query".
Definition L_DescribeQuery := bytes_of "DescribeQuery".
Definition L_TableExpression := bytes_of "TableExpression".
Definition L_TableIdentifier (x : list N) : list N := bytes_of "TableIdentifier " ++ x.
Definition L_AttachQuery := bytes_of "AttachQuery".
Definition L_DetachQuery := bytes_of "DetachQuery".
Definition L_BackupQuery := bytes_of "BackupQuery".
Definition L_RestoreQuery := bytes_of "RestoreQuery".
Definition L_ShowTables := bytes_of "ShowTables".
Definition L_ParallelWithQuery := bytes_of "ParallelWithQuery".
Definition L_pair := bytes_of "pair".
Definition L_Dictionary_lifetime := bytes_of "Dictionary lifetime".
Definition L_Dictionary_layout := bytes_of "Dictionary layout".
Definition L_Dictionary_range := bytes_of "Dictionary range".
Definition L_Dictionary_settings := bytes_of "Dictionary settings".
Definition L_ArrayJoin := bytes_of "ArrayJoin".
Definition L_TableJoin := bytes_of "TableJoin".
Definition L_Subquery := bytes_of "Subquery".
Definition L_SampleRatio (x : list N) : list N := bytes_of "SampleRatio " ++ x.
Definition L_Literal_bq (x : list N) : list N := L_Literal_q x.        (* "%s Literal \\'%s\\'\n" *)
Definition DOT : list N := bytes_of ".".

(* a name with the database in front: "db tbl", or " tbl" / "tbl " where Go prints two spaces *)
Definition sp2 (a b : list N) : list N := a ++ SPC ++ b.

(* ---------------------------------------------------------------------------------------- *)
(** * Small shared pieces *)

(* `if s != "" { Fprintf("%s Identifier %s\n", indent, s) }` with [d] = depth of the CHILD line
   (ident_if of the Ddl model takes the parent's depth) *)
Definition ident_at (d : nat) (s : list N) : list line := when (nonempty s) [leaf d (L_Identifier s)].
Definition set_at (d : nat) (b : bool) : list line := when b [leaf d L_Set].

(* a function printed by hand as `Function <name>` with an ExpressionList of its arguments when
   there are any (BACKUP / RESTORE target); [d] = depth of the Function line *)
Definition explain_target_function (d : nat) (f : fn_call) : list line :=
  if nonempty (fn_args f) then
    hdr d (L_Function (fn_name f)) 1
    :: hdr (S d) L_ExpressionList (List.length (fn_args f))
    :: nodes (S (S d)) (fn_args f)
  else [leaf d (L_Function (fn_name f))].

(* ---------------------------------------------------------------------------------------- *)
(** * InsertQuery *)

(* n.Select *)
Inductive insert_select :=
| IS_union (u : union_query)              (* *ast.SelectWithUnionQuery *)
| IS_other (plain inherited : rose).      (* any other statement: what Node prints / what
                                             explainSelectWithInheritedWithTail prints with n.With *)

Record insert_query := mkIns {
  in_infile : list N;
  in_compression : list N;
  in_function : option rose;
  in_database : list N;
  in_table : list N;
  in_column_exprs : list rose;
  in_columns : list (list N);             (* col.Parts[len(col.Parts)-1] *)
  in_all_columns : bool;
  in_partition_by : option key_expr;      (* only identifier-or-not is looked at *)
  in_select : option insert_select;
  in_with : list rose;
  in_has_settings : bool
}.

Definition count_insert_children (n : insert_query) : nat :=
  b2n (nonempty (in_infile n))
  + b2n (nonempty (in_compression n))
  + (if is_some (in_function n) then 1
     else if nonempty (in_table n) then 1 + b2n (nonempty (in_database n)) else 0)
  + b2n (nonempty (in_column_exprs n) || nonempty (in_columns n) || in_all_columns n)
  + b2n (is_some (in_select n))
  + b2n (in_has_settings n)
  + b2n (is_some (in_partition_by n)).

(* explainInsertQuery(sb, n, indent(d), d) *)
Definition explain_insert_query (d : nat) (n : insert_query) : list line :=
  hdr d L_InsertQuery (count_insert_children n)
  :: when (nonempty (in_infile n)) [leaf (S d) (L_Literal_q (in_infile n))]
  ++ when (nonempty (in_compression n)) [leaf (S d) (L_Literal_q (in_compression n))]
  ++ (match in_function n with
      | Some f => node (S d) f
      | None =>
          if nonempty (in_table n) then
            if nonempty (in_database n)
            then [leaf (S d) (L_Identifier (in_database n)); leaf (S d) (L_Identifier (in_table n))]
            else [leaf (S d) (L_Identifier (in_table n))]
          else []
      end)
  ++ (match in_partition_by n with
      | Some k => match k_view k with
                  | KV_ident nm => [leaf (S d) (L_Identifier nm)]
                  | _ => node (S d) (k_tree k)
                  end
      | None => []
      end)
  ++ (if nonempty (in_column_exprs n) then expr_list (S d) (in_column_exprs n)
      else if in_all_columns n then [hdr (S d) L_ExpressionList 1; leaf (S (S d)) L_Asterisk]
      else if nonempty (in_columns n) then ident_list (S d) (in_columns n)
      else [])
  ++ (match in_select n with
      | Some (IS_union u) => explain_insert_select (S d) (in_with n) u
      | Some (IS_other p i) => if nonempty (in_with n) then node (S d) i else node (S d) p
      | None => []
      end)
  ++ set_at (S d) (in_has_settings n).

(* ---------------------------------------------------------------------------------------- *)
(** * DropQuery / UndropQuery *)

Record drop_query := mkDrop {
  dq_user : bool; dq_function : bool; dq_role : bool; dq_quota : bool; dq_policy : bool;
  dq_row_policy : bool; dq_settings_profile : bool;       (* n.X != "" *)
  dq_index : list N;
  dq_tables : list rose;                  (* n.Tables, each printed by Node *)
  dq_database : list N;                   (* as printed by EscapeIdentifier *)
  dq_table : list N;
  dq_view : list N;
  dq_dictionary : list N;
  dq_drop_database : bool;
  dq_format : list N;
  dq_settings : nat
}.

Definition drop_name (n : drop_query) : list N :=
  if dq_drop_database n then dq_database n
  else if nonempty (dq_dictionary n) then dq_dictionary n
  else if nonempty (dq_view n) then dq_view n
  else dq_table n.

Definition drop_has_database (n : drop_query) : bool :=
  nonempty (dq_database n) && negb (dq_drop_database n).

(* the three tallies of the general part *)
Definition count_drop_qualified (n : drop_query) : nat := if nonempty (dq_format n) then 3 else 2.
Definition count_drop_database (n : drop_query) : nat := if nonempty (dq_format n) then 2 else 1.
Definition count_drop_plain (n : drop_query) : nat :=
  1 + b2n (nonempty (dq_format n)) + b2n (pos (dq_settings n)).

(* explainDropQuery(sb, n, indent(d), d) *)
Definition explain_drop_query (d : nat) (n : drop_query) : list line :=
  if dq_user n then [leaf d (bytes_of "DROP USER query")]
  else if dq_function n then [leaf d (bytes_of "DropFunctionQuery")]
  else if dq_role n then [leaf d (bytes_of "DROP ROLE query")]
  else if dq_quota n then [leaf d (bytes_of "DROP QUOTA query")]
  else if dq_policy n then [leaf d (bytes_of "DROP POLICY query")]
  else if dq_row_policy n then [leaf d (bytes_of "DROP ROW POLICY query")]
  else if dq_settings_profile n then [leaf d (bytes_of "DROP SETTINGS PROFILE query")]
  else if nonempty (dq_index n) then
    [hdr d (bytes_of "DropIndexQuery  " ++ dq_table n) 2;
     leaf (S d) (L_Identifier (dq_index n)); leaf (S d) (L_Identifier (dq_table n))]
  else match dq_tables n with
  | _ :: _ :: _ =>
      hdr d L_DropQuery_multi 1
      :: hdr (S d) L_ExpressionList (List.length (dq_tables n))
      :: nodes (S (S d)) (dq_tables n)
  | _ =>
      if drop_has_database n then
        hdr d (bytes_of "DropQuery " ++ sp2 (dq_database n) (drop_name n)) (count_drop_qualified n)
        :: leaf (S d) (L_Identifier (dq_database n))
        :: leaf (S d) (L_Identifier (drop_name n))
        :: ident_at (S d) (dq_format n)
      else if dq_drop_database n then
        hdr d (bytes_of "DropQuery " ++ drop_name n ++ SPC) (count_drop_database n)
        :: leaf (S d) (L_Identifier (drop_name n))
        :: ident_at (S d) (dq_format n)
      else
        hdr d (bytes_of "DropQuery  " ++ drop_name n) (count_drop_plain n)
        :: leaf (S d) (L_Identifier (drop_name n))
        :: ident_at (S d) (dq_format n)
        ++ set_at (S d) (pos (dq_settings n))
  end.

Record undrop_query := mkUndrop { uq_database : list N; uq_table : list N; uq_format : list N }.

(* explainUndropQuery *)
Definition explain_undrop_query (d : nat) (n : undrop_query) : list line :=
  if nonempty (uq_database n) then
    hdr d (bytes_of "UndropQuery " ++ sp2 (uq_database n) (uq_table n))
        (if nonempty (uq_format n) then 3 else 2)
    :: leaf (S d) (L_Identifier (uq_database n))
    :: leaf (S d) (L_Identifier (uq_table n))
    :: ident_at (S d) (uq_format n)
  else
    hdr d (bytes_of "UndropQuery  " ++ uq_table n) (if nonempty (uq_format n) then 2 else 1)
    :: leaf (S d) (L_Identifier (uq_table n))
    :: ident_at (S d) (uq_format n).

(* ---------------------------------------------------------------------------------------- *)
(** * RenameQuery / ExchangeQuery *)

Record rename_pair := mkPair {
  rp_from_database : list N; rp_from_table : list N; rp_to_database : list N; rp_to_table : list N
}.

Record rename_query := mkRename {
  rq_rename_database : bool;
  rq_pairs : list rename_pair;
  rq_settings : nat
}.

(* `children := 0; for _, pair := range n.Pairs { if .. {children++}; children++; if .. {children++}; children++ }` *)
Definition count_rename_pairs (ps : list rename_pair) : nat :=
  fold_left (fun c p => c + b2n (nonempty (rp_from_database p)) + 1
                        + b2n (nonempty (rp_to_database p)) + 1) ps 0.

Definition count_rename_children (n : rename_query) : nat :=
  if rq_rename_database n then 2 + b2n (pos (rq_settings n))
  else count_rename_pairs (rq_pairs n) + b2n (pos (rq_settings n)).

Definition emit_rename_pair (d : nat) (p : rename_pair) : list line :=
  ident_at d (rp_from_database p)
  ++ [leaf d (L_Identifier (rp_from_table p))]
  ++ ident_at d (rp_to_database p)
  ++ [leaf d (L_Identifier (rp_to_table p))].

(* explainRenameQuery(sb, n, indent(d), d), n != nil *)
Definition explain_rename_query (d : nat) (n : rename_query) : list line :=
  hdr d L_Rename (count_rename_children n)
  :: (if rq_rename_database n then
        match rq_pairs n with
        | p :: _ => [leaf (S d) (L_Identifier (rp_from_table p)); leaf (S d) (L_Identifier (rp_to_table p))]
        | [] => []
        end
      else flat_map (emit_rename_pair (S d)) (rq_pairs n))
  ++ set_at (S d) (pos (rq_settings n)).

Record exchange_query := mkExchange {
  xq_database1 : list N; xq_table1 : list N; xq_database2 : list N; xq_table2 : list N
}.

Definition count_exchange_children (n : exchange_query) : nat :=
  (if nonempty (xq_database1 n) then 2 else 1) + (if nonempty (xq_database2 n) then 2 else 1).

(* explainExchangeQuery, n != nil *)
Definition explain_exchange_query (d : nat) (n : exchange_query) : list line :=
  hdr d L_Rename (count_exchange_children n)
  :: ident_at (S d) (xq_database1 n)
  ++ [leaf (S d) (L_Identifier (xq_table1 n))]
  ++ ident_at (S d) (xq_database2 n)
  ++ [leaf (S d) (L_Identifier (xq_table2 n))].

(* ---------------------------------------------------------------------------------------- *)
(** * TruncateQuery / OptimizeQuery / DeleteQuery / CheckQuery / UseQuery *)

Record truncate_query := mkTruncate {
  tq_database : list N; tq_table : list N; tq_truncate_database : bool; tq_settings : nat
}.

(* explainTruncateQuery, n != nil *)
Definition explain_truncate_query (d : nat) (n : truncate_query) : list line :=
  (if nonempty (tq_database n) then
     [hdr d (bytes_of "TruncateQuery " ++ sp2 (tq_database n) (tq_table n)) (2 + b2n (pos (tq_settings n)));
      leaf (S d) (L_Identifier (tq_database n)); leaf (S d) (L_Identifier (tq_table n))]
   else
     [hdr d (if tq_truncate_database n then bytes_of "TruncateQuery " ++ tq_table n ++ SPC
             else bytes_of "TruncateQuery  " ++ tq_table n)
          (1 + b2n (pos (tq_settings n)));
      leaf (S d) (L_Identifier (tq_table n))])
  ++ set_at (S d) (pos (tq_settings n)).

Record optimize_query := mkOptimize {
  oq_database : list N; oq_table : list N;
  oq_final : bool; oq_cleanup : bool; oq_dedupe : bool;
  oq_partition : option partition;
  oq_partition_by_id : bool;
  oq_settings : nat
}.

Definition optimize_name (n : optimize_query) : list N :=
  oq_table n ++ when (oq_final n) (bytes_of "_final") ++ when (oq_cleanup n) (bytes_of "_cleanup")
  ++ when (oq_dedupe n) (bytes_of "_deduplicate").

Definition count_optimize_children (n : optimize_query) : nat :=
  1 + b2n (nonempty (oq_database n)) + b2n (is_some (oq_partition n)) + b2n (pos (oq_settings n)).

(* the PARTITION block of OPTIMIZE; [d] = depth of the OptimizeQuery line *)
Definition optimize_partition (d : nat) (by_id : bool) (o : option partition) : list line :=
  match o with
  | Some p =>
      if is_all p then [leaf (S d) L_Partition_ID_all]
      else if by_id then part_id d p
      else part_wrapped d p
  | None => []
  end.

(* explainOptimizeQuery, n != nil *)
Definition explain_optimize_query (d : nat) (n : optimize_query) : list line :=
  hdr d (if nonempty (oq_database n)
         then bytes_of "OptimizeQuery " ++ sp2 (oq_database n) (optimize_name n)
         else bytes_of "OptimizeQuery  " ++ optimize_name n)
      (count_optimize_children n)
  :: optimize_partition d (oq_partition_by_id n) (oq_partition n)
  ++ ident_at (S d) (oq_database n)
  ++ [leaf (S d) (L_Identifier (oq_table n))]
  ++ set_at (S d) (pos (oq_settings n)).

Record delete_query := mkDelete {
  lq_table : list N; lq_partition : option rose; lq_where : option rose; lq_settings : nat
}.

Definition count_delete_children (n : delete_query) : nat :=
  1 + b2n (is_some (lq_partition n)) + b2n (is_some (lq_where n)) + b2n (pos (lq_settings n)).

(* explainDeleteQuery, n != nil *)
Definition explain_delete_query (d : nat) (n : delete_query) : list line :=
  hdr d (bytes_of "DeleteQuery  " ++ lq_table n) (count_delete_children n)
  :: (match lq_partition n with
      | Some p => hdr (S d) L_Partition 1 :: node (S (S d)) p
      | None => []
      end)
  ++ opt_node (S d) (lq_where n)
  ++ [leaf (S d) (L_Identifier (lq_table n))]
  ++ set_at (S d) (pos (lq_settings n)).

Record check_query := mkCheck {
  kq_database : list N; kq_table : list N; kq_format : list N; kq_settings : nat
}.

(* explainCheckQuery, n != nil *)
Definition explain_check_query (d : nat) (n : check_query) : list line :=
  if nonempty (kq_database n) then
    hdr d (bytes_of "CheckQuery " ++ sp2 (kq_database n) (kq_table n))
        (2 + b2n (nonempty (kq_format n)) + b2n (pos (kq_settings n)))
    :: leaf (S d) (L_Identifier (kq_database n))
    :: leaf (S d) (L_Identifier (kq_table n))
    :: ident_at (S d) (kq_format n)
    ++ set_at (S d) (pos (kq_settings n))
  else
    hdr d (bytes_of "CheckQuery  " ++ kq_table n)
        (1 + b2n (nonempty (kq_format n)) + b2n (pos (kq_settings n)))
    :: leaf (S d) (L_Identifier (kq_table n))
    :: ident_at (S d) (kq_format n)
    ++ set_at (S d) (pos (kq_settings n)).

(* explainUseQuery *)
Definition explain_use_query (d : nat) (database : list N) : list line :=
  [hdr d (bytes_of "UseQuery " ++ database) 1; leaf (S d) (L_Identifier database)].

(* ---------------------------------------------------------------------------------------- *)
(** * DescribeQuery / ExistsQuery *)

Record describe_query := mkDescribe {
  dsc_table_expr : option rose;            (* n.TableExpr, printed by Node *)
  dsc_table_function : option rose;        (* n.TableFunction, printed by explainFunctionCall *)
  dsc_database : list N; dsc_table : list N;
  dsc_format : list N; dsc_settings : nat
}.

(* the same tally, written three times in Go *)
Definition count_describe_children (n : describe_query) : nat :=
  1 + b2n (nonempty (dsc_format n)) + b2n (pos (dsc_settings n)).

Definition describe_tail (d : nat) (n : describe_query) : list line :=
  ident_at (S d) (dsc_format n) ++ set_at (S d) (pos (dsc_settings n)).

(* explainDescribeQuery *)
Definition explain_describe_query (d : nat) (n : describe_query) : list line :=
  match dsc_table_expr n with
  | Some t =>
      hdr d L_DescribeQuery (count_describe_children n) :: node (S d) t ++ describe_tail d n
  | None =>
      match dsc_table_function n with
      | Some f =>
          hdr d L_DescribeQuery (count_describe_children n)
          :: hdr (S d) L_TableExpression 1 :: node (S (S d)) f ++ describe_tail d n
      | None =>
          hdr d L_DescribeQuery (count_describe_children n)
          :: hdr (S d) L_TableExpression 1
          :: leaf (S (S d)) (L_TableIdentifier
                               (if nonempty (dsc_database n) then dsc_database n ++ DOT ++ dsc_table n
                                else dsc_table n))
          :: describe_tail d n
      end
  end.

Inductive exists_type := XT_Table | XT_Dictionary | XT_Database | XT_View | XT_Other.

Record exists_query := mkExists {
  eq_type : exists_type; eq_database : list N; eq_table : list N; eq_settings : nat
}.

Definition exists_query_type (t : exists_type) : list N :=
  match t with
  | XT_Dictionary => bytes_of "ExistsDictionaryQuery"
  | XT_Database => bytes_of "ExistsDatabaseQuery"
  | XT_View => bytes_of "ExistsViewQuery"
  | _ => bytes_of "ExistsTableQuery"
  end.

(* explainExistsTableQuery *)
Definition explain_exists_query (d : nat) (n : exists_query) : list line :=
  match eq_type n with
  | XT_Database =>
      hdr d (exists_query_type (eq_type n) ++ SPC ++ eq_table n ++ SPC) (1 + b2n (pos (eq_settings n)))
      :: leaf (S d) (L_Identifier (eq_table n))
      :: set_at (S d) (pos (eq_settings n))
  | _ =>
      hdr d (exists_query_type (eq_type n) ++ SPC
             ++ (if nonempty (eq_database n) then sp2 (eq_database n) (eq_table n) else SPC ++ eq_table n))
          ((if nonempty (eq_database n) then 2 else 1) + b2n (pos (eq_settings n)))
      :: ident_at (S d) (eq_database n)
      ++ [leaf (S d) (L_Identifier (eq_table n))]
      ++ set_at (S d) (pos (eq_settings n))
  end.

(* ---------------------------------------------------------------------------------------- *)
(** * ShowQuery *)

Inductive show_type :=
| SH_Tables | SH_Databases | SH_Processes | SH_Create | SH_CreateDB | SH_CreateDictionary
| SH_CreateView | SH_CreateUser | SH_CreateRole | SH_CreatePolicy | SH_CreateRowPolicy
| SH_CreateQuota | SH_CreateSettingsProfile | SH_Columns | SH_Dictionaries | SH_Functions
| SH_Settings | SH_Setting | SH_Grants
| SH_Other (title : list N).    (* any other string; [title] = strings.Title(strings.ToLower(s)), never "Settings" / "Databases" *)

(* strings.Title(strings.ToLower(string(n.ShowType))) of the constants ('_' is no word separator),
   then "Settings" / "Databases" -> "Tables" *)
Definition show_title (t : show_type) : list N :=
  match t with
  | SH_Tables | SH_Databases | SH_Settings => bytes_of "Tables"
  | SH_Processes => bytes_of "Processlist"
  | SH_Create => bytes_of "Create"
  | SH_CreateDB => bytes_of "Create_database"
  | SH_CreateDictionary => bytes_of "Create_dictionary"
  | SH_CreateView => bytes_of "Create_view"
  | SH_CreateUser => bytes_of "Create_user"
  | SH_CreateRole => bytes_of "Create_role"
  | SH_CreatePolicy => bytes_of "Create_policy"
  | SH_CreateRowPolicy => bytes_of "Create_row_policy"
  | SH_CreateQuota => bytes_of "Create_quota"
  | SH_CreateSettingsProfile => bytes_of "Create_settings_profile"
  | SH_Columns => bytes_of "Columns"
  | SH_Dictionaries => bytes_of "Dictionaries"
  | SH_Functions => bytes_of "Functions"
  | SH_Setting => bytes_of "Setting"
  | SH_Grants => bytes_of "Grants"
  | SH_Other t => t
  end.

Record show_query := mkShow {
  hq_type : show_type;
  hq_database : list N; hq_from : list N; hq_format : list N;
  hq_has_settings : bool; hq_multiple_users : bool
}.

(* the final `fmt.Fprintf(sb, "%sShow%s\n", indent, showType)` *)
Definition show_fallback (d : nat) (n : show_query) : list line :=
  [leaf d (bytes_of "Show" ++ show_title (hq_type n))].

(* the SHOW CREATE DICTIONARY / VIEW / TABLE blocks (the same text three times in Go, each with its
   own three tallies; [with_format] is false for SHOW CREATE VIEW, whose tallies and emissions do
   not look at n.Format).  With neither Database nor From the guard of the block fails (or, for
   SHOW CREATE, its inner else is taken) and the final line "Show<Type>" is printed. *)
Definition show_create_block (d : nat) (kind : list N) (with_format : bool) (n : show_query) : list line :=
  let fmt := if with_format then hq_format n else [] in
  let extra := b2n (nonempty fmt) + b2n (hq_has_settings n) in
  if nonempty (hq_database n) && nonempty (hq_from n) then
    hdr d (kind ++ SPC ++ sp2 (hq_database n) (hq_from n)) (2 + extra)
    :: leaf (S d) (L_Identifier (hq_database n))
    :: leaf (S d) (L_Identifier (hq_from n))
    :: ident_at (S d) fmt ++ set_at (S d) (hq_has_settings n)
  else if nonempty (hq_from n) then
    hdr d (kind ++ SPC ++ SPC ++ hq_from n) (1 + extra)
    :: leaf (S d) (L_Identifier (hq_from n))
    :: ident_at (S d) fmt ++ set_at (S d) (hq_has_settings n)
  else if nonempty (hq_database n) then
    hdr d (kind ++ SPC ++ SPC ++ hq_database n) (1 + extra)
    :: leaf (S d) (L_Identifier (hq_database n))
    :: ident_at (S d) fmt ++ set_at (S d) (hq_has_settings n)
  else show_fallback d n.

Definition count_show_tables_children (n : show_query) : nat :=
  b2n (nonempty (hq_from n)) + b2n (nonempty (hq_format n)) + b2n (hq_has_settings n).

(* explainShowQuery(sb, n, indent(d)): the chain of `if n.ShowType == X && .. { ..; return }` as a
   match on the (mutually exclusive) type tests *)
Definition explain_show_query (d : nat) (n : show_query) : list line :=
  match hq_type n with
  | SH_CreateDB =>
      if nonempty (hq_from n) then
        [hdr d (bytes_of "ShowCreateDatabaseQuery " ++ hq_from n ++ SPC) 1; leaf (S d) (L_Identifier (hq_from n))]
      else show_fallback d n
  | SH_CreateDictionary => show_create_block d (bytes_of "ShowCreateDictionaryQuery") true n
  | SH_CreateView => show_create_block d (bytes_of "ShowCreateViewQuery") false n
  | SH_Create => show_create_block d (bytes_of "ShowCreateTableQuery") true n
  | SH_CreateUser =>
      let lab := if hq_multiple_users n then bytes_of "SHOW CREATE USERS query"
                 else bytes_of "SHOW CREATE USER query" in
      if nonempty (hq_format n) then [hdr d lab 1; leaf (S d) (L_Identifier (hq_format n))] else [leaf d lab]
  | SH_Tables | SH_Databases | SH_Dictionaries =>
      if pos (count_show_tables_children n) then
        hdr d L_ShowTables (count_show_tables_children n)
        :: ident_at (S d) (hq_from n) ++ ident_at (S d) (hq_format n) ++ set_at (S d) (hq_has_settings n)
      else [leaf d L_ShowTables]
  | _ => show_fallback d n
  end.

(* ---------------------------------------------------------------------------------------- *)
(** * SystemQuery *)

Record system_query := mkSystem {
  yq_is_flush_logs : bool;                (* strings.HasPrefix(strings.ToUpper(n.Command), "FLUSH LOGS") *)
  yq_database : list N; yq_table : list N;
  yq_duplicate : bool;
  yq_settings : nat
}.

Definition count_system_children (n : system_query) : nat :=
  (if yq_is_flush_logs n then 0
   else let c := b2n (nonempty (yq_database n)) + b2n (nonempty (yq_table n)) in
        if yq_duplicate n && pos c then c * 2 else c)
  + b2n (pos (yq_settings n)).

(* explainSystemQuery *)
Definition explain_system_query (d : nat) (n : system_query) : list line :=
  if pos (count_system_children n) then
    hdr d L_SYSTEM_query (count_system_children n)
    :: ident_at (S d) (yq_database n) ++ ident_at (S d) (yq_table n)
    ++ when (yq_duplicate n) (ident_at (S d) (yq_database n) ++ ident_at (S d) (yq_table n))
    ++ set_at (S d) (pos (yq_settings n))
  else [leaf d L_SYSTEM_query].

(* ---------------------------------------------------------------------------------------- *)
(** * ExplainQuery *)

Inductive explain_type :=
| ET_AST | ET_Syntax | ET_Plan | ET_Pipeline | ET_Estimate | ET_QueryTree | ET_CurrentTransaction
| ET_Other (s : list N).        (* any other string (the empty one included) *)

Definition explain_type_name (t : explain_type) : list N :=
  match t with
  | ET_AST => bytes_of "AST" | ET_Syntax => bytes_of "SYNTAX" | ET_Plan => bytes_of "PLAN"
  | ET_Pipeline => bytes_of "PIPELINE" | ET_Estimate => bytes_of "ESTIMATE"
  | ET_QueryTree => bytes_of "QUERY TREE" | ET_CurrentTransaction => bytes_of "CURRENT TRANSACTION"
  | ET_Other s => s
  end.

(* n.Statement *)
Inductive explained_stmt :=
| XS_union (u : union_query) (format_last : list N)
      (* *ast.SelectWithUnionQuery; format_last = Parts[len-1] of the Format of its first
         SelectQuery member (read only when that Format is non-nil) *)
| XS_other (o : option rose).             (* anything else, nil included: Node(sb, n.Statement, depth+1) *)

Record explain_query := mkExplain {
  ex_type : explain_type;
  ex_explicit_type : bool;
  ex_statement : explained_stmt;
  ex_has_settings : bool
}.

Definition is_plan (t : explain_type) : bool := match t with ET_Plan => true | _ => false end.
Definition is_current_transaction (t : explain_type) : bool :=
  match t with ET_CurrentTransaction => true | _ => false end.

Definition explain_type_str (n : explain_query) : list N :=
  if ex_explicit_type n && negb (is_plan (ex_type n)) then SPC ++ explain_type_name (ex_type n) else [].

(* the first SelectQuery member of swu.Selects (`for .. { if sq, ok := ..; ok { ..; break } }`) *)
Definition first_member (u : union_query) : option select_query :=
  match first_select_i (fun _ _ => true) 0 (u_selects u) with Some (_, q) => Some q | None => None end.

(* `format != nil` *)
Definition explain_has_format (s : explained_stmt) : bool :=
  match s with
  | XS_union u _ => match first_member u with Some q => is_some (sq_format q) | None => false end
  | XS_other _ => false
  end.

(* hasSettingsAfterFormat *)
Definition explain_has_settings_after_format (s : explained_stmt) : bool :=
  match s with
  | XS_union u _ =>
      let union_level := u_settings_after_format u && pos (u_settings u) in
      match first_member u with
      | Some q => if sq_settings_after_format q && pos (sq_settings q) && negb union_level then true
                  else union_level
      | None => union_level
      end
  | XS_other _ => false
  end.

Definition count_explain_children (n : explain_query) : nat :=
  1 + b2n (explain_has_format (ex_statement n)) + b2n (ex_has_settings n)
  + b2n (explain_has_settings_after_format (ex_statement n)).

Definition explain_label (d : nat) (n : explain_query) : list N :=
  match d with
  | O => bytes_of "Explain EXPLAIN" ++ explain_type_str n
  | S _ => bytes_of "Explain" ++ explain_type_str n
  end.

(* explainExplainQuery(sb, n, indent(d), d) *)
Definition explain_explain_query (d : nat) (n : explain_query) : list line :=
  if is_current_transaction (ex_type n) then [leaf d (explain_label d n)]
  else
    hdr d (explain_label d n) (count_explain_children n)
    :: set_at (S d) (ex_has_settings n)
    ++ (match ex_statement n with
        | XS_union u _ => explain_explain_select (S d) u
        | XS_other o => node_nilable (S d) o
        end)
    ++ (match ex_statement n with
        | XS_union _ f => when (explain_has_format (ex_statement n)) [leaf (S d) (L_Identifier f)]
        | XS_other _ => []
        end)
    ++ set_at (S d) (explain_has_settings_after_format (ex_statement n)).

(* ---------------------------------------------------------------------------------------- *)
(** * DetachQuery / AttachQuery *)

Record detach_query := mkDetach { dt_database : list N; dt_table : list N; dt_dictionary : list N }.

(* explainDetachQuery *)
Definition explain_detach_query (d : nat) (n : detach_query) : list line :=
  if nonempty (dt_database n) && nonempty (dt_table n) then
    [hdr d (bytes_of "DetachQuery " ++ sp2 (dt_database n) (dt_table n)) 2;
     leaf (S d) (L_Identifier (dt_database n)); leaf (S d) (L_Identifier (dt_table n))]
  else if nonempty (dt_database n) && nonempty (dt_dictionary n) then
    [hdr d (bytes_of "DetachQuery " ++ sp2 (dt_database n) (dt_dictionary n)) 2;
     leaf (S d) (L_Identifier (dt_database n)); leaf (S d) (L_Identifier (dt_dictionary n))]
  else if nonempty (dt_database n) && negb (nonempty (dt_table n)) && negb (nonempty (dt_dictionary n)) then
    [hdr d (bytes_of "DetachQuery " ++ dt_database n ++ SPC) 1; leaf (S d) (L_Identifier (dt_database n))]
  else if nonempty (dt_table n) then
    [hdr d (bytes_of "DetachQuery  " ++ dt_table n) 1; leaf (S d) (L_Identifier (dt_table n))]
  else if nonempty (dt_dictionary n) then
    [hdr d (bytes_of "DetachQuery  " ++ dt_dictionary n) 1; leaf (S d) (L_Identifier (dt_dictionary n))]
  else [leaf d L_DetachQuery].

Record attach_query := mkAttach {
  ath_database : list N; ath_table : list N; ath_dictionary : list N;
  ath_columns : list column_decl;
  ath_columns_primary_key : list rose;
  ath_has_empty_columns_primary_key : bool;
  ath_indexes : list index_def;
  ath_engine : option engine;
  ath_order_by : list rose;
  ath_primary_key : list rose;
  ath_is_materialized_view : bool;
  ath_partition_by : option rose;
  ath_select_query : option rose;
  ath_settings : nat
}.

Definition attach_has_columns (n : attach_query) : bool :=
  nonempty (ath_columns n) || nonempty (ath_columns_primary_key n) || nonempty (ath_indexes n).

Definition attach_has_storage (n : attach_query) : bool :=
  is_some (ath_engine n) || nonempty (ath_order_by n) || nonempty (ath_primary_key n)
  || is_some (ath_partition_by n) || pos (ath_settings n).

(* the tally at the top of explainAttachQuery *)
Definition count_attach_children (n : attach_query) : nat :=
  1 + b2n (nonempty (ath_database n) && (nonempty (ath_table n) || nonempty (ath_dictionary n)))
  + b2n (attach_has_columns n) + b2n (is_some (ath_select_query n)) + b2n (attach_has_storage n).

Definition attach_inline_pk (n : attach_query) : bool :=
  nonempty (ath_columns_primary_key n) || ath_has_empty_columns_primary_key n.

(* columnsChildren *)
Definition count_attach_columns_children (n : attach_query) : nat :=
  b2n (nonempty (ath_columns n)) + b2n (nonempty (ath_indexes n)) + b2n (attach_inline_pk n).

(* the "Columns definition" block; [d] = depth of that line *)
Definition explain_attach_columns (d : nat) (n : attach_query) : list line :=
  hdr d L_Columns_definition (count_attach_columns_children n)
  :: when (nonempty (ath_columns n))
          (hdr (S d) L_ExpressionList (List.length (ath_columns n))
           :: flat_map (explain_column (S (S d))) (ath_columns n))
  ++ when (nonempty (ath_indexes n))
          (hdr (S d) L_ExpressionList (List.length (ath_indexes n))
           :: flat_map (explain_index (S (S d))) (ath_indexes n))
  ++ when (attach_inline_pk n)
          (if ath_has_empty_columns_primary_key n then
             [hdr (S d) L_Function_tuple 1; leaf (S (S d)) L_ExpressionList]
           else match ath_columns_primary_key n with
                | _ :: _ :: _ => explain_tuple_wrap (S d) (ath_columns_primary_key n)
                | pks => nodes (S d) pks
                end).

(* storageChildren *)
Definition count_attach_storage_children (n : attach_query) : nat :=
  b2n (is_some (ath_engine n)) + b2n (is_some (ath_partition_by n)) + b2n (nonempty (ath_order_by n))
  + b2n (nonempty (ath_primary_key n)) + b2n (pos (ath_settings n)).

(* the "Storage definition" line at depth [d] and its children (the two copies in Go differ in
   the indentation only) *)
Definition explain_attach_storage (d : nat) (n : attach_query) : list line :=
  hdr d L_Storage_definition (count_attach_storage_children n)
  :: (match ath_engine n with Some e => explain_engine (S d) e | None => [] end)
  ++ opt_node (S d) (ath_partition_by n)
  ++ nodes (S d) (ath_order_by n)                 (* `for _, expr := range n.OrderBy { Node(..) }` *)
  ++ nodes (S d) (ath_primary_key n)
  ++ set_at (S d) (pos (ath_settings n)).

(* what follows the name lines *)
Definition explain_attach_rest (d : nat) (n : attach_query) : list line :=
  when (attach_has_columns n) (explain_attach_columns (S d) n)
  ++ opt_node (S d) (ath_select_query n)
  ++ when (attach_has_storage n)
          (if ath_is_materialized_view n
           then hdr (S d) L_ViewTargets 1 :: explain_attach_storage (S (S d)) n
           else explain_attach_storage (S d) n).

(* explainAttachQuery(sb, n, indent(d), d) *)
Definition explain_attach_query (d : nat) (n : attach_query) : list line :=
  if nonempty (ath_database n) && nonempty (ath_table n) then
    hdr d (bytes_of "AttachQuery " ++ sp2 (ath_database n) (ath_table n)) (count_attach_children n)
    :: leaf (S d) (L_Identifier (ath_database n)) :: leaf (S d) (L_Identifier (ath_table n))
    :: explain_attach_rest d n
  else if nonempty (ath_database n) && nonempty (ath_dictionary n) then
    [hdr d (bytes_of "AttachQuery " ++ sp2 (ath_database n) (ath_dictionary n)) (count_attach_children n);
     leaf (S d) (L_Identifier (ath_database n)); leaf (S d) (L_Identifier (ath_dictionary n))]      (* return *)
  else if nonempty (ath_database n) && negb (nonempty (ath_table n)) && negb (nonempty (ath_dictionary n)) then
    hdr d (bytes_of "AttachQuery " ++ ath_database n ++ SPC) (count_attach_children n)
    :: leaf (S d) (L_Identifier (ath_database n))
    :: explain_attach_rest d n
  else if nonempty (ath_table n) then
    hdr d (bytes_of "AttachQuery " ++ ath_table n) (count_attach_children n)
    :: leaf (S d) (L_Identifier (ath_table n))
    :: explain_attach_rest d n
  else if nonempty (ath_dictionary n) then
    [hdr d (bytes_of "AttachQuery " ++ ath_dictionary n) (count_attach_children n);
     leaf (S d) (L_Identifier (ath_dictionary n))]                                           (* return *)
  else [leaf d L_AttachQuery].

(* ---------------------------------------------------------------------------------------- *)
(** * BackupQuery / RestoreQuery *)

Record backup_query := mkBackup { bq_target : option fn_call; bq_format : list N }.

Definition count_backup_children (n : backup_query) : nat :=
  b2n (is_some (bq_target n)) + b2n (nonempty (bq_format n)).

(* explainBackupQuery / explainRestoreQuery (the same text with the other label), n != nil *)
Definition explain_backup_like (lab : list N) (d : nat) (n : backup_query) : list line :=
  hdr_pos d lab (count_backup_children n)
  :: (match bq_target n with Some f => explain_target_function (S d) f | None => [] end)
  ++ ident_at (S d) (bq_format n).

Definition explain_backup_query := explain_backup_like L_BackupQuery.
Definition explain_restore_query := explain_backup_like L_RestoreQuery.

(* ---------------------------------------------------------------------------------------- *)
(** * KillQuery *)

Record kill_query := mkKill {
  kl_where : option (list N * rose);      (* n.Where != nil: (funcName, what Node prints); funcName is
                                             "Function_<op>", "Function_<name>" or "Function", never empty *)
  kl_sync : bool; kl_test : bool;
  kl_format : list N; kl_settings : nat
}.

Definition kill_mode (n : kill_query) : list N :=
  if kl_test n then bytes_of "TEST" else if kl_sync n then bytes_of "SYNC" else bytes_of "ASYNC".

Definition count_kill_children (n : kill_query) : nat :=
  b2n (is_some (kl_where n)) + b2n (nonempty (kl_format n)) + b2n (pos (kl_settings n)).

(* explainKillQuery, n != nil *)
Definition explain_kill_query (d : nat) (n : kill_query) : list line :=
  hdr d (match kl_where n with
         | Some (f, _) => bytes_of "KillQueryQuery " ++ sp2 f (kill_mode n)
         | None => bytes_of "KillQueryQuery " ++ kill_mode n
         end)
      (count_kill_children n)
  :: (match kl_where n with Some (_, t) => node (S d) t | None => [] end)
  ++ ident_at (S d) (kl_format n)
  ++ set_at (S d) (pos (kl_settings n)).

(* ---------------------------------------------------------------------------------------- *)
(** * CreateIndexQuery / Assignment / UpdateQuery / ParallelWithQuery *)

Record create_index_query := mkCreateIndex {
  ci_table : list N; ci_index_name : list N;
  ci_type : list N;
  ci_columns_parenthesized : bool;
  ci_columns : list key_expr
}.

Definition empty_tuple_lines (d : nat) : list line :=
  [hdr d L_Function_tuple 1; leaf (S d) L_ExpressionList].

(* explainCreateIndexQuery, n != nil *)
Definition explain_create_index_query (d : nat) (n : create_index_query) : list line :=
  hdr d (bytes_of "CreateIndexQuery  " ++ ci_table n) 3
  :: leaf (S d) (L_Identifier (ci_index_name n))
  :: hdr (S d) L_Index (if nonempty (ci_type n) then 2 else 1)
  :: (if ci_columns_parenthesized n then
        match ci_columns n with
        | [k] => match k_view k with
                 | KV_ident nm => [leaf (S (S d)) (L_Identifier nm)]
                 | _ => node (S (S d)) (k_tree k)
                 end
        | _ => empty_tuple_lines (S (S d))
        end
      else match ci_columns n with
           | [k] => node (S (S d)) (k_tree k)
           | [] => empty_tuple_lines (S (S d))
           | ks =>
               (* `Node(sb, col, depth+3)`: the members are printed at the depth of their
                  "%s   ExpressionList" line, not beneath it *)
               hdr (S (S d)) L_Function_tuple 1
               :: hdr (3 + d) L_ExpressionList (List.length ks)
               :: nodes (3 + d) (map k_tree ks)
           end)
  ++ when (nonempty (ci_type n)) [hdr (S (S d)) (L_Function (ci_type n)) 1; leaf (3 + d) L_ExpressionList]
  ++ [leaf (S d) (L_Identifier (ci_table n))].

(* explainAssignment(sb, n, indent(d), d), n != nil: "(children 1)" whatever n.Value is *)
Definition explain_assignment (d : nat) (a : assignment) : list line :=
  hdr d (L_Assignment (as_column a)) 1 :: opt_node (S d) (as_value a).

Record update_query := mkUpdate {
  pq_database : list N; pq_table : list N;
  pq_where : option rose;
  pq_assignments : list assignment        (* non-nil members *)
}.

(* explainUpdateQuery, n != nil: `children := 3` *)
Definition explain_update_query (d : nat) (n : update_query) : list line :=
  hdr d (if nonempty (pq_database n) then bytes_of "UpdateQuery " ++ sp2 (pq_database n) (pq_table n)
         else bytes_of "UpdateQuery  " ++ pq_table n) 3
  :: leaf (S d) (L_Identifier (pq_table n))
  :: opt_node (S d) (pq_where n)
  ++ hdr (S d) L_ExpressionList (List.length (pq_assignments n))
  :: flat_map (explain_assignment (S (S d))) (pq_assignments n).

Record parallel_with_query := mkParallel {
  pw_name : list N;                       (* getParallelWithName(n.Statements[0]) *)
  pw_statements : list (option rose)      (* each printed by Node (a nil member prints nil_tree) *)
}.

Definition dec_nat (k : nat) : list N := dec (N.of_nat k).

(* explainParallelWithQuery *)
Definition explain_parallel_with_query (d : nat) (n : parallel_with_query) : list line :=
  match pw_statements n with
  | [] => [leaf d L_ParallelWithQuery]
  | _ =>
      hdr d (L_ParallelWithQuery ++ SPC ++ sp2 (dec_nat (List.length (pw_statements n))) (pw_name n))
          (List.length (pw_statements n))
      :: flat_map (node_nilable (S d)) (pw_statements n)
  end.

(* ---------------------------------------------------------------------------------------- *)
(** * The statements printed inline by Node (explain.go) *)

(* one line, no children: SetQuery "Set", SetRoleQuery, TransactionControlQuery
   "ASTTransactionControl", ShowPrivilegesQuery, CreateQuotaQuery, Create/AlterSettingsProfileQuery,
   DropSettingsProfileQuery, Create/Alter/DropNamedCollectionQuery, Create/DropRowPolicyQuery,
   CreateRoleQuery, DropRoleQuery, DropResourceQuery, DropWorkloadQuery, GrantQuery (GRANT and
   REVOKE) *)
Definition explain_single_line (d : nat) (lab : list N) : list line := [leaf d lab].

(* `if n.Format != "" { "<lab1> (children 1)"; " Identifier <format>" } else { "<lab0>" }`:
   ShowCreateQuotaQuery, ShowCreateSettingsProfileQuery (plural label for several names),
   ShowCreateRowPolicyQuery (lab1 = "... ROW POLICIES query", lab0 = "... ROW POLICY query"),
   ShowCreateRoleQuery, ShowGrantsQuery *)
Definition explain_format_child (d : nat) (lab1 lab0 : list N) (format : list N) : list line :=
  if nonempty format then [hdr d lab1 1; leaf (S d) (L_Identifier format)] else [leaf d lab0].

(* CreateResourceQuery *)
Definition explain_create_resource (d : nat) (name : list N) : list line :=
  [hdr d (bytes_of "CreateResourceQuery " ++ name) 1; leaf (S d) (L_Identifier name)].

(* CreateWorkloadQuery *)
Definition explain_create_workload (d : nat) (name parent : list N) : list line :=
  if nonempty parent then
    [hdr d (bytes_of "CreateWorkloadQuery " ++ name) 2;
     leaf (S d) (L_Identifier name); leaf (S d) (L_Identifier parent)]
  else [hdr d (bytes_of "CreateWorkloadQuery " ++ name) 1; leaf (S d) (L_Identifier name)].

(* ---------------------------------------------------------------------------------------- *)
(** * dictionary.go *)

Record dict_attr := mkDictAttr {
  da_name : list N; da_type : option rose; da_default : option rose; da_expression : option rose
}.

Definition count_dict_attr_children (a : dict_attr) : nat :=
  b2n (is_some (da_type a)) + b2n (is_some (da_default a)) + b2n (is_some (da_expression a)).

(* explainDictionaryAttributeDeclaration *)
Definition explain_dict_attr (d : nat) (a : dict_attr) : list line :=
  hdr_pos d (bytes_of "DictionaryAttributeDeclaration " ++ da_name a) (count_dict_attr_children a)
  :: opt_node (S d) (da_type a) ++ opt_node (S d) (da_default a) ++ opt_node (S d) (da_expression a).

(* explainKeyValuePair; a pair is its Value *)
Definition explain_kv_pair (d : nat) (v : option rose) : list line :=
  match v with
  | Some t => hdr d L_pair 1 :: node (S d) t
  | None => [leaf d L_pair]
  end.

Record dict_source := mkDictSource { ds_type : list N (* strings.ToLower(n.Type) *); ds_args : list (option rose) }.

(* explainDictionarySource *)
Definition explain_dict_source (d : nat) (s : dict_source) : list line :=
  hdr d (bytes_of "FunctionWithKeyValueArguments  " ++ ds_type s) 1
  :: (if nonempty (ds_args s)
      then hdr (S d) L_ExpressionList (List.length (ds_args s)) :: flat_map (explain_kv_pair (S (S d))) (ds_args s)
      else [leaf (S d) L_ExpressionList]).

(* explainDictionaryLayout; a layout is its Args *)
Definition explain_dict_layout (d : nat) (args : list (option rose)) : list line :=
  if nonempty args then
    hdr d L_Dictionary_layout 1
    :: hdr (S d) L_ExpressionList (List.length args) :: flat_map (explain_kv_pair (S (S d))) args
  else [hdr d L_Dictionary_layout 1; leaf (S d) L_ExpressionList].

Record dict_definition := mkDictDef {
  dd_primary_key : list rose;
  dd_source : option dict_source;
  dd_lifetime : bool;                     (* n.Lifetime != nil *)
  dd_layout : option (list (option rose));
  dd_range : bool;
  dd_settings : nat
}.

Definition count_dict_definition_children (n : dict_definition) : nat :=
  b2n (nonempty (dd_primary_key n)) + b2n (is_some (dd_source n)) + b2n (dd_lifetime n)
  + b2n (is_some (dd_layout n)) + b2n (dd_range n) + b2n (pos (dd_settings n)).

(* explainDictionaryDefinition *)
Definition explain_dict_definition (d : nat) (n : dict_definition) : list line :=
  hdr_pos d L_Dictionary_definition (count_dict_definition_children n)
  :: when (nonempty (dd_primary_key n)) (expr_list (S d) (dd_primary_key n))
  ++ (match dd_source n with Some s => explain_dict_source (S d) s | None => [] end)
  ++ when (dd_lifetime n) [leaf (S d) L_Dictionary_lifetime]
  ++ (match dd_layout n with Some a => explain_dict_layout (S d) a | None => [] end)
  ++ when (dd_range n) [leaf (S d) L_Dictionary_range]
  ++ when (pos (dd_settings n)) [leaf (S d) L_Dictionary_settings].

(* ---------------------------------------------------------------------------------------- *)
(** * tables.go *)

(* explainTablesInSelectQuery: n.Tables, each printed by Node *)
Definition explain_tables_in_select_query (d : nat) (tables : list rose) : list line :=
  hdr d L_TablesInSelectQuery (List.length tables) :: nodes (S d) tables.

(* explainArrayJoinClause; a clause is its Columns *)
Definition explain_array_join (d : nat) (cols : list rose) : list line :=
  hdr d L_ArrayJoin 1 :: hdr_pos (S d) L_ExpressionList (List.length cols) :: nodes (S (S d)) cols.

Record tables_element := mkElement {
  el_array_join : option (list rose);
  el_table : option rose;
  el_join : option rose
}.

(* `children := 0; if Table != nil {++}; if Join != nil {++}; if children == 0 { children = 1 }` *)
Definition count_element_children (e : tables_element) : nat :=
  let c := b2n (is_some (el_table e)) + b2n (is_some (el_join e)) in
  if pos c then c else 1.

(* explainTablesInSelectQueryElement *)
Definition explain_tables_element (d : nat) (e : tables_element) : list line :=
  match el_array_join e with
  | Some cols => hdr d L_TablesInSelectQueryElement 1 :: explain_array_join (S d) cols
  | None =>
      hdr d L_TablesInSelectQueryElement (count_element_children e)
      :: opt_node (S d) (el_table e) ++ opt_node (S d) (el_join e)
  end.

(* explainViewExplain(sb, n, alias, indent(d), d): the EXPLAIN used as a table source *)
Record view_explain := mkViewExplain {
  ve_type_str : list N;                   (* "EXPLAIN" or "EXPLAIN <type>" *)
  ve_options : list N;
  ve_statement : option rose              (* Node(sb, n.Statement, depth+10) *)
}.

Definition explain_view_explain (d : nat) (v : view_explain) : list line :=
  [hdr d L_Subquery 1;
   hdr (1 + d) L_SelectWithUnionQuery 1;
   hdr (2 + d) L_ExpressionList 1;
   hdr (3 + d) L_SelectQuery 2;
   hdr (4 + d) L_ExpressionList 1;
   leaf (5 + d) L_Asterisk;
   hdr (4 + d) L_TablesInSelectQuery 1;
   hdr (5 + d) L_TablesInSelectQueryElement 1;
   hdr (6 + d) L_TableExpression 1;
   hdr (7 + d) (bytes_of "Function viewExplain") 1;
   hdr (8 + d) L_ExpressionList 3;
   leaf (9 + d) (L_Literal_q (ve_type_str v));
   leaf (9 + d) (L_Literal_q (ve_options v));
   hdr (9 + d) L_Subquery 1]
  ++ node_nilable (10 + d) (ve_statement v).

(* n.Table of a TableExpression as the printer looks at it *)
Inductive table_view :=
| TV_subquery_explain (v : view_explain)          (* *ast.Subquery whose Query is an *ast.ExplainQuery *)
| TV_subquery (self : rose) (query : option rose) (* any other *ast.Subquery: what Node prints for it / its Query *)
| TV_function (self with_alias : rose)            (* *ast.FunctionCall: Node / explainFunctionCallWithAlias *)
| TV_identifier (name : list N)                   (* *ast.TableIdentifier: "db.table" or "table" *)
| TV_other (o : option rose).                     (* anything else, nil included *)

Record sample_clause := mkSample { sm_ratio : list N; sm_offset : option (list N) }.   (* the texts formatSampleRatio writes *)

Record table_expression := mkTableExpr {
  tx_table : table_view; tx_alias : list N; tx_sample : option sample_clause
}.

Definition count_table_expression_children (n : table_expression) : nat :=
  1 + (match tx_sample n with Some s => 1 + b2n (is_some (sm_offset s)) | None => 0 end).

(* explainSampleClause(sb, n, indent(d), d) *)
Definition explain_sample_clause (d : nat) (s : sample_clause) : list line :=
  leaf d (L_SampleRatio (sm_ratio s))
  :: (match sm_offset s with Some o => [leaf d (L_SampleRatio o)] | None => [] end).

Definition alias_suffix (a : list N) : list N := bytes_of " (alias " ++ a ++ bytes_of ")".

(* explainTableExpression *)
Definition explain_table_expression (d : nat) (n : table_expression) : list line :=
  hdr d L_TableExpression (count_table_expression_children n)
  :: (match tx_table n with
      | TV_subquery_explain v => explain_view_explain (S d) v
      | TV_subquery self q =>
          if nonempty (tx_alias n)
          then hdr (S d) (L_Subquery ++ alias_suffix (tx_alias n)) 1 :: node_nilable (S (S d)) q
          else node (S d) self
      | TV_function self wa => if nonempty (tx_alias n) then node (S d) wa else node (S d) self
      | TV_identifier nm =>
          if nonempty (tx_alias n) then [leaf (S d) (L_TableIdentifier nm ++ alias_suffix (tx_alias n))]
          else [leaf (S d) (L_TableIdentifier nm)]
      | TV_other o => node_nilable (S d) o
      end)
  ++ (match tx_sample n with Some s => explain_sample_clause (S d) s | None => [] end).

Record table_join := mkJoin {
  tj_on : option rose;
  tj_using : option (list rose)           (* n.Using != nil, and the list (nil and empty differ here) *)
}.

Definition count_table_join_children (n : table_join) : nat :=
  b2n (is_some (tj_on n)) + b2n (is_some (tj_using n)).

(* explainTableJoin *)
Definition explain_table_join (d : nat) (n : table_join) : list line :=
  hdr_pos d L_TableJoin (count_table_join_children n)
  :: opt_node (S d) (tj_on n)
  ++ (match tj_using n with
      | Some us => if nonempty us then expr_list (S d) us else [leaf (S d) L_ExpressionList]
      | None => []
      end).
