(* C04 (part D) -- the "(children N)" headers of the remaining statement printers equal the number
   of children they emit, for every combination of optional fields and every list length; hence
   their output is a well-formed tree (up to [norm_line]).  Model: Stmt/StmtExplainModel.v.

   For every printer X:
     X_children      the trees printed directly beneath the header line
     X_prints        the FOREST form: the output is the header line followed by the rendering of
                     X_children one level deeper -- no claim about the number in the header
     X_count_correct header number = length X_children, unconditionally or IFF the stated inv_X
     X_tree / X_check / X_counts_iff  corollaries through the generic lemmas of the first section.
   Where the Go code does NOT have the property the model is faithful and the failure is a lemma
   ([*_refuted]); the main theorems are then equivalences. *)
From Coq Require Import String.
From Coq Require Import List NArith Arith Bool Lia.      (* after String: [length] is List.length *)
From DC Require Import Tree.LineTree Tree.LineTreeProof
     Select.SelectExplainModel Select.SelectExplainProof
     Ddl.DdlExplainModel Ddl.DdlExplainProof Stmt.StmtExplainModel.
Import ListNotations.
(* string literals for the labels *)
Local Open Scope string_scope.
Local Open Scope list_scope.
Local Open Scope nat_scope.

(* ---------------------------------------------------------------------------------------- *)
(** * Generic: a header line and the forest printed beneath it *)

Record printed := mkPrinted { p_label : list N; p_count : nat; p_children : list rose }.

(* after normalisation [ls] is the header line with the number [p_count] followed by the
   rendering of [p_children] one level deeper *)
Definition prints (ls : list line) (d : nat) (p : printed) : Prop :=
  nrm ls = mkLine d (p_label p) (kcount (p_count p)) :: render_forest (S d) (p_children p).

Definition p_tree (p : printed) : rose := Node (p_label p) (p_children p).

(* the count-equals-emitted statement *)
Definition p_ok (p : printed) : Prop := p_count p = length (p_children p).

Lemma prints_hdr d lab n body ts :
  emits body (S d) ts -> prints (hdr d lab n :: body) d (mkPrinted lab n ts).
Proof. intros H. apply forest_of_emits, H. Qed.

Lemma prints_hdr_pos d lab n body ts :
  emits body (S d) ts -> prints (hdr_pos d lab n :: body) d (mkPrinted lab n ts).
Proof. intros H. apply forest_of_emits_pos, H. Qed.

Lemma prints_leaf d lab : prints [leaf d lab] d (mkPrinted lab 0 []).
Proof. reflexivity. Qed.

Lemma prints_tree ls d p : prints ls d p -> p_ok p -> nrm ls = render d (p_tree p).
Proof. unfold prints, p_ok, p_tree. intros H E. rewrite H, E, render_node. reflexivity. Qed.

Lemma prints_emits ls d p : prints ls d p -> p_ok p -> emits ls d [p_tree p].
Proof. intros H E. apply emits_of_tree, (prints_tree _ _ _ H E). Qed.

Lemma prints_counts ls d p :
  prints ls d p -> header_count ls = p_count p /\ direct_children ls = length (p_children p).
Proof. intros H. eapply counts_of_forest. exact H. Qed.

Lemma prints_counts_iff ls d p :
  prints ls d p -> (header_count ls = direct_children ls <-> p_ok p).
Proof. intros H. destruct (prints_counts _ _ _ H) as [-> ->]. reflexivity. Qed.

Lemma prints_check ls p : prints ls 0 p -> p_ok p -> check_lines ls = true.
Proof. intros H E. eapply check_lines_of_tree, prints_tree; eassumption. Qed.

Lemma prints_not_tree ls d p :
  prints ls d p -> ~ p_ok p -> forall d' t, nrm ls <> render d' t.
Proof.
  intros H Hn. apply not_tree_of_counts. intros E. apply Hn. apply (prints_counts_iff _ _ _ H). exact E.
Qed.

(* ---------------------------------------------------------------------------------------- *)
(** * More combinators *)

Lemma emits_cons_hdr d lab n body ts rest trest :
  n = length ts -> emits body (S d) ts -> emits rest d trest ->
  emits (hdr d lab n :: body ++ rest) d (Node lab ts :: trest).
Proof.
  intros En Hb Hr. change (hdr d lab n :: body ++ rest) with ((hdr d lab n :: body) ++ rest).
  apply (emits_app _ _ _ [Node lab ts] trest); [apply emits_hdr; assumption|exact Hr].
Qed.

Definition ident_at_trees (s : list N) : list rose := when (nonempty s) [T_leaf (L_Identifier s)].
Definition set_trees (b : bool) : list rose := when b [T_leaf L_Set].

Lemma ident_at_emits d s : emits (ident_at d s) d (ident_at_trees s).
Proof. apply emits_when, emits_leaf. Qed.

Lemma set_at_emits d b : emits (set_at d b) d (set_trees b).
Proof. apply emits_when, emits_leaf. Qed.

Lemma length_ident_at_trees s : length (ident_at_trees s) = b2n (nonempty s).
Proof. apply length_when1. Qed.

Lemma length_set_trees b : length (set_trees b) = b2n b.
Proof. apply length_when1. Qed.

Lemma emits_flat_map_opt (f : option rose -> list line) (g : option rose -> rose) d l :
  (forall x, emits (f x) d [g x]) -> emits (flat_map f l) d (map g l).
Proof. apply emits_flat_map. Qed.

Ltac len_norm :=
  rewrite ?app_length, ?length_opt_block, ?length_opt_list, ?length_when1, ?length_ident_at_trees,
          ?length_set_trees, ?length_ident_trees, ?length_comment_trees, ?map_length;
  cbn [length].

(* solves [emits X d T] goals whose two sides have the same structure *)
Ltac emits_step :=
  first
    [ apply emits_nil
    | apply ident_at_emits
    | apply set_at_emits
    | apply emits_leaf
    | apply emits_cons_leaf
    | apply emits_opt_node
    | apply emits_node_nilable
    | apply emits_nodes
    | apply emits_node
    | apply expr_list_emits
    | apply ident_list_emits
    | apply column_emits
    | apply index_emits
    | apply engine_emits
    | apply tuple_wrap_emits
    | apply part_wrapped_emits
    | apply part_id_emits
    | apply emits_when
    | apply emits_app
    | (apply emits_opt_block; intro) ].

Ltac emits_tac := repeat emits_step.

(* closes [b = true <-> k = k'] once both sides are closed terms *)
Ltac iff_tac := split; intros ?H; first [reflexivity|lia|discriminate|congruence].

(* ---------------------------------------------------------------------------------------- *)
(** * BACKUP / RESTORE target *)

Definition target_tree (f : fn_call) : rose :=
  Node (L_Function (fn_name f)) (when (nonempty (fn_args f)) [T_EL (fn_args f)]).

Lemma target_function_emits d f : emits (explain_target_function d f) d [target_tree f].
Proof. apply (plain_function_emits d f). Qed.

(* ---------------------------------------------------------------------------------------- *)
(** * InsertQuery *)

(* the nested SELECT is printed by the SELECT model's printers: their theorems need the members
   of the union to satisfy the SelectQuery invariants (C04_select) *)
Definition inv_insert (n : insert_query) : Prop :=
  match in_select n with Some (IS_union u) => inv_union u | _ => True end.

Definition insert_select_trees (n : insert_query) : list rose :=
  match in_select n with
  | Some (IS_union u) =>
      [if nonempty (in_with n) then union_tree_inherited u (in_with n) tail_no_format
       else union_tree u tail_no_format]
  | Some (IS_other p i) => [if nonempty (in_with n) then i else p]
  | None => []
  end.

Definition insert_target_trees (n : insert_query) : list rose :=
  match in_function n with
  | Some f => [f]
  | None =>
      if nonempty (in_table n) then
        if nonempty (in_database n)
        then [T_leaf (L_Identifier (in_database n)); T_leaf (L_Identifier (in_table n))]
        else [T_leaf (L_Identifier (in_table n))]
      else []
  end.

Definition insert_columns_trees (n : insert_query) : list rose :=
  if nonempty (in_column_exprs n) then [T_EL (in_column_exprs n)]
  else if in_all_columns n then [T_EL [T_leaf L_Asterisk]]
  else if nonempty (in_columns n) then [ident_list_tree (in_columns n)]
  else [].

Definition insert_children (n : insert_query) : list rose :=
  when (nonempty (in_infile n)) [T_leaf (L_Literal_q (in_infile n))]
  ++ when (nonempty (in_compression n)) [T_leaf (L_Literal_q (in_compression n))]
  ++ insert_target_trees n
  ++ opt_block key_ident_or_node (in_partition_by n)
  ++ insert_columns_trees n
  ++ insert_select_trees n
  ++ set_trees (in_has_settings n).

Definition insert_printed (n : insert_query) : printed :=
  mkPrinted L_InsertQuery (count_insert_children n) (insert_children n).

(* THE count-vs-emit statement for explainInsertQuery: unconditional *)
Theorem count_insert_children_correct n : count_insert_children n = length (insert_children n).
Proof.
  unfold count_insert_children, insert_children, insert_target_trees, insert_columns_trees,
    insert_select_trees.
  len_norm.
  destruct (in_function n), (nonempty (in_table n)), (nonempty (in_database n)),
    (nonempty (in_column_exprs n)), (in_all_columns n), (nonempty (in_columns n)),
    (in_select n) as [[u|p i]|]; cbn [is_some b2n length orb]; lia.
Qed.

Lemma insert_prints d n : inv_insert n -> prints (explain_insert_query d n) d (insert_printed n).
Proof.
  intros Hi. unfold explain_insert_query, insert_printed. apply prints_hdr.
  unfold insert_children. repeat apply emits_app.
  - apply emits_when, emits_leaf.
  - apply emits_when, emits_leaf.
  - unfold insert_target_trees. destruct (in_function n); [apply emits_node|].
    destruct (nonempty (in_table n)); [|apply emits_nil].
    destruct (nonempty (in_database n)); emits_tac.
  - apply (emits_opt_block (fun k => match k_view k with
                                     | KV_ident nm => [leaf (S d) (L_Identifier nm)]
                                     | _ => node (S d) (k_tree k)
                                     end)).
    intros k. apply key_ident_or_node_emits.
  - unfold insert_columns_trees. destruct (nonempty (in_column_exprs n)); [apply expr_list_emits|].
    destruct (in_all_columns n).
    + unfold T_EL. apply emits_hdr; [reflexivity|apply emits_leaf].
    + destruct (nonempty (in_columns n)); [apply ident_list_emits|apply emits_nil].
  - unfold insert_select_trees, inv_insert in *. destruct (in_select n) as [[u|p i]|]; [| |apply emits_nil].
    + unfold explain_insert_select. destruct (nonempty (in_with n)); apply emits_of_tree.
      * apply explain_union_inherited_tree, Hi.
      * apply explain_union_tree, Hi.
    + destruct (nonempty (in_with n)); apply emits_node.
  - apply set_at_emits.
Qed.

Theorem explain_insert_query_tree d n :
  inv_insert n -> nrm (explain_insert_query d n) = render d (p_tree (insert_printed n)).
Proof. intros H. eapply prints_tree; [apply insert_prints, H|apply count_insert_children_correct]. Qed.

(* ---------------------------------------------------------------------------------------- *)
(** * DropQuery / UndropQuery *)

Definition drop_printed (n : drop_query) : printed :=
  if dq_user n then mkPrinted (bytes_of "DROP USER query") 0 []
  else if dq_function n then mkPrinted (bytes_of "DropFunctionQuery") 0 []
  else if dq_role n then mkPrinted (bytes_of "DROP ROLE query") 0 []
  else if dq_quota n then mkPrinted (bytes_of "DROP QUOTA query") 0 []
  else if dq_policy n then mkPrinted (bytes_of "DROP POLICY query") 0 []
  else if dq_row_policy n then mkPrinted (bytes_of "DROP ROW POLICY query") 0 []
  else if dq_settings_profile n then mkPrinted (bytes_of "DROP SETTINGS PROFILE query") 0 []
  else if nonempty (dq_index n) then
    mkPrinted (bytes_of "DropIndexQuery  " ++ dq_table n) 2
              [T_leaf (L_Identifier (dq_index n)); T_leaf (L_Identifier (dq_table n))]
  else match dq_tables n with
  | _ :: _ :: _ => mkPrinted L_DropQuery_multi 1 [T_EL (dq_tables n)]
  | _ =>
      if drop_has_database n then
        mkPrinted (bytes_of "DropQuery " ++ sp2 (dq_database n) (drop_name n)) (count_drop_qualified n)
                  (T_leaf (L_Identifier (dq_database n)) :: T_leaf (L_Identifier (drop_name n))
                   :: ident_at_trees (dq_format n))
      else if dq_drop_database n then
        mkPrinted (bytes_of "DropQuery " ++ drop_name n ++ SPC) (count_drop_database n)
                  (T_leaf (L_Identifier (drop_name n)) :: ident_at_trees (dq_format n))
      else
        mkPrinted (bytes_of "DropQuery  " ++ drop_name n) (count_drop_plain n)
                  (T_leaf (L_Identifier (drop_name n)) :: ident_at_trees (dq_format n)
                   ++ set_trees (pos (dq_settings n)))
  end.

Lemma drop_prints d n : prints (explain_drop_query d n) d (drop_printed n).
Proof.
  unfold explain_drop_query, drop_printed.
  repeat match goal with
         | |- prints (if ?b then _ else _) _ _ => destruct b; [apply prints_leaf|]
         end.
  destruct (nonempty (dq_index n)); [apply prints_hdr; emits_tac|].
  destruct (dq_tables n) as [|t1 [|t2 ts]].
  3: { apply prints_hdr. unfold T_EL. apply emits_hdr; [reflexivity|apply emits_nodes]. }
  all: destruct (drop_has_database n); [apply prints_hdr; emits_tac|];
       destruct (dq_drop_database n); apply prints_hdr; emits_tac.
Qed.

(* THE count-vs-emit statement for explainDropQuery: unconditional *)
Theorem drop_count_correct n : p_ok (drop_printed n).
Proof.
  unfold p_ok, drop_printed.
  repeat match goal with
         | |- context [if ?b then mkPrinted _ 0 [] else _] => destruct b; [reflexivity|]
         end.
  destruct (nonempty (dq_index n)); [reflexivity|].
  destruct (dq_tables n) as [|t1 [|t2 ts]]; [| |reflexivity];
    (destruct (drop_has_database n); [|destruct (dq_drop_database n)]);
    unfold count_drop_qualified, count_drop_database, count_drop_plain;
    cbn [p_count p_children length]; len_norm;
    destruct (nonempty (dq_format n)); cbn [b2n]; lia.
Qed.

Definition undrop_printed (n : undrop_query) : printed :=
  if nonempty (uq_database n) then
    mkPrinted (bytes_of "UndropQuery " ++ sp2 (uq_database n) (uq_table n))
              (if nonempty (uq_format n) then 3 else 2)
              (T_leaf (L_Identifier (uq_database n)) :: T_leaf (L_Identifier (uq_table n))
               :: ident_at_trees (uq_format n))
  else
    mkPrinted (bytes_of "UndropQuery  " ++ uq_table n) (if nonempty (uq_format n) then 2 else 1)
              (T_leaf (L_Identifier (uq_table n)) :: ident_at_trees (uq_format n)).

Lemma undrop_prints d n : prints (explain_undrop_query d n) d (undrop_printed n).
Proof.
  unfold explain_undrop_query, undrop_printed. destruct (nonempty (uq_database n)); apply prints_hdr; emits_tac.
Qed.

Theorem undrop_count_correct n : p_ok (undrop_printed n).
Proof.
  unfold p_ok, undrop_printed. destruct (nonempty (uq_database n)); cbn [p_count p_children length];
    len_norm; destruct (nonempty (uq_format n)); reflexivity.
Qed.

(* ---------------------------------------------------------------------------------------- *)
(** * RenameQuery / ExchangeQuery *)

Definition rename_pair_trees (p : rename_pair) : list rose :=
  ident_at_trees (rp_from_database p) ++ [T_leaf (L_Identifier (rp_from_table p))]
  ++ ident_at_trees (rp_to_database p) ++ [T_leaf (L_Identifier (rp_to_table p))].

Definition rename_children (n : rename_query) : list rose :=
  (if rq_rename_database n then
     match rq_pairs n with
     | p :: _ => [T_leaf (L_Identifier (rp_from_table p)); T_leaf (L_Identifier (rp_to_table p))]
     | [] => []
     end
   else flat_map rename_pair_trees (rq_pairs n))
  ++ set_trees (pos (rq_settings n)).

Definition rename_printed (n : rename_query) : printed :=
  mkPrinted L_Rename (count_rename_children n) (rename_children n).

Lemma emits_flat_map_forest {A} (f : A -> list line) (g : A -> list rose) d l :
  (forall x, emits (f x) d (g x)) -> emits (flat_map f l) d (flat_map g l).
Proof.
  intros H. induction l as [|x l IH]; [reflexivity|]. cbn [flat_map]. apply emits_app; [apply H|exact IH].
Qed.

Lemma rename_prints d n : prints (explain_rename_query d n) d (rename_printed n).
Proof.
  unfold explain_rename_query, rename_printed. apply prints_hdr. unfold rename_children.
  apply emits_app; [|apply set_at_emits].
  destruct (rq_rename_database n).
  - destruct (rq_pairs n); emits_tac.
  - apply emits_flat_map_forest. intros p. unfold emit_rename_pair, rename_pair_trees. emits_tac.
Qed.

Lemma count_rename_pairs_acc ps : forall c,
  fold_left (fun c p => c + b2n (nonempty (rp_from_database p)) + 1
                        + b2n (nonempty (rp_to_database p)) + 1) ps c
  = c + length (flat_map rename_pair_trees ps).
Proof.
  induction ps as [|p ps IH]; intros c; [cbn; lia|].
  cbn [fold_left flat_map]. rewrite IH, app_length. unfold rename_pair_trees. len_norm. lia.
Qed.

(* RENAME DATABASE: `children := 2`, the two names printed only when n.Pairs is non-empty *)
Definition inv_rename_b (n : rename_query) : bool := negb (rq_rename_database n) || nonempty (rq_pairs n).
Definition inv_rename (n : rename_query) : Prop := inv_rename_b n = true.

(* THE count-vs-emit statement for explainRenameQuery: an equivalence *)
Theorem rename_count_correct n : inv_rename n <-> p_ok (rename_printed n).
Proof.
  unfold inv_rename, inv_rename_b, p_ok, rename_printed, count_rename_children, rename_children.
  cbn [p_count p_children]. len_norm.
  destruct (rq_rename_database n); cbn [negb orb].
  - destruct (rq_pairs n); cbn [nonempty length]; split; intros H; first [lia|discriminate|reflexivity].
  - unfold count_rename_pairs. rewrite count_rename_pairs_acc. split; [intros _; lia|reflexivity].
Qed.

Definition exchange_children (n : exchange_query) : list rose :=
  ident_at_trees (xq_database1 n) ++ [T_leaf (L_Identifier (xq_table1 n))]
  ++ ident_at_trees (xq_database2 n) ++ [T_leaf (L_Identifier (xq_table2 n))].

Definition exchange_printed (n : exchange_query) : printed :=
  mkPrinted L_Rename (count_exchange_children n) (exchange_children n).

Lemma exchange_prints d n : prints (explain_exchange_query d n) d (exchange_printed n).
Proof. apply prints_hdr. unfold exchange_children. emits_tac. Qed.

Theorem exchange_count_correct n : p_ok (exchange_printed n).
Proof.
  unfold p_ok, exchange_printed, count_exchange_children, exchange_children. cbn [p_count p_children].
  len_norm. destruct (nonempty (xq_database1 n)), (nonempty (xq_database2 n)); reflexivity.
Qed.

(* ---------------------------------------------------------------------------------------- *)
(** * TruncateQuery / OptimizeQuery / DeleteQuery / CheckQuery / UseQuery *)

Definition truncate_printed (n : truncate_query) : printed :=
  if nonempty (tq_database n) then
    mkPrinted (bytes_of "TruncateQuery " ++ sp2 (tq_database n) (tq_table n)) (2 + b2n (pos (tq_settings n)))
              ([T_leaf (L_Identifier (tq_database n)); T_leaf (L_Identifier (tq_table n))]
               ++ set_trees (pos (tq_settings n)))
  else
    mkPrinted (if tq_truncate_database n then bytes_of "TruncateQuery " ++ tq_table n ++ SPC
               else bytes_of "TruncateQuery  " ++ tq_table n)
              (1 + b2n (pos (tq_settings n)))
              ([T_leaf (L_Identifier (tq_table n))] ++ set_trees (pos (tq_settings n))).

Lemma truncate_prints d n : prints (explain_truncate_query d n) d (truncate_printed n).
Proof.
  unfold explain_truncate_query, truncate_printed.
  destruct (nonempty (tq_database n)); cbn [app]; apply prints_hdr; emits_tac.
Qed.

Theorem truncate_count_correct n : p_ok (truncate_printed n).
Proof.
  unfold p_ok, truncate_printed. destruct (nonempty (tq_database n)); cbn [p_count p_children]; len_norm; lia.
Qed.

Definition optimize_partition_tree (by_id : bool) (p : partition) : rose :=
  if is_all p then T_all else if by_id then part_id_tree p else part_wrapped_tree p.

Definition optimize_children (n : optimize_query) : list rose :=
  opt_block (optimize_partition_tree (oq_partition_by_id n)) (oq_partition n)
  ++ ident_at_trees (oq_database n)
  ++ [T_leaf (L_Identifier (oq_table n))]
  ++ set_trees (pos (oq_settings n)).

Definition optimize_printed (n : optimize_query) : printed :=
  mkPrinted (if nonempty (oq_database n)
             then bytes_of "OptimizeQuery " ++ sp2 (oq_database n) (optimize_name n)
             else bytes_of "OptimizeQuery  " ++ optimize_name n)
            (count_optimize_children n) (optimize_children n).

Lemma optimize_partition_emits d by_id o :
  emits (optimize_partition d by_id o) (S d) (opt_block (optimize_partition_tree by_id) o).
Proof.
  destruct o as [p|]; [|apply emits_nil]. cbn [optimize_partition opt_block].
  unfold optimize_partition_tree. destruct (is_all p); [apply emits_leaf|].
  destruct by_id; [apply part_id_emits|apply part_wrapped_emits].
Qed.

Lemma optimize_prints d n : prints (explain_optimize_query d n) d (optimize_printed n).
Proof.
  apply prints_hdr. unfold optimize_children. apply emits_app; [apply optimize_partition_emits|emits_tac].
Qed.

Theorem optimize_count_correct n : p_ok (optimize_printed n).
Proof.
  unfold p_ok, optimize_printed, count_optimize_children, optimize_children. cbn [p_count p_children].
  len_norm. lia.
Qed.

Definition delete_children (n : delete_query) : list rose :=
  opt_block (fun p => Node L_Partition [p]) (lq_partition n)
  ++ opt_list (lq_where n)
  ++ [T_leaf (L_Identifier (lq_table n))]
  ++ set_trees (pos (lq_settings n)).

Definition delete_printed (n : delete_query) : printed :=
  mkPrinted (bytes_of "DeleteQuery  " ++ lq_table n) (count_delete_children n) (delete_children n).

Lemma delete_prints d n : prints (explain_delete_query d n) d (delete_printed n).
Proof.
  apply prints_hdr. unfold delete_children. apply emits_app; [|emits_tac].
  apply (emits_opt_block (fun p => hdr (S d) L_Partition 1 :: node (S (S d)) p)).
  intros p. apply emits_hdr; [reflexivity|apply emits_node].
Qed.

Theorem delete_count_correct n : p_ok (delete_printed n).
Proof.
  unfold p_ok, delete_printed, count_delete_children, delete_children. cbn [p_count p_children].
  len_norm. lia.
Qed.

Definition check_printed (n : check_query) : printed :=
  if nonempty (kq_database n) then
    mkPrinted (bytes_of "CheckQuery " ++ sp2 (kq_database n) (kq_table n))
              (2 + b2n (nonempty (kq_format n)) + b2n (pos (kq_settings n)))
              (T_leaf (L_Identifier (kq_database n)) :: T_leaf (L_Identifier (kq_table n))
               :: ident_at_trees (kq_format n) ++ set_trees (pos (kq_settings n)))
  else
    mkPrinted (bytes_of "CheckQuery  " ++ kq_table n)
              (1 + b2n (nonempty (kq_format n)) + b2n (pos (kq_settings n)))
              (T_leaf (L_Identifier (kq_table n)) :: ident_at_trees (kq_format n) ++ set_trees (pos (kq_settings n))).

Lemma check_prints d n : prints (explain_check_query d n) d (check_printed n).
Proof.
  unfold explain_check_query, check_printed. destruct (nonempty (kq_database n)); apply prints_hdr; emits_tac.
Qed.

Theorem check_count_correct n : p_ok (check_printed n).
Proof.
  unfold p_ok, check_printed. destruct (nonempty (kq_database n)); cbn [p_count p_children length]; len_norm; lia.
Qed.

Definition use_printed (database : list N) : printed :=
  mkPrinted (bytes_of "UseQuery " ++ database) 1 [T_leaf (L_Identifier database)].

Lemma use_prints d db : prints (explain_use_query d db) d (use_printed db).
Proof. apply prints_hdr, emits_leaf. Qed.

Theorem use_count_correct db : p_ok (use_printed db).
Proof. reflexivity. Qed.

(* ---------------------------------------------------------------------------------------- *)
(** * DescribeQuery / ExistsQuery *)

Definition describe_target_tree (n : describe_query) : rose :=
  match dsc_table_expr n with
  | Some t => t
  | None =>
      match dsc_table_function n with
      | Some f => Node L_TableExpression [f]
      | None => Node L_TableExpression
                  [T_leaf (L_TableIdentifier (if nonempty (dsc_database n)
                                              then dsc_database n ++ DOT ++ dsc_table n else dsc_table n))]
      end
  end.

Definition describe_children (n : describe_query) : list rose :=
  describe_target_tree n :: ident_at_trees (dsc_format n) ++ set_trees (pos (dsc_settings n)).

Definition describe_printed (n : describe_query) : printed :=
  mkPrinted L_DescribeQuery (count_describe_children n) (describe_children n).

Lemma describe_tail_emits d n :
  emits (describe_tail d n) (S d) (ident_at_trees (dsc_format n) ++ set_trees (pos (dsc_settings n))).
Proof. unfold describe_tail. emits_tac. Qed.

Lemma describe_prints d n : prints (explain_describe_query d n) d (describe_printed n).
Proof.
  unfold explain_describe_query, describe_printed, describe_children, describe_target_tree.
  destruct (dsc_table_expr n) as [t|].
  - apply prints_hdr. apply (emits_app _ _ _ [t]); [apply emits_node|apply describe_tail_emits].
  - destruct (dsc_table_function n) as [f|]; apply prints_hdr.
    + apply emits_cons_hdr; [reflexivity|apply emits_node|apply describe_tail_emits].
    + apply (emits_cons_hdr (S d) L_TableExpression 1 [leaf (S (S d)) _] [T_leaf _]);
        [reflexivity|apply emits_leaf|apply describe_tail_emits].
Qed.

Theorem describe_count_correct n : p_ok (describe_printed n).
Proof.
  unfold p_ok, describe_printed, count_describe_children, describe_children. cbn [p_count p_children length].
  len_norm. lia.
Qed.

Definition exists_printed (n : exists_query) : printed :=
  match eq_type n with
  | XT_Database =>
      mkPrinted (exists_query_type (eq_type n) ++ SPC ++ eq_table n ++ SPC) (1 + b2n (pos (eq_settings n)))
                (T_leaf (L_Identifier (eq_table n)) :: set_trees (pos (eq_settings n)))
  | _ =>
      mkPrinted (exists_query_type (eq_type n) ++ SPC
                 ++ (if nonempty (eq_database n) then sp2 (eq_database n) (eq_table n) else SPC ++ eq_table n))
                ((if nonempty (eq_database n) then 2 else 1) + b2n (pos (eq_settings n)))
                (ident_at_trees (eq_database n) ++ [T_leaf (L_Identifier (eq_table n))]
                 ++ set_trees (pos (eq_settings n)))
  end.

Lemma exists_prints d n : prints (explain_exists_query d n) d (exists_printed n).
Proof.
  unfold explain_exists_query, exists_printed. destruct (eq_type n); apply prints_hdr; emits_tac.
Qed.

Theorem exists_count_correct n : p_ok (exists_printed n).
Proof.
  unfold p_ok, exists_printed.
  destruct (eq_type n); cbn [p_count p_children length]; len_norm;
    destruct (nonempty (eq_database n)); cbn [b2n]; lia.
Qed.

(* ---------------------------------------------------------------------------------------- *)
(** * ShowQuery *)

Definition show_fallback_printed (n : show_query) : printed :=
  mkPrinted (bytes_of "Show" ++ show_title (hq_type n)) 0 [].

Definition show_create_printed (kind : list N) (with_format : bool) (n : show_query) : printed :=
  let fmt := if with_format then hq_format n else [] in
  let extra := b2n (nonempty fmt) + b2n (hq_has_settings n) in
  if nonempty (hq_database n) && nonempty (hq_from n) then
    mkPrinted (kind ++ SPC ++ sp2 (hq_database n) (hq_from n)) (2 + extra)
              (T_leaf (L_Identifier (hq_database n)) :: T_leaf (L_Identifier (hq_from n))
               :: ident_at_trees fmt ++ set_trees (hq_has_settings n))
  else if nonempty (hq_from n) then
    mkPrinted (kind ++ SPC ++ SPC ++ hq_from n) (1 + extra)
              (T_leaf (L_Identifier (hq_from n)) :: ident_at_trees fmt ++ set_trees (hq_has_settings n))
  else if nonempty (hq_database n) then
    mkPrinted (kind ++ SPC ++ SPC ++ hq_database n) (1 + extra)
              (T_leaf (L_Identifier (hq_database n)) :: ident_at_trees fmt ++ set_trees (hq_has_settings n))
  else show_fallback_printed n.

Definition show_tables_children (n : show_query) : list rose :=
  ident_at_trees (hq_from n) ++ ident_at_trees (hq_format n) ++ set_trees (hq_has_settings n).

Definition show_printed (n : show_query) : printed :=
  match hq_type n with
  | SH_CreateDB =>
      if nonempty (hq_from n) then
        mkPrinted (bytes_of "ShowCreateDatabaseQuery " ++ hq_from n ++ SPC) 1 [T_leaf (L_Identifier (hq_from n))]
      else show_fallback_printed n
  | SH_CreateDictionary => show_create_printed (bytes_of "ShowCreateDictionaryQuery") true n
  | SH_CreateView => show_create_printed (bytes_of "ShowCreateViewQuery") false n
  | SH_Create => show_create_printed (bytes_of "ShowCreateTableQuery") true n
  | SH_CreateUser =>
      mkPrinted (if hq_multiple_users n then bytes_of "SHOW CREATE USERS query" else bytes_of "SHOW CREATE USER query")
                (b2n (nonempty (hq_format n))) (ident_at_trees (hq_format n))
  | SH_Tables | SH_Databases | SH_Dictionaries =>
      mkPrinted L_ShowTables (count_show_tables_children n) (show_tables_children n)
  | _ => show_fallback_printed n
  end.

Lemma show_fallback_prints d n : prints (show_fallback d n) d (show_fallback_printed n).
Proof. apply prints_leaf. Qed.

Lemma show_create_prints d kind wf n :
  prints (show_create_block d kind wf n) d (show_create_printed kind wf n).
Proof.
  unfold show_create_block, show_create_printed.
  destruct (nonempty (hq_database n) && nonempty (hq_from n)); [apply prints_hdr; emits_tac|].
  destruct (nonempty (hq_from n)); [apply prints_hdr; emits_tac|].
  destruct (nonempty (hq_database n)); [apply prints_hdr; emits_tac|apply show_fallback_prints].
Qed.

Lemma show_create_ok kind wf n : p_ok (show_create_printed kind wf n).
Proof.
  unfold p_ok, show_create_printed.
  destruct (nonempty (hq_database n) && nonempty (hq_from n)); [cbn [p_count p_children length]; len_norm; lia|].
  destruct (nonempty (hq_from n)); [cbn [p_count p_children length]; len_norm; lia|].
  destruct (nonempty (hq_database n)); [cbn [p_count p_children length]; len_norm; lia|reflexivity].
Qed.

Lemma show_tables_ok n : count_show_tables_children n = length (show_tables_children n).
Proof. unfold count_show_tables_children, show_tables_children. len_norm. lia. Qed.

Lemma show_tables_prints d n :
  prints (if pos (count_show_tables_children n) then
            hdr d L_ShowTables (count_show_tables_children n)
            :: ident_at (S d) (hq_from n) ++ ident_at (S d) (hq_format n) ++ set_at (S d) (hq_has_settings n)
          else [leaf d L_ShowTables]) d
         (mkPrinted L_ShowTables (count_show_tables_children n) (show_tables_children n)).
Proof.
  destruct (pos (count_show_tables_children n)) eqn:E.
  - apply prints_hdr. unfold show_tables_children. emits_tac.
  - assert (Z : count_show_tables_children n = 0) by (destruct (count_show_tables_children n); [reflexivity|discriminate]).
    unfold prints. cbn [p_label p_count p_children]. rewrite Z.
    pose proof (show_tables_ok n) as L. rewrite Z in L.
    destruct (show_tables_children n); [reflexivity|discriminate].
Qed.

Lemma show_prints d n : prints (explain_show_query d n) d (show_printed n).
Proof.
  unfold explain_show_query, show_printed.
  destruct (hq_type n); try apply show_fallback_prints; try apply show_create_prints;
    try apply show_tables_prints.
  - (* CREATE_DATABASE *)
    destruct (nonempty (hq_from n)); [apply prints_hdr, emits_leaf|apply show_fallback_prints].
  - (* CREATE_USER *)
    unfold ident_at_trees. destruct (nonempty (hq_format n)); [apply prints_hdr, emits_leaf|apply prints_leaf].
Qed.

(* THE count-vs-emit statement for explainShowQuery (all 19 ShowType constants and any other
   string): unconditional *)
Theorem show_count_correct n : p_ok (show_printed n).
Proof.
  unfold show_printed.
  destruct (hq_type n); try reflexivity; try apply show_create_ok; try apply show_tables_ok.
  - destruct (nonempty (hq_from n)); reflexivity.
  - unfold p_ok. cbn [p_count p_children]. len_norm. reflexivity.
Qed.

(* ---------------------------------------------------------------------------------------- *)
(** * SystemQuery *)

Definition system_children (n : system_query) : list rose :=
  ident_at_trees (yq_database n) ++ ident_at_trees (yq_table n)
  ++ when (yq_duplicate n) (ident_at_trees (yq_database n) ++ ident_at_trees (yq_table n))
  ++ set_trees (pos (yq_settings n)).

(* what is beneath the header: nothing when the tally is 0 (the `else` branch prints one line) *)
Definition system_printed (n : system_query) : printed :=
  mkPrinted L_SYSTEM_query (count_system_children n)
            (if pos (count_system_children n) then system_children n else []).

Lemma system_prints d n : prints (explain_system_query d n) d (system_printed n).
Proof.
  unfold explain_system_query, system_printed. destruct (pos (count_system_children n)) eqn:E.
  - apply prints_hdr. unfold system_children. emits_tac.
  - destruct (count_system_children n); [apply prints_leaf|discriminate].
Qed.

(* the tally skips Database / Table for FLUSH LOGS, the emission does not: with SETTINGS (tally 1,
   header printed) the names are printed although not counted *)
Definition inv_system_b (n : system_query) : bool :=
  negb (yq_is_flush_logs n && pos (yq_settings n) && (nonempty (yq_database n) || nonempty (yq_table n))).
Definition inv_system (n : system_query) : Prop := inv_system_b n = true.

(* THE count-vs-emit statement for explainSystemQuery: an equivalence *)
Theorem system_count_correct n : inv_system n <-> p_ok (system_printed n).
Proof.
  unfold inv_system, inv_system_b, p_ok, system_printed, count_system_children, system_children,
    ident_at_trees, set_trees.
  cbn [p_count p_children].
  destruct (yq_is_flush_logs n), (nonempty (yq_database n)), (nonempty (yq_table n)), (yq_duplicate n),
    (pos (yq_settings n)); cbn; iff_tac.
Qed.

(* ---------------------------------------------------------------------------------------- *)
(** * ExplainQuery *)

Definition inv_explain (n : explain_query) : Prop :=
  match ex_statement n with XS_union u _ => inv_union u | XS_other _ => True end.

Definition explained_tree (s : explained_stmt) : rose :=
  match s with
  | XS_union u _ => union_tree u (explain_query_tail u)
  | XS_other o => nilable_tree o
  end.

Definition explain_format_trees (s : explained_stmt) : list rose :=
  match s with
  | XS_union _ f => when (explain_has_format s) [T_leaf (L_Identifier f)]
  | XS_other _ => []
  end.

Definition explain_children (n : explain_query) : list rose :=
  set_trees (ex_has_settings n)
  ++ [explained_tree (ex_statement n)]
  ++ explain_format_trees (ex_statement n)
  ++ set_trees (explain_has_settings_after_format (ex_statement n)).

Definition explain_printed (d : nat) (n : explain_query) : printed :=
  if is_current_transaction (ex_type n) then mkPrinted (explain_label d n) 0 []
  else mkPrinted (explain_label d n) (count_explain_children n) (explain_children n).

Lemma explain_prints d n : inv_explain n -> prints (explain_explain_query d n) d (explain_printed d n).
Proof.
  intros Hi. unfold explain_explain_query, explain_printed.
  destruct (is_current_transaction (ex_type n)); [apply prints_leaf|].
  apply prints_hdr. unfold explain_children, inv_explain in *. repeat apply emits_app.
  - apply set_at_emits.
  - destruct (ex_statement n) as [u f|o]; cbn [explained_tree].
    + apply emits_of_tree. unfold explain_explain_select. apply explain_union_tree, Hi.
    + apply emits_node_nilable.
  - destruct (ex_statement n) as [u f|o]; cbn [explain_format_trees]; [apply emits_when, emits_leaf|apply emits_nil].
  - apply set_at_emits.
Qed.

(* THE count-vs-emit statement for explainExplainQuery: unconditional *)
Theorem explain_count_correct d n : p_ok (explain_printed d n).
Proof.
  unfold p_ok, explain_printed. destruct (is_current_transaction (ex_type n)); [reflexivity|].
  cbn [p_count p_children]. unfold count_explain_children, explain_children, explain_format_trees.
  len_norm. destruct (ex_statement n) as [u f|o]; [rewrite length_when1|]; cbn [explain_has_format b2n length]; lia.
Qed.

(* ---------------------------------------------------------------------------------------- *)
(** * DetachQuery / AttachQuery *)

Definition detach_printed (n : detach_query) : printed :=
  if nonempty (dt_database n) && nonempty (dt_table n) then
    mkPrinted (bytes_of "DetachQuery " ++ sp2 (dt_database n) (dt_table n)) 2
              [T_leaf (L_Identifier (dt_database n)); T_leaf (L_Identifier (dt_table n))]
  else if nonempty (dt_database n) && nonempty (dt_dictionary n) then
    mkPrinted (bytes_of "DetachQuery " ++ sp2 (dt_database n) (dt_dictionary n)) 2
              [T_leaf (L_Identifier (dt_database n)); T_leaf (L_Identifier (dt_dictionary n))]
  else if nonempty (dt_database n) && negb (nonempty (dt_table n)) && negb (nonempty (dt_dictionary n)) then
    mkPrinted (bytes_of "DetachQuery " ++ dt_database n ++ SPC) 1 [T_leaf (L_Identifier (dt_database n))]
  else if nonempty (dt_table n) then
    mkPrinted (bytes_of "DetachQuery  " ++ dt_table n) 1 [T_leaf (L_Identifier (dt_table n))]
  else if nonempty (dt_dictionary n) then
    mkPrinted (bytes_of "DetachQuery  " ++ dt_dictionary n) 1 [T_leaf (L_Identifier (dt_dictionary n))]
  else mkPrinted L_DetachQuery 0 [].

Lemma detach_prints d n : prints (explain_detach_query d n) d (detach_printed n).
Proof.
  unfold explain_detach_query, detach_printed.
  repeat match goal with
         | |- prints (if ?b then _ else _) _ _ => destruct b; [apply prints_hdr; emits_tac|]
         end.
  apply prints_leaf.
Qed.

Theorem detach_count_correct n : p_ok (detach_printed n).
Proof.
  unfold p_ok, detach_printed.
  repeat match goal with
         | |- context [if ?b then mkPrinted _ _ _ else _] => destruct b; [reflexivity|]
         end.
  reflexivity.
Qed.

(* ---- AttachQuery: the sub-tallies ---- *)

Definition attach_inline_pk_trees (n : attach_query) : list rose :=
  if ath_has_empty_columns_primary_key n then [tuple_wrap_tree []]
  else match ath_columns_primary_key n with
       | _ :: _ :: _ => [tuple_wrap_tree (ath_columns_primary_key n)]
       | pks => pks
       end.

Definition attach_columns_children (n : attach_query) : list rose :=
  when (nonempty (ath_columns n)) [T_EL (map column_tree (ath_columns n))]
  ++ when (nonempty (ath_indexes n)) [T_EL (map index_tree (ath_indexes n))]
  ++ when (attach_inline_pk n) (attach_inline_pk_trees n).

Definition attach_columns_tree (n : attach_query) : rose :=
  Node L_Columns_definition (attach_columns_children n).

Lemma length_attach_inline_pk n :
  length (when (attach_inline_pk n) (attach_inline_pk_trees n)) = b2n (attach_inline_pk n).
Proof.
  unfold attach_inline_pk, attach_inline_pk_trees.
  destruct (ath_has_empty_columns_primary_key n); [rewrite orb_true_r; reflexivity|].
  rewrite orb_false_r. destruct (ath_columns_primary_key n) as [|a [|b r]]; reflexivity.
Qed.

(* the columnsChildren sub-tally: unconditional *)
Theorem count_attach_columns_children_correct n :
  count_attach_columns_children n = length (attach_columns_children n).
Proof.
  unfold count_attach_columns_children, attach_columns_children.
  rewrite !app_length, length_attach_inline_pk, !length_when1. lia.
Qed.

Lemma attach_columns_emits d n : emits (explain_attach_columns d n) d [attach_columns_tree n].
Proof.
  unfold explain_attach_columns, attach_columns_tree.
  apply emits_hdr; [apply count_attach_columns_children_correct|].
  unfold attach_columns_children. repeat apply emits_app.
  - apply emits_when, el_of_emits. intros c. apply column_emits.
  - apply emits_when, el_of_emits. intros i. apply index_emits.
  - apply emits_when. unfold attach_inline_pk_trees.
    destruct (ath_has_empty_columns_primary_key n).
    + unfold tuple_wrap_tree. apply emits_hdr; [reflexivity|apply emits_leaf].
    + destruct (ath_columns_primary_key n) as [|a [|b r]];
        [apply emits_nil|apply emits_nodes|apply tuple_wrap_emits].
Qed.

(* the storage block: ORDER BY / PRIMARY KEY members are printed one by one (`for .. { Node }`)
   and counted once *)
Definition attach_storage_children (n : attach_query) : list rose :=
  opt_block engine_tree (ath_engine n)
  ++ opt_list (ath_partition_by n)
  ++ ath_order_by n
  ++ ath_primary_key n
  ++ set_trees (pos (ath_settings n)).

Definition attach_storage_printed (n : attach_query) : printed :=
  mkPrinted L_Storage_definition (count_attach_storage_children n) (attach_storage_children n).

Lemma attach_storage_prints d n : prints (explain_attach_storage d n) d (attach_storage_printed n).
Proof.
  apply prints_hdr. unfold attach_storage_children. repeat apply emits_app.
  - apply emits_opt_block. intros e. apply engine_emits.
  - apply emits_opt_node.
  - apply emits_nodes.
  - apply emits_nodes.
  - apply set_at_emits.
Qed.

Definition le1 {A} (l : list A) : bool := match l with _ :: _ :: _ => false | _ => true end.

Definition inv_attach_storage_b (n : attach_query) : bool := le1 (ath_order_by n) && le1 (ath_primary_key n).

Lemma le1_length {A} (l : list A) : le1 l = true <-> length l = b2n (nonempty l).
Proof. destruct l as [|a [|b r]]; cbn; split; intros H; first [reflexivity|discriminate|lia]. Qed.

Lemma le1_length_le {A} (l : list A) : b2n (nonempty l) <= length l.
Proof. destruct l; cbn; lia. Qed.

(* the storageChildren sub-tally: an equivalence *)
Theorem attach_storage_count_correct n : inv_attach_storage_b n = true <-> p_ok (attach_storage_printed n).
Proof.
  unfold inv_attach_storage_b, p_ok, attach_storage_printed, count_attach_storage_children,
    attach_storage_children. cbn [p_count p_children]. len_norm.
  rewrite andb_true_iff, !le1_length.
  pose proof (le1_length_le (ath_order_by n)). pose proof (le1_length_le (ath_primary_key n)). lia.
Qed.

(* ---- AttachQuery: the main tally ---- *)

Definition attach_storage_piece (n : attach_query) : list rose :=
  when (attach_has_storage n)
       [if ath_is_materialized_view n then Node L_ViewTargets [p_tree (attach_storage_printed n)]
        else p_tree (attach_storage_printed n)].

Definition attach_rest_trees (n : attach_query) : list rose :=
  when (attach_has_columns n) [attach_columns_tree n]
  ++ opt_list (ath_select_query n)
  ++ attach_storage_piece n.

Lemma attach_rest_emits d n :
  inv_attach_storage_b n = true -> emits (explain_attach_rest d n) (S d) (attach_rest_trees n).
Proof.
  intros Hs. apply attach_storage_count_correct in Hs.
  unfold explain_attach_rest, attach_rest_trees, attach_storage_piece. repeat apply emits_app.
  - apply emits_when, attach_columns_emits.
  - apply emits_opt_node.
  - apply emits_when. destruct (ath_is_materialized_view n).
    + apply emits_hdr; [reflexivity|]. apply (prints_emits _ _ _ (attach_storage_prints _ n) Hs).
    + apply (prints_emits _ _ _ (attach_storage_prints _ n) Hs).
Qed.

Definition attach_printed (n : attach_query) : printed :=
  if nonempty (ath_database n) && nonempty (ath_table n) then
    mkPrinted (bytes_of "AttachQuery " ++ sp2 (ath_database n) (ath_table n)) (count_attach_children n)
              (T_leaf (L_Identifier (ath_database n)) :: T_leaf (L_Identifier (ath_table n)) :: attach_rest_trees n)
  else if nonempty (ath_database n) && nonempty (ath_dictionary n) then
    mkPrinted (bytes_of "AttachQuery " ++ sp2 (ath_database n) (ath_dictionary n)) (count_attach_children n)
              [T_leaf (L_Identifier (ath_database n)); T_leaf (L_Identifier (ath_dictionary n))]
  else if nonempty (ath_database n) && negb (nonempty (ath_table n)) && negb (nonempty (ath_dictionary n)) then
    mkPrinted (bytes_of "AttachQuery " ++ ath_database n ++ SPC) (count_attach_children n)
              (T_leaf (L_Identifier (ath_database n)) :: attach_rest_trees n)
  else if nonempty (ath_table n) then
    mkPrinted (bytes_of "AttachQuery " ++ ath_table n) (count_attach_children n)
              (T_leaf (L_Identifier (ath_table n)) :: attach_rest_trees n)
  else if nonempty (ath_dictionary n) then
    mkPrinted (bytes_of "AttachQuery " ++ ath_dictionary n) (count_attach_children n)
              [T_leaf (L_Identifier (ath_dictionary n))]
  else mkPrinted L_AttachQuery 0 [].

(* the storage sub-block is a tree (needed for the forest form of the whole statement) *)
Lemma attach_prints d n :
  inv_attach_storage_b n = true -> prints (explain_attach_query d n) d (attach_printed n).
Proof.
  intros Hs. pose proof (attach_rest_emits d n Hs) as Hr.
  unfold explain_attach_query, attach_printed.
  repeat match goal with
         | |- prints (if ?b then _ else _) _ _ =>
             destruct b; [apply prints_hdr; repeat apply emits_cons_leaf; first [exact Hr|apply emits_leaf|apply emits_nil]|]
         end.
  apply prints_leaf.
Qed.

(* the dictionary branches return after the names: whatever else was counted is not printed *)
Definition attach_is_dictionary_branch (n : attach_query) : bool :=
  negb (nonempty (ath_table n)) && nonempty (ath_dictionary n).

Definition inv_attach_count_b (n : attach_query) : bool :=
  negb (attach_is_dictionary_branch n)
  || negb (attach_has_columns n || is_some (ath_select_query n) || attach_has_storage n).

Definition inv_attach_count (n : attach_query) : Prop := inv_attach_count_b n = true.

Lemma length_attach_rest n :
  length (attach_rest_trees n)
  = b2n (attach_has_columns n) + b2n (is_some (ath_select_query n)) + b2n (attach_has_storage n).
Proof. unfold attach_rest_trees, attach_storage_piece. len_norm. lia. Qed.

(* THE count-vs-emit statement for the main tally of explainAttachQuery: an equivalence *)
Theorem attach_count_correct n : inv_attach_count n <-> p_ok (attach_printed n).
Proof.
  unfold inv_attach_count, inv_attach_count_b, attach_is_dictionary_branch, p_ok, attach_printed,
    count_attach_children.
  destruct (nonempty (ath_database n)), (nonempty (ath_table n)), (nonempty (ath_dictionary n));
    cbn [andb orb negb p_count p_children length]; rewrite ?length_attach_rest;
    destruct (attach_has_columns n), (is_some (ath_select_query n)), (attach_has_storage n);
    cbn [b2n orb negb]; iff_tac.
Qed.

Definition inv_attach (n : attach_query) : Prop := inv_attach_storage_b n = true /\ inv_attach_count n.

Theorem explain_attach_query_tree d n :
  inv_attach n -> nrm (explain_attach_query d n) = render d (p_tree (attach_printed n)).
Proof.
  intros [Hs Hc]. eapply prints_tree; [apply attach_prints, Hs|apply attach_count_correct, Hc].
Qed.

(* ---------------------------------------------------------------------------------------- *)
(** * BackupQuery / RestoreQuery / KillQuery *)

Definition backup_children (n : backup_query) : list rose :=
  opt_block target_tree (bq_target n) ++ ident_at_trees (bq_format n).

Definition backup_printed (lab : list N) (n : backup_query) : printed :=
  mkPrinted lab (count_backup_children n) (backup_children n).

Lemma backup_prints lab d n : prints (explain_backup_like lab d n) d (backup_printed lab n).
Proof.
  apply prints_hdr_pos. unfold backup_children. apply emits_app; [|apply ident_at_emits].
  apply emits_opt_block. intros f. apply target_function_emits.
Qed.

Theorem backup_count_correct lab n : p_ok (backup_printed lab n).
Proof. unfold p_ok, backup_printed, count_backup_children, backup_children. cbn [p_count p_children]. len_norm. lia. Qed.

Definition kill_children (n : kill_query) : list rose :=
  (match kl_where n with Some (_, t) => [t] | None => [] end)
  ++ ident_at_trees (kl_format n) ++ set_trees (pos (kl_settings n)).

Definition kill_printed (n : kill_query) : printed :=
  mkPrinted (match kl_where n with
             | Some (f, _) => bytes_of "KillQueryQuery " ++ sp2 f (kill_mode n)
             | None => bytes_of "KillQueryQuery " ++ kill_mode n
             end)
            (count_kill_children n) (kill_children n).

Lemma kill_prints d n : prints (explain_kill_query d n) d (kill_printed n).
Proof.
  apply prints_hdr. unfold kill_children. apply emits_app; [|emits_tac].
  destruct (kl_where n) as [[f t]|]; [apply emits_node|apply emits_nil].
Qed.

Theorem kill_count_correct n : p_ok (kill_printed n).
Proof.
  unfold p_ok, kill_printed, count_kill_children, kill_children. cbn [p_count p_children]. len_norm.
  destruct (kl_where n) as [[f t]|]; cbn [is_some b2n length]; lia.
Qed.

(* ---------------------------------------------------------------------------------------- *)
(** * CreateIndexQuery *)

Definition empty_tuple_tree : rose := tuple_wrap_tree [].

Lemma empty_tuple_emits d : emits (empty_tuple_lines d) d [empty_tuple_tree].
Proof. unfold empty_tuple_lines, empty_tuple_tree, tuple_wrap_tree. apply emits_hdr; [reflexivity|apply emits_leaf]. Qed.

(* the condition under which the "Index" sub-block is a tree: several unparenthesised columns are
   printed at the depth of their ExpressionList line instead of beneath it *)
Definition inv_create_index_b (n : create_index_query) : bool :=
  ci_columns_parenthesized n || le1 (ci_columns n).
Definition inv_create_index (n : create_index_query) : Prop := inv_create_index_b n = true.

Definition create_index_columns_tree (n : create_index_query) : rose :=
  if ci_columns_parenthesized n then
    match ci_columns n with
    | [k] => key_ident_or_node k
    | _ => empty_tuple_tree
    end
  else match ci_columns n with
       | [k] => k_tree k
       | _ => empty_tuple_tree       (* [] under inv_create_index *)
       end.

Definition create_index_index_tree (n : create_index_query) : rose :=
  Node L_Index (create_index_columns_tree n
                :: when (nonempty (ci_type n)) [Node (L_Function (ci_type n)) [T_leaf L_ExpressionList]]).

Definition create_index_printed (n : create_index_query) : printed :=
  mkPrinted (bytes_of "CreateIndexQuery  " ++ ci_table n) 3
            [T_leaf (L_Identifier (ci_index_name n)); create_index_index_tree n; T_leaf (L_Identifier (ci_table n))].

Lemma create_index_prints d n :
  inv_create_index n -> prints (explain_create_index_query d n) d (create_index_printed n).
Proof.
  unfold inv_create_index, inv_create_index_b. intros Hi.
  unfold explain_create_index_query, create_index_printed. apply prints_hdr.
  apply emits_cons_leaf.
  rewrite app_assoc.
  unfold create_index_index_tree.
  apply emits_cons_hdr; [rewrite length_when1 || cbn [length]; destruct (nonempty (ci_type n)); reflexivity| |apply emits_leaf].
  apply (emits_app _ _ _ [create_index_columns_tree n]).
  - unfold create_index_columns_tree. destruct (ci_columns_parenthesized n).
    + destruct (ci_columns n) as [|k [|k2 r]]; [apply empty_tuple_emits| |apply empty_tuple_emits].
      apply key_ident_or_node_emits.
    + destruct (ci_columns n) as [|k [|k2 r]]; [apply empty_tuple_emits|apply emits_node|discriminate Hi].
  - apply emits_when. apply emits_hdr; [reflexivity|apply emits_leaf].
Qed.

Theorem create_index_count_correct n : p_ok (create_index_printed n).
Proof. reflexivity. Qed.

(* ---------------------------------------------------------------------------------------- *)
(** * Assignment / UpdateQuery / ParallelWithQuery *)

Definition assignment_printed (a : assignment) : printed :=
  mkPrinted (L_Assignment (as_column a)) 1 (opt_list (as_value a)).

Lemma assignment_prints d a : prints (explain_assignment d a) d (assignment_printed a).
Proof. apply prints_hdr, emits_opt_node. Qed.

(* "(children 1)" is printed whatever n.Value is *)
Definition inv_assignment (a : assignment) : Prop := is_some (as_value a) = true.

Theorem assignment_count_correct a : inv_assignment a <-> p_ok (assignment_printed a).
Proof.
  unfold inv_assignment, p_ok, assignment_printed. cbn [p_count p_children]. rewrite length_opt_list.
  destruct (as_value a); cbn; iff_tac.
Qed.

Definition update_children (n : update_query) : list rose :=
  T_leaf (L_Identifier (pq_table n)) :: opt_list (pq_where n)
  ++ [T_EL (map (fun a => p_tree (assignment_printed a)) (pq_assignments n))].

Definition update_printed (n : update_query) : printed :=
  mkPrinted (if nonempty (pq_database n) then bytes_of "UpdateQuery " ++ sp2 (pq_database n) (pq_table n)
             else bytes_of "UpdateQuery  " ++ pq_table n) 3 (update_children n).

(* the assignments block is a tree when every assignment has a value *)
Definition inv_update_assignments (n : update_query) : Prop := Forall inv_assignment (pq_assignments n).

Lemma update_prints d n :
  inv_update_assignments n -> prints (explain_update_query d n) d (update_printed n).
Proof.
  intros Ha. unfold explain_update_query, update_printed. apply prints_hdr. unfold update_children.
  apply emits_cons_leaf. apply emits_app; [apply emits_opt_node|].
  unfold T_EL. apply emits_hdr; [symmetry; apply map_length|].
  apply emits_flat_map_in. intros a Hin. apply (prints_emits _ _ _ (assignment_prints _ a)).
  apply assignment_count_correct. unfold inv_update_assignments in Ha. rewrite Forall_forall in Ha. apply Ha, Hin.
Qed.

(* `children := 3`: identifier, WHERE, assignments -- the WHERE is printed only when non-nil *)
Definition inv_update_count (n : update_query) : Prop := is_some (pq_where n) = true.

Theorem update_count_correct n : inv_update_count n <-> p_ok (update_printed n).
Proof.
  unfold inv_update_count, p_ok, update_printed, update_children. cbn [p_count p_children length].
  len_norm. destruct (pq_where n); cbn; iff_tac.
Qed.

Definition inv_update (n : update_query) : Prop := inv_update_assignments n /\ inv_update_count n.

Definition parallel_printed (n : parallel_with_query) : printed :=
  match pw_statements n with
  | [] => mkPrinted L_ParallelWithQuery 0 []
  | _ => mkPrinted (L_ParallelWithQuery ++ SPC ++ sp2 (dec_nat (length (pw_statements n))) (pw_name n))
                   (length (pw_statements n)) (map nilable_tree (pw_statements n))
  end.

Lemma parallel_prints d n : prints (explain_parallel_with_query d n) d (parallel_printed n).
Proof.
  unfold explain_parallel_with_query, parallel_printed.
  destruct (pw_statements n) as [|s r] eqn:E; [apply prints_leaf|]. rewrite <- E.
  apply prints_hdr. apply emits_flat_map. intros o. apply emits_node_nilable.
Qed.

Theorem parallel_count_correct n : p_ok (parallel_printed n).
Proof.
  unfold p_ok, parallel_printed. destruct (pw_statements n) as [|s r] eqn:E; [reflexivity|]. rewrite <- E.
  cbn [p_count p_children]. rewrite map_length. reflexivity.
Qed.

(* ---------------------------------------------------------------------------------------- *)
(** * The statements printed inline by Node *)

Lemma single_line_prints d lab : prints (explain_single_line d lab) d (mkPrinted lab 0 []).
Proof. apply prints_leaf. Qed.

Definition format_child_printed (lab1 lab0 format : list N) : printed :=
  if nonempty format then mkPrinted lab1 1 [T_leaf (L_Identifier format)] else mkPrinted lab0 0 [].

Lemma format_child_prints d lab1 lab0 f :
  prints (explain_format_child d lab1 lab0 f) d (format_child_printed lab1 lab0 f).
Proof.
  unfold explain_format_child, format_child_printed. destruct (nonempty f); [apply prints_hdr, emits_leaf|apply prints_leaf].
Qed.

Theorem format_child_count_correct lab1 lab0 f : p_ok (format_child_printed lab1 lab0 f).
Proof. unfold format_child_printed. destruct (nonempty f); reflexivity. Qed.

Definition create_resource_printed (name : list N) : printed :=
  mkPrinted (bytes_of "CreateResourceQuery " ++ name) 1 [T_leaf (L_Identifier name)].

Lemma create_resource_prints d name : prints (explain_create_resource d name) d (create_resource_printed name).
Proof. apply prints_hdr, emits_leaf. Qed.

Definition create_workload_printed (name parent : list N) : printed :=
  if nonempty parent then
    mkPrinted (bytes_of "CreateWorkloadQuery " ++ name) 2 [T_leaf (L_Identifier name); T_leaf (L_Identifier parent)]
  else mkPrinted (bytes_of "CreateWorkloadQuery " ++ name) 1 [T_leaf (L_Identifier name)].

Lemma create_workload_prints d name parent :
  prints (explain_create_workload d name parent) d (create_workload_printed name parent).
Proof.
  unfold explain_create_workload, create_workload_printed. destruct (nonempty parent); apply prints_hdr; emits_tac.
Qed.

Theorem create_workload_count_correct name parent : p_ok (create_workload_printed name parent).
Proof. unfold create_workload_printed. destruct (nonempty parent); reflexivity. Qed.

(* ---------------------------------------------------------------------------------------- *)
(** * dictionary.go *)

Definition dict_attr_children (a : dict_attr) : list rose :=
  opt_list (da_type a) ++ opt_list (da_default a) ++ opt_list (da_expression a).

Definition dict_attr_printed (a : dict_attr) : printed :=
  mkPrinted (bytes_of "DictionaryAttributeDeclaration " ++ da_name a) (count_dict_attr_children a) (dict_attr_children a).

Lemma dict_attr_prints d a : prints (explain_dict_attr d a) d (dict_attr_printed a).
Proof. apply prints_hdr_pos. unfold dict_attr_children. emits_tac. Qed.

Theorem dict_attr_count_correct a : p_ok (dict_attr_printed a).
Proof. unfold p_ok, dict_attr_printed, count_dict_attr_children, dict_attr_children. cbn [p_count p_children]. len_norm. lia. Qed.

Definition kv_pair_tree (v : option rose) : rose := Node L_pair (opt_list v).

Lemma kv_pair_emits d v : emits (explain_kv_pair d v) d [kv_pair_tree v].
Proof.
  destruct v as [t|]; [|apply emits_leaf]. apply emits_hdr; [reflexivity|apply emits_node].
Qed.

Definition kv_list_tree (args : list (option rose)) : rose := T_EL (map kv_pair_tree args).

Lemma kv_list_emits d args :
  emits (if nonempty args
         then hdr d L_ExpressionList (length args) :: flat_map (explain_kv_pair (S d)) args
         else [leaf d L_ExpressionList]) d [kv_list_tree args].
Proof.
  unfold kv_list_tree. destruct args as [|a r]; [apply emits_leaf|]. cbn [nonempty].
  apply el_of_emits. intros v. apply kv_pair_emits.
Qed.

Definition dict_source_tree (s : dict_source) : rose :=
  Node (bytes_of "FunctionWithKeyValueArguments  " ++ ds_type s) [kv_list_tree (ds_args s)].

Lemma dict_source_emits d s : emits (explain_dict_source d s) d [dict_source_tree s].
Proof. apply emits_hdr; [reflexivity|apply kv_list_emits]. Qed.

Definition dict_layout_tree (args : list (option rose)) : rose := Node L_Dictionary_layout [kv_list_tree args].

Lemma dict_layout_emits d args : emits (explain_dict_layout d args) d [dict_layout_tree args].
Proof.
  unfold explain_dict_layout, dict_layout_tree.
  destruct args as [|a r] eqn:E.
  - apply emits_hdr; [reflexivity|apply emits_leaf].
  - rewrite <- E. assert (Hn : nonempty args = true) by (rewrite E; reflexivity). rewrite Hn.
    apply emits_hdr; [reflexivity|]. pose proof (kv_list_emits (S d) args) as K. rewrite Hn in K. exact K.
Qed.

Definition dict_definition_children (n : dict_definition) : list rose :=
  when (nonempty (dd_primary_key n)) [T_EL (dd_primary_key n)]
  ++ opt_block dict_source_tree (dd_source n)
  ++ when (dd_lifetime n) [T_leaf L_Dictionary_lifetime]
  ++ opt_block dict_layout_tree (dd_layout n)
  ++ when (dd_range n) [T_leaf L_Dictionary_range]
  ++ when (pos (dd_settings n)) [T_leaf L_Dictionary_settings].

Definition dict_definition_printed (n : dict_definition) : printed :=
  mkPrinted L_Dictionary_definition (count_dict_definition_children n) (dict_definition_children n).

Lemma dict_definition_prints d n : prints (explain_dict_definition d n) d (dict_definition_printed n).
Proof.
  apply prints_hdr_pos. unfold dict_definition_children. repeat apply emits_app.
  - apply emits_when, expr_list_emits.
  - apply emits_opt_block. intros s. apply dict_source_emits.
  - apply emits_when, emits_leaf.
  - apply emits_opt_block. intros a. apply dict_layout_emits.
  - apply emits_when, emits_leaf.
  - apply emits_when, emits_leaf.
Qed.

Theorem dict_definition_count_correct n : p_ok (dict_definition_printed n).
Proof.
  unfold p_ok, dict_definition_printed, count_dict_definition_children, dict_definition_children.
  cbn [p_count p_children]. len_norm. lia.
Qed.

(* ---------------------------------------------------------------------------------------- *)
(** * tables.go *)

Definition tables_printed (tables : list rose) : printed :=
  mkPrinted L_TablesInSelectQuery (length tables) tables.

Lemma tables_prints d ts : prints (explain_tables_in_select_query d ts) d (tables_printed ts).
Proof. apply prints_hdr, emits_nodes. Qed.

Definition array_join_tree (cols : list rose) : rose := Node L_ArrayJoin [T_EL cols].

Lemma array_join_emits d cols : emits (explain_array_join d cols) d [array_join_tree cols].
Proof.
  unfold explain_array_join, array_join_tree. apply emits_hdr; [reflexivity|].
  unfold T_EL. apply emits_hdr_pos; [reflexivity|apply emits_nodes].
Qed.

Definition element_printed (e : tables_element) : printed :=
  match el_array_join e with
  | Some cols => mkPrinted L_TablesInSelectQueryElement 1 [array_join_tree cols]
  | None => mkPrinted L_TablesInSelectQueryElement (count_element_children e)
                      (opt_list (el_table e) ++ opt_list (el_join e))
  end.

Lemma element_prints d e : prints (explain_tables_element d e) d (element_printed e).
Proof.
  unfold explain_tables_element, element_printed. destruct (el_array_join e) as [cols|]; apply prints_hdr.
  - apply array_join_emits.
  - emits_tac.
Qed.

(* `if children == 0 { children = 1 } // Fallback`: nothing is printed for it *)
Definition inv_element_b (e : tables_element) : bool :=
  is_some (el_array_join e) || is_some (el_table e) || is_some (el_join e).
Definition inv_element (e : tables_element) : Prop := inv_element_b e = true.

Theorem element_count_correct e : inv_element e <-> p_ok (element_printed e).
Proof.
  unfold inv_element, inv_element_b, p_ok, element_printed, count_element_children.
  destruct (el_array_join e), (el_table e), (el_join e); cbn; iff_tac.
Qed.

Definition view_explain_tree (v : view_explain) : rose :=
  Node L_Subquery
    [Node L_SelectWithUnionQuery
       [T_EL
          [Node L_SelectQuery
             [T_EL [T_leaf L_Asterisk];
              Node L_TablesInSelectQuery
                [Node L_TablesInSelectQueryElement
                   [Node L_TableExpression
                      [Node (bytes_of "Function viewExplain")
                         [T_EL [T_leaf (L_Literal_q (ve_type_str v)); T_leaf (L_Literal_q (ve_options v));
                                Node L_Subquery [nilable_tree (ve_statement v)]]]]]]]]]].

Lemma view_explain_emits d v : emits (explain_view_explain d v) d [view_explain_tree v].
Proof.
  unfold explain_view_explain, view_explain_tree, T_EL. cbn [app].
  apply emits_hdr; [reflexivity|].              (* Subquery *)
  apply emits_hdr; [reflexivity|].              (* SelectWithUnionQuery *)
  apply emits_hdr; [reflexivity|].              (* ExpressionList *)
  apply emits_hdr; [reflexivity|].              (* SelectQuery (children 2) *)
  apply (emits_cons_hdr _ L_ExpressionList 1 [leaf _ L_Asterisk] [T_leaf L_Asterisk]);
    [reflexivity|apply emits_leaf|].
  apply emits_hdr; [reflexivity|].              (* TablesInSelectQuery *)
  apply emits_hdr; [reflexivity|].              (* TablesInSelectQueryElement *)
  apply emits_hdr; [reflexivity|].              (* TableExpression *)
  apply emits_hdr; [reflexivity|].              (* Function viewExplain *)
  apply emits_hdr; [reflexivity|].              (* ExpressionList (children 3) *)
  apply emits_cons_leaf. apply emits_cons_leaf.
  apply emits_hdr; [reflexivity|apply emits_node_nilable].
Qed.

Definition table_view_tree (n : table_expression) : rose :=
  match tx_table n with
  | TV_subquery_explain v => view_explain_tree v
  | TV_subquery self q =>
      if nonempty (tx_alias n) then Node (L_Subquery ++ alias_suffix (tx_alias n)) [nilable_tree q] else self
  | TV_function self wa => if nonempty (tx_alias n) then wa else self
  | TV_identifier nm =>
      if nonempty (tx_alias n) then T_leaf (L_TableIdentifier nm ++ alias_suffix (tx_alias n))
      else T_leaf (L_TableIdentifier nm)
  | TV_other o => nilable_tree o
  end.

Definition sample_trees (s : sample_clause) : list rose :=
  T_leaf (L_SampleRatio (sm_ratio s))
  :: (match sm_offset s with Some o => [T_leaf (L_SampleRatio o)] | None => [] end).

Definition table_expression_children (n : table_expression) : list rose :=
  table_view_tree n :: (match tx_sample n with Some s => sample_trees s | None => [] end).

Definition table_expression_printed (n : table_expression) : printed :=
  mkPrinted L_TableExpression (count_table_expression_children n) (table_expression_children n).

Lemma table_expression_prints d n :
  prints (explain_table_expression d n) d (table_expression_printed n).
Proof.
  apply prints_hdr. unfold table_expression_children.
  apply (emits_app _ _ _ [table_view_tree n]).
  - unfold table_view_tree. destruct (tx_table n) as [v|self q|self wa|nm|o].
    + apply view_explain_emits.
    + destruct (nonempty (tx_alias n)); [|apply emits_node].
      apply emits_hdr; [reflexivity|apply emits_node_nilable].
    + destruct (nonempty (tx_alias n)); apply emits_node.
    + destruct (nonempty (tx_alias n)); apply emits_leaf.
    + apply emits_node_nilable.
  - destruct (tx_sample n) as [s|]; [|apply emits_nil].
    unfold explain_sample_clause, sample_trees. apply emits_cons_leaf.
    destruct (sm_offset s); [apply emits_leaf|apply emits_nil].
Qed.

Theorem table_expression_count_correct n : p_ok (table_expression_printed n).
Proof.
  unfold p_ok, table_expression_printed, count_table_expression_children, table_expression_children, sample_trees.
  cbn [p_count p_children length]. destruct (tx_sample n) as [s|]; [destruct (sm_offset s)|]; reflexivity.
Qed.

Definition table_join_children (n : table_join) : list rose :=
  opt_list (tj_on n) ++ opt_block T_EL (tj_using n).

Definition table_join_printed (n : table_join) : printed :=
  mkPrinted L_TableJoin (count_table_join_children n) (table_join_children n).

Lemma table_join_prints d n : prints (explain_table_join d n) d (table_join_printed n).
Proof.
  apply prints_hdr_pos. unfold table_join_children. apply emits_app; [apply emits_opt_node|].
  apply (emits_opt_block (fun us => if nonempty us then expr_list (S d) us else [leaf (S d) L_ExpressionList])).
  intros us. destruct us as [|u r]; [apply emits_leaf|apply expr_list_emits].
Qed.

Theorem table_join_count_correct n : p_ok (table_join_printed n).
Proof.
  unfold p_ok, table_join_printed, count_table_join_children, table_join_children. cbn [p_count p_children].
  len_norm. reflexivity.
Qed.

(* ---------------------------------------------------------------------------------------- *)
(** * Per printer: tree, header = direct children, check_lines (through the generic lemmas) *)

Corollary insert_tree d (n : insert_query) : inv_insert n -> nrm (explain_insert_query d n) = render d (p_tree (insert_printed n)).
Proof. intros Hs. exact (prints_tree _ _ _ (insert_prints d n Hs) (count_insert_children_correct n)). Qed.
Corollary insert_counts_agree d (n : insert_query) : inv_insert n -> header_count (explain_insert_query d n) = direct_children (explain_insert_query d n).
Proof. intros Hs. exact (proj2 (prints_counts_iff _ _ _ (insert_prints d n Hs)) (count_insert_children_correct n)). Qed.
Corollary insert_check (n : insert_query) : inv_insert n -> check_lines (explain_insert_query 0 n) = true.
Proof. intros Hs. exact (prints_check _ _ (insert_prints 0 n Hs) (count_insert_children_correct n)). Qed.

Corollary drop_tree d (n : drop_query) : nrm (explain_drop_query d n) = render d (p_tree (drop_printed n)).
Proof. exact (prints_tree _ _ _ (drop_prints d n) (drop_count_correct n)). Qed.
Corollary drop_counts_agree d (n : drop_query) : header_count (explain_drop_query d n) = direct_children (explain_drop_query d n).
Proof. exact (proj2 (prints_counts_iff _ _ _ (drop_prints d n)) (drop_count_correct n)). Qed.
Corollary drop_check (n : drop_query) : check_lines (explain_drop_query 0 n) = true.
Proof. exact (prints_check _ _ (drop_prints 0 n) (drop_count_correct n)). Qed.

Corollary undrop_tree d (n : undrop_query) : nrm (explain_undrop_query d n) = render d (p_tree (undrop_printed n)).
Proof. exact (prints_tree _ _ _ (undrop_prints d n) (undrop_count_correct n)). Qed.
Corollary undrop_counts_agree d (n : undrop_query) : header_count (explain_undrop_query d n) = direct_children (explain_undrop_query d n).
Proof. exact (proj2 (prints_counts_iff _ _ _ (undrop_prints d n)) (undrop_count_correct n)). Qed.
Corollary undrop_check (n : undrop_query) : check_lines (explain_undrop_query 0 n) = true.
Proof. exact (prints_check _ _ (undrop_prints 0 n) (undrop_count_correct n)). Qed.

Corollary rename_tree d (n : rename_query) : inv_rename n -> nrm (explain_rename_query d n) = render d (p_tree (rename_printed n)).
Proof. intros Hc. exact (prints_tree _ _ _ (rename_prints d n) (proj1 (rename_count_correct n) Hc)). Qed.
Corollary rename_counts_agree_iff d (n : rename_query) : header_count (explain_rename_query d n) = direct_children (explain_rename_query d n) <-> inv_rename n.
Proof. rewrite (prints_counts_iff _ _ _ (rename_prints d n)). symmetry. apply rename_count_correct. Qed.
Corollary rename_check (n : rename_query) : inv_rename n -> check_lines (explain_rename_query 0 n) = true.
Proof. intros Hc. exact (prints_check _ _ (rename_prints 0 n) (proj1 (rename_count_correct n) Hc)). Qed.
Corollary rename_not_tree d (n : rename_query) : ~ inv_rename n -> forall d' t, nrm (explain_rename_query d n) <> render d' t.
Proof. intros Hn. apply (prints_not_tree _ _ _ (rename_prints d n)). intros Hk. apply Hn. apply rename_count_correct. exact Hk. Qed.

Corollary exchange_tree d (n : exchange_query) : nrm (explain_exchange_query d n) = render d (p_tree (exchange_printed n)).
Proof. exact (prints_tree _ _ _ (exchange_prints d n) (exchange_count_correct n)). Qed.
Corollary exchange_counts_agree d (n : exchange_query) : header_count (explain_exchange_query d n) = direct_children (explain_exchange_query d n).
Proof. exact (proj2 (prints_counts_iff _ _ _ (exchange_prints d n)) (exchange_count_correct n)). Qed.
Corollary exchange_check (n : exchange_query) : check_lines (explain_exchange_query 0 n) = true.
Proof. exact (prints_check _ _ (exchange_prints 0 n) (exchange_count_correct n)). Qed.

Corollary truncate_tree d (n : truncate_query) : nrm (explain_truncate_query d n) = render d (p_tree (truncate_printed n)).
Proof. exact (prints_tree _ _ _ (truncate_prints d n) (truncate_count_correct n)). Qed.
Corollary truncate_counts_agree d (n : truncate_query) : header_count (explain_truncate_query d n) = direct_children (explain_truncate_query d n).
Proof. exact (proj2 (prints_counts_iff _ _ _ (truncate_prints d n)) (truncate_count_correct n)). Qed.
Corollary truncate_check (n : truncate_query) : check_lines (explain_truncate_query 0 n) = true.
Proof. exact (prints_check _ _ (truncate_prints 0 n) (truncate_count_correct n)). Qed.

Corollary optimize_tree d (n : optimize_query) : nrm (explain_optimize_query d n) = render d (p_tree (optimize_printed n)).
Proof. exact (prints_tree _ _ _ (optimize_prints d n) (optimize_count_correct n)). Qed.
Corollary optimize_counts_agree d (n : optimize_query) : header_count (explain_optimize_query d n) = direct_children (explain_optimize_query d n).
Proof. exact (proj2 (prints_counts_iff _ _ _ (optimize_prints d n)) (optimize_count_correct n)). Qed.
Corollary optimize_check (n : optimize_query) : check_lines (explain_optimize_query 0 n) = true.
Proof. exact (prints_check _ _ (optimize_prints 0 n) (optimize_count_correct n)). Qed.

Corollary delete_tree d (n : delete_query) : nrm (explain_delete_query d n) = render d (p_tree (delete_printed n)).
Proof. exact (prints_tree _ _ _ (delete_prints d n) (delete_count_correct n)). Qed.
Corollary delete_counts_agree d (n : delete_query) : header_count (explain_delete_query d n) = direct_children (explain_delete_query d n).
Proof. exact (proj2 (prints_counts_iff _ _ _ (delete_prints d n)) (delete_count_correct n)). Qed.
Corollary delete_check (n : delete_query) : check_lines (explain_delete_query 0 n) = true.
Proof. exact (prints_check _ _ (delete_prints 0 n) (delete_count_correct n)). Qed.

Corollary check_tree d (n : check_query) : nrm (explain_check_query d n) = render d (p_tree (check_printed n)).
Proof. exact (prints_tree _ _ _ (check_prints d n) (check_count_correct n)). Qed.
Corollary check_counts_agree d (n : check_query) : header_count (explain_check_query d n) = direct_children (explain_check_query d n).
Proof. exact (proj2 (prints_counts_iff _ _ _ (check_prints d n)) (check_count_correct n)). Qed.
Corollary check_check (n : check_query) : check_lines (explain_check_query 0 n) = true.
Proof. exact (prints_check _ _ (check_prints 0 n) (check_count_correct n)). Qed.

Corollary use_tree d (db : list N) : nrm (explain_use_query d db) = render d (p_tree (use_printed db)).
Proof. exact (prints_tree _ _ _ (use_prints d db) (use_count_correct db)). Qed.
Corollary use_counts_agree d (db : list N) : header_count (explain_use_query d db) = direct_children (explain_use_query d db).
Proof. exact (proj2 (prints_counts_iff _ _ _ (use_prints d db)) (use_count_correct db)). Qed.
Corollary use_check (db : list N) : check_lines (explain_use_query 0 db) = true.
Proof. exact (prints_check _ _ (use_prints 0 db) (use_count_correct db)). Qed.

Corollary describe_tree d (n : describe_query) : nrm (explain_describe_query d n) = render d (p_tree (describe_printed n)).
Proof. exact (prints_tree _ _ _ (describe_prints d n) (describe_count_correct n)). Qed.
Corollary describe_counts_agree d (n : describe_query) : header_count (explain_describe_query d n) = direct_children (explain_describe_query d n).
Proof. exact (proj2 (prints_counts_iff _ _ _ (describe_prints d n)) (describe_count_correct n)). Qed.
Corollary describe_check (n : describe_query) : check_lines (explain_describe_query 0 n) = true.
Proof. exact (prints_check _ _ (describe_prints 0 n) (describe_count_correct n)). Qed.

Corollary exists_tree d (n : exists_query) : nrm (explain_exists_query d n) = render d (p_tree (exists_printed n)).
Proof. exact (prints_tree _ _ _ (exists_prints d n) (exists_count_correct n)). Qed.
Corollary exists_counts_agree d (n : exists_query) : header_count (explain_exists_query d n) = direct_children (explain_exists_query d n).
Proof. exact (proj2 (prints_counts_iff _ _ _ (exists_prints d n)) (exists_count_correct n)). Qed.
Corollary exists_check (n : exists_query) : check_lines (explain_exists_query 0 n) = true.
Proof. exact (prints_check _ _ (exists_prints 0 n) (exists_count_correct n)). Qed.

Corollary show_tree d (n : show_query) : nrm (explain_show_query d n) = render d (p_tree (show_printed n)).
Proof. exact (prints_tree _ _ _ (show_prints d n) (show_count_correct n)). Qed.
Corollary show_counts_agree d (n : show_query) : header_count (explain_show_query d n) = direct_children (explain_show_query d n).
Proof. exact (proj2 (prints_counts_iff _ _ _ (show_prints d n)) (show_count_correct n)). Qed.
Corollary show_check (n : show_query) : check_lines (explain_show_query 0 n) = true.
Proof. exact (prints_check _ _ (show_prints 0 n) (show_count_correct n)). Qed.

Corollary system_tree d (n : system_query) : inv_system n -> nrm (explain_system_query d n) = render d (p_tree (system_printed n)).
Proof. intros Hc. exact (prints_tree _ _ _ (system_prints d n) (proj1 (system_count_correct n) Hc)). Qed.
Corollary system_counts_agree_iff d (n : system_query) : header_count (explain_system_query d n) = direct_children (explain_system_query d n) <-> inv_system n.
Proof. rewrite (prints_counts_iff _ _ _ (system_prints d n)). symmetry. apply system_count_correct. Qed.
Corollary system_check (n : system_query) : inv_system n -> check_lines (explain_system_query 0 n) = true.
Proof. intros Hc. exact (prints_check _ _ (system_prints 0 n) (proj1 (system_count_correct n) Hc)). Qed.
Corollary system_not_tree d (n : system_query) : ~ inv_system n -> forall d' t, nrm (explain_system_query d n) <> render d' t.
Proof. intros Hn. apply (prints_not_tree _ _ _ (system_prints d n)). intros Hk. apply Hn. apply system_count_correct. exact Hk. Qed.

Corollary explain_tree d (n : explain_query) : inv_explain n -> nrm (explain_explain_query d n) = render d (p_tree (explain_printed d n)).
Proof. intros Hs. exact (prints_tree _ _ _ (explain_prints d n Hs) (explain_count_correct d n)). Qed.
Corollary explain_counts_agree d (n : explain_query) : inv_explain n -> header_count (explain_explain_query d n) = direct_children (explain_explain_query d n).
Proof. intros Hs. exact (proj2 (prints_counts_iff _ _ _ (explain_prints d n Hs)) (explain_count_correct d n)). Qed.
Corollary explain_check (n : explain_query) : inv_explain n -> check_lines (explain_explain_query 0 n) = true.
Proof. intros Hs. exact (prints_check _ _ (explain_prints 0 n Hs) (explain_count_correct 0 n)). Qed.

Corollary detach_tree d (n : detach_query) : nrm (explain_detach_query d n) = render d (p_tree (detach_printed n)).
Proof. exact (prints_tree _ _ _ (detach_prints d n) (detach_count_correct n)). Qed.
Corollary detach_counts_agree d (n : detach_query) : header_count (explain_detach_query d n) = direct_children (explain_detach_query d n).
Proof. exact (proj2 (prints_counts_iff _ _ _ (detach_prints d n)) (detach_count_correct n)). Qed.
Corollary detach_check (n : detach_query) : check_lines (explain_detach_query 0 n) = true.
Proof. exact (prints_check _ _ (detach_prints 0 n) (detach_count_correct n)). Qed.

Corollary attach_tree d (n : attach_query) : inv_attach_storage_b n = true -> inv_attach_count n -> nrm (explain_attach_query d n) = render d (p_tree (attach_printed n)).
Proof. intros Hs. intros Hc. exact (prints_tree _ _ _ (attach_prints d n Hs) (proj1 (attach_count_correct n) Hc)). Qed.
Corollary attach_counts_agree_iff d (n : attach_query) : inv_attach_storage_b n = true -> header_count (explain_attach_query d n) = direct_children (explain_attach_query d n) <-> inv_attach_count n.
Proof. intros Hs. rewrite (prints_counts_iff _ _ _ (attach_prints d n Hs)). symmetry. apply attach_count_correct. Qed.
Corollary attach_check (n : attach_query) : inv_attach_storage_b n = true -> inv_attach_count n -> check_lines (explain_attach_query 0 n) = true.
Proof. intros Hs. intros Hc. exact (prints_check _ _ (attach_prints 0 n Hs) (proj1 (attach_count_correct n) Hc)). Qed.
Corollary attach_not_tree d (n : attach_query) : inv_attach_storage_b n = true -> ~ inv_attach_count n -> forall d' t, nrm (explain_attach_query d n) <> render d' t.
Proof. intros Hs. intros Hn. apply (prints_not_tree _ _ _ (attach_prints d n Hs)). intros Hk. apply Hn. apply attach_count_correct. exact Hk. Qed.

Corollary backup_tree d (n : backup_query) : nrm (explain_backup_query d n) = render d (p_tree (backup_printed L_BackupQuery n)).
Proof. exact (prints_tree _ _ _ (backup_prints L_BackupQuery d n) (backup_count_correct L_BackupQuery n)). Qed.
Corollary backup_counts_agree d (n : backup_query) : header_count (explain_backup_query d n) = direct_children (explain_backup_query d n).
Proof. exact (proj2 (prints_counts_iff _ _ _ (backup_prints L_BackupQuery d n)) (backup_count_correct L_BackupQuery n)). Qed.
Corollary backup_check (n : backup_query) : check_lines (explain_backup_query 0 n) = true.
Proof. exact (prints_check _ _ (backup_prints L_BackupQuery 0 n) (backup_count_correct L_BackupQuery n)). Qed.

Corollary restore_tree d (n : backup_query) : nrm (explain_restore_query d n) = render d (p_tree (backup_printed L_RestoreQuery n)).
Proof. exact (prints_tree _ _ _ (backup_prints L_RestoreQuery d n) (backup_count_correct L_RestoreQuery n)). Qed.
Corollary restore_counts_agree d (n : backup_query) : header_count (explain_restore_query d n) = direct_children (explain_restore_query d n).
Proof. exact (proj2 (prints_counts_iff _ _ _ (backup_prints L_RestoreQuery d n)) (backup_count_correct L_RestoreQuery n)). Qed.
Corollary restore_check (n : backup_query) : check_lines (explain_restore_query 0 n) = true.
Proof. exact (prints_check _ _ (backup_prints L_RestoreQuery 0 n) (backup_count_correct L_RestoreQuery n)). Qed.

Corollary kill_tree d (n : kill_query) : nrm (explain_kill_query d n) = render d (p_tree (kill_printed n)).
Proof. exact (prints_tree _ _ _ (kill_prints d n) (kill_count_correct n)). Qed.
Corollary kill_counts_agree d (n : kill_query) : header_count (explain_kill_query d n) = direct_children (explain_kill_query d n).
Proof. exact (proj2 (prints_counts_iff _ _ _ (kill_prints d n)) (kill_count_correct n)). Qed.
Corollary kill_check (n : kill_query) : check_lines (explain_kill_query 0 n) = true.
Proof. exact (prints_check _ _ (kill_prints 0 n) (kill_count_correct n)). Qed.

Corollary create_index_tree d (n : create_index_query) : inv_create_index n -> nrm (explain_create_index_query d n) = render d (p_tree (create_index_printed n)).
Proof. intros Hs. exact (prints_tree _ _ _ (create_index_prints d n Hs) (create_index_count_correct n)). Qed.
Corollary create_index_counts_agree d (n : create_index_query) : inv_create_index n -> header_count (explain_create_index_query d n) = direct_children (explain_create_index_query d n).
Proof. intros Hs. exact (proj2 (prints_counts_iff _ _ _ (create_index_prints d n Hs)) (create_index_count_correct n)). Qed.
Corollary create_index_check (n : create_index_query) : inv_create_index n -> check_lines (explain_create_index_query 0 n) = true.
Proof. intros Hs. exact (prints_check _ _ (create_index_prints 0 n Hs) (create_index_count_correct n)). Qed.

Corollary assignment_tree d (a : assignment) : inv_assignment a -> nrm (explain_assignment d a) = render d (p_tree (assignment_printed a)).
Proof. intros Hc. exact (prints_tree _ _ _ (assignment_prints d a) (proj1 (assignment_count_correct a) Hc)). Qed.
Corollary assignment_counts_agree_iff d (a : assignment) : header_count (explain_assignment d a) = direct_children (explain_assignment d a) <-> inv_assignment a.
Proof. rewrite (prints_counts_iff _ _ _ (assignment_prints d a)). symmetry. apply assignment_count_correct. Qed.
Corollary assignment_check (a : assignment) : inv_assignment a -> check_lines (explain_assignment 0 a) = true.
Proof. intros Hc. exact (prints_check _ _ (assignment_prints 0 a) (proj1 (assignment_count_correct a) Hc)). Qed.
Corollary assignment_not_tree d (a : assignment) : ~ inv_assignment a -> forall d' t, nrm (explain_assignment d a) <> render d' t.
Proof. intros Hn. apply (prints_not_tree _ _ _ (assignment_prints d a)). intros Hk. apply Hn. apply assignment_count_correct. exact Hk. Qed.

Corollary update_tree d (n : update_query) : inv_update_assignments n -> inv_update_count n -> nrm (explain_update_query d n) = render d (p_tree (update_printed n)).
Proof. intros Hs. intros Hc. exact (prints_tree _ _ _ (update_prints d n Hs) (proj1 (update_count_correct n) Hc)). Qed.
Corollary update_counts_agree_iff d (n : update_query) : inv_update_assignments n -> header_count (explain_update_query d n) = direct_children (explain_update_query d n) <-> inv_update_count n.
Proof. intros Hs. rewrite (prints_counts_iff _ _ _ (update_prints d n Hs)). symmetry. apply update_count_correct. Qed.
Corollary update_check (n : update_query) : inv_update_assignments n -> inv_update_count n -> check_lines (explain_update_query 0 n) = true.
Proof. intros Hs. intros Hc. exact (prints_check _ _ (update_prints 0 n Hs) (proj1 (update_count_correct n) Hc)). Qed.
Corollary update_not_tree d (n : update_query) : inv_update_assignments n -> ~ inv_update_count n -> forall d' t, nrm (explain_update_query d n) <> render d' t.
Proof. intros Hs. intros Hn. apply (prints_not_tree _ _ _ (update_prints d n Hs)). intros Hk. apply Hn. apply update_count_correct. exact Hk. Qed.

Corollary parallel_with_tree d (n : parallel_with_query) : nrm (explain_parallel_with_query d n) = render d (p_tree (parallel_printed n)).
Proof. exact (prints_tree _ _ _ (parallel_prints d n) (parallel_count_correct n)). Qed.
Corollary parallel_with_counts_agree d (n : parallel_with_query) : header_count (explain_parallel_with_query d n) = direct_children (explain_parallel_with_query d n).
Proof. exact (proj2 (prints_counts_iff _ _ _ (parallel_prints d n)) (parallel_count_correct n)). Qed.
Corollary parallel_with_check (n : parallel_with_query) : check_lines (explain_parallel_with_query 0 n) = true.
Proof. exact (prints_check _ _ (parallel_prints 0 n) (parallel_count_correct n)). Qed.

Corollary format_child_tree d (lab1 : list N) (lab0 : list N) (f : list N) : nrm (explain_format_child d lab1 lab0 f) = render d (p_tree (format_child_printed lab1 lab0 f)).
Proof. exact (prints_tree _ _ _ (format_child_prints d lab1 lab0 f) (format_child_count_correct lab1 lab0 f)). Qed.
Corollary format_child_counts_agree d (lab1 : list N) (lab0 : list N) (f : list N) : header_count (explain_format_child d lab1 lab0 f) = direct_children (explain_format_child d lab1 lab0 f).
Proof. exact (proj2 (prints_counts_iff _ _ _ (format_child_prints d lab1 lab0 f)) (format_child_count_correct lab1 lab0 f)). Qed.
Corollary format_child_check (lab1 : list N) (lab0 : list N) (f : list N) : check_lines (explain_format_child 0 lab1 lab0 f) = true.
Proof. exact (prints_check _ _ (format_child_prints 0 lab1 lab0 f) (format_child_count_correct lab1 lab0 f)). Qed.

Corollary create_workload_tree d (name : list N) (parent : list N) : nrm (explain_create_workload d name parent) = render d (p_tree (create_workload_printed name parent)).
Proof. exact (prints_tree _ _ _ (create_workload_prints d name parent) (create_workload_count_correct name parent)). Qed.
Corollary create_workload_counts_agree d (name : list N) (parent : list N) : header_count (explain_create_workload d name parent) = direct_children (explain_create_workload d name parent).
Proof. exact (proj2 (prints_counts_iff _ _ _ (create_workload_prints d name parent)) (create_workload_count_correct name parent)). Qed.
Corollary create_workload_check (name : list N) (parent : list N) : check_lines (explain_create_workload 0 name parent) = true.
Proof. exact (prints_check _ _ (create_workload_prints 0 name parent) (create_workload_count_correct name parent)). Qed.

Corollary dict_attr_tree d (a : dict_attr) : nrm (explain_dict_attr d a) = render d (p_tree (dict_attr_printed a)).
Proof. exact (prints_tree _ _ _ (dict_attr_prints d a) (dict_attr_count_correct a)). Qed.
Corollary dict_attr_counts_agree d (a : dict_attr) : header_count (explain_dict_attr d a) = direct_children (explain_dict_attr d a).
Proof. exact (proj2 (prints_counts_iff _ _ _ (dict_attr_prints d a)) (dict_attr_count_correct a)). Qed.
Corollary dict_attr_check (a : dict_attr) : check_lines (explain_dict_attr 0 a) = true.
Proof. exact (prints_check _ _ (dict_attr_prints 0 a) (dict_attr_count_correct a)). Qed.

Corollary dict_definition_tree d (n : dict_definition) : nrm (explain_dict_definition d n) = render d (p_tree (dict_definition_printed n)).
Proof. exact (prints_tree _ _ _ (dict_definition_prints d n) (dict_definition_count_correct n)). Qed.
Corollary dict_definition_counts_agree d (n : dict_definition) : header_count (explain_dict_definition d n) = direct_children (explain_dict_definition d n).
Proof. exact (proj2 (prints_counts_iff _ _ _ (dict_definition_prints d n)) (dict_definition_count_correct n)). Qed.
Corollary dict_definition_check (n : dict_definition) : check_lines (explain_dict_definition 0 n) = true.
Proof. exact (prints_check _ _ (dict_definition_prints 0 n) (dict_definition_count_correct n)). Qed.

Corollary tables_element_tree d (e : tables_element) : inv_element e -> nrm (explain_tables_element d e) = render d (p_tree (element_printed e)).
Proof. intros Hc. exact (prints_tree _ _ _ (element_prints d e) (proj1 (element_count_correct e) Hc)). Qed.
Corollary tables_element_counts_agree_iff d (e : tables_element) : header_count (explain_tables_element d e) = direct_children (explain_tables_element d e) <-> inv_element e.
Proof. rewrite (prints_counts_iff _ _ _ (element_prints d e)). symmetry. apply element_count_correct. Qed.
Corollary tables_element_check (e : tables_element) : inv_element e -> check_lines (explain_tables_element 0 e) = true.
Proof. intros Hc. exact (prints_check _ _ (element_prints 0 e) (proj1 (element_count_correct e) Hc)). Qed.
Corollary tables_element_not_tree d (e : tables_element) : ~ inv_element e -> forall d' t, nrm (explain_tables_element d e) <> render d' t.
Proof. intros Hn. apply (prints_not_tree _ _ _ (element_prints d e)). intros Hk. apply Hn. apply element_count_correct. exact Hk. Qed.

Corollary table_expression_tree d (n : table_expression) : nrm (explain_table_expression d n) = render d (p_tree (table_expression_printed n)).
Proof. exact (prints_tree _ _ _ (table_expression_prints d n) (table_expression_count_correct n)). Qed.
Corollary table_expression_counts_agree d (n : table_expression) : header_count (explain_table_expression d n) = direct_children (explain_table_expression d n).
Proof. exact (proj2 (prints_counts_iff _ _ _ (table_expression_prints d n)) (table_expression_count_correct n)). Qed.
Corollary table_expression_check (n : table_expression) : check_lines (explain_table_expression 0 n) = true.
Proof. exact (prints_check _ _ (table_expression_prints 0 n) (table_expression_count_correct n)). Qed.

Corollary table_join_tree d (n : table_join) : nrm (explain_table_join d n) = render d (p_tree (table_join_printed n)).
Proof. exact (prints_tree _ _ _ (table_join_prints d n) (table_join_count_correct n)). Qed.
Corollary table_join_counts_agree d (n : table_join) : header_count (explain_table_join d n) = direct_children (explain_table_join d n).
Proof. exact (proj2 (prints_counts_iff _ _ _ (table_join_prints d n)) (table_join_count_correct n)). Qed.
Corollary table_join_check (n : table_join) : check_lines (explain_table_join 0 n) = true.
Proof. exact (prints_check _ _ (table_join_prints 0 n) (table_join_count_correct n)). Qed.

Corollary tables_in_select_query_tree d ts :
  nrm (explain_tables_in_select_query d ts) = render d (p_tree (tables_printed ts)).
Proof. exact (prints_tree _ _ _ (tables_prints d ts) eq_refl). Qed.

Corollary single_line_tree d lab : nrm (explain_single_line d lab) = render d (T_leaf lab).
Proof. reflexivity. Qed.

Corollary create_resource_tree d name :
  nrm (explain_create_resource d name) = render d (p_tree (create_resource_printed name)).
Proof. exact (prints_tree _ _ _ (create_resource_prints d name) eq_refl). Qed.

(* ---------------------------------------------------------------------------------------- *)
(** * Witnesses: field combinations for which the Go code prints a header that differs from what
      it emits, or a child at the wrong depth.  Where a SQL text is quoted the AST is what the
      parser builds for it (checked by the stmtcount correspondence and by the SQL-witness run of
      checks/c04.py); none of these texts is a valid ClickHouse statement. *)

Definition idt (s : string) : rose := T_leaf (L_Identifier (bytes_of s)).

(* SYSTEM FLUSH LOGS system.query_log SETTINGS a = 1       (ClickHouse accepts SETTINGS only after
   SYSTEM FLUSH DISTRIBUTED): "SYSTEM query (children 1)" followed by two identifiers and Set *)
Definition w_system_flush_logs_settings : system_query :=
  {| yq_is_flush_logs := true; yq_database := bytes_of "system"; yq_table := bytes_of "query_log";
     yq_duplicate := false; yq_settings := 1 |}.

Lemma system_flush_logs_settings_refuted :
  header_count (explain_system_query 0 w_system_flush_logs_settings) = 1 /\
  direct_children (explain_system_query 0 w_system_flush_logs_settings) = 3 /\
  check_lines (explain_system_query 0 w_system_flush_logs_settings) = false.
Proof. vm_compute. repeat split. Qed.

(* UPDATE t SET a = 1                     (no WHERE, which ClickHouse requires): "(children 3)",
   two children *)
Definition w_update_no_where : update_query :=
  {| pq_database := []; pq_table := bytes_of "t"; pq_where := None;
     pq_assignments := [ {| as_column := bytes_of "a"; as_value := Some (T_leaf L_Literal_UInt64_1) |} ] |}.

Lemma update_without_where_refuted :
  header_count (explain_update_query 0 w_update_no_where) = 3 /\
  direct_children (explain_update_query 0 w_update_no_where) = 2 /\
  check_lines (explain_update_query 0 w_update_no_where) = false.
Proof. vm_compute. repeat split. Qed.

(* ATTACH DICTIONARY d (a UInt64) PRIMARY KEY a           (ClickHouse takes nothing after the name
   of an attached dictionary): the column list and the key are counted, the dictionary branch
   returns after the name *)
Definition w_attach_dictionary_columns : attach_query :=
  {| ath_database := []; ath_table := []; ath_dictionary := bytes_of "d";
     ath_columns := [ {| cd_name := bytes_of "a"; cd_type := Some (T_leaf (bytes_of "DataType UInt64"));
                         cd_statistics := []; cd_default := None; cd_ephemeral := false; cd_ttl := None;
                         cd_codec := None; cd_settings := 0; cd_comment := []; cd_primary_key := false |} ];
     ath_columns_primary_key := []; ath_has_empty_columns_primary_key := false; ath_indexes := [];
     ath_engine := None; ath_order_by := []; ath_primary_key := [idt "a"];
     ath_is_materialized_view := false; ath_partition_by := None; ath_select_query := None;
     ath_settings := 0 |}.

Lemma attach_dictionary_with_columns_refuted :
  header_count (explain_attach_query 0 w_attach_dictionary_columns) = 3 /\
  direct_children (explain_attach_query 0 w_attach_dictionary_columns) = 1 /\
  check_lines (explain_attach_query 0 w_attach_dictionary_columns) = false.
Proof. vm_compute. repeat split. Qed.

(* an AttachQuery with two ORDER BY members (never built by the parser, which wraps several keys
   in one tuple literal): "Storage definition (children 1)" with two children *)
Definition w_attach_two_order_by : attach_query :=
  {| ath_database := []; ath_table := bytes_of "t"; ath_dictionary := [];
     ath_columns := []; ath_columns_primary_key := []; ath_has_empty_columns_primary_key := false;
     ath_indexes := []; ath_engine := None; ath_order_by := [idt "a"; idt "b"]; ath_primary_key := [];
     ath_is_materialized_view := false; ath_partition_by := None; ath_select_query := None;
     ath_settings := 0 |}.

Lemma attach_two_order_by_refuted :
  header_count (explain_attach_query 0 w_attach_two_order_by)
  = direct_children (explain_attach_query 0 w_attach_two_order_by) /\
  check_lines (explain_attach_query 0 w_attach_two_order_by) = false.
Proof. vm_compute. repeat split. Qed.

(* a RenameQuery with RenameDatabase and no pair (never built by the parser) *)
Definition w_rename_database_no_pair : rename_query :=
  {| rq_rename_database := true; rq_pairs := []; rq_settings := 0 |}.

Lemma rename_database_without_pair_refuted :
  header_count (explain_rename_query 0 w_rename_database_no_pair) = 2 /\
  direct_children (explain_rename_query 0 w_rename_database_no_pair) = 0 /\
  check_lines (explain_rename_query 0 w_rename_database_no_pair) = false.
Proof. vm_compute. repeat split. Qed.

(* an Assignment with a nil Value (never built by the parser) *)
Definition w_assignment_nil : assignment := {| as_column := bytes_of "a"; as_value := None |}.

Lemma assignment_without_value_refuted :
  header_count (explain_assignment 0 w_assignment_nil) = 1 /\
  direct_children (explain_assignment 0 w_assignment_nil) = 0 /\
  check_lines (explain_assignment 0 w_assignment_nil) = false.
Proof. vm_compute. repeat split. Qed.

(* a TablesInSelectQueryElement without Table, Join and ArrayJoin (never built by the parser):
   the "Fallback" count of 1 *)
Definition w_element_empty : tables_element :=
  {| el_array_join := None; el_table := None; el_join := None |}.

Lemma tables_element_empty_refuted :
  header_count (explain_tables_element 0 w_element_empty) = 1 /\
  direct_children (explain_tables_element 0 w_element_empty) = 0 /\
  check_lines (explain_tables_element 0 w_element_empty) = false.
Proof. vm_compute. repeat split. Qed.

(* a CreateIndexQuery with two unparenthesised columns (the parser reads ONE expression there):
   the members are printed beside their ExpressionList *)
Definition w_create_index_two_columns : create_index_query :=
  {| ci_table := bytes_of "t"; ci_index_name := bytes_of "i"; ci_type := [];
     ci_columns_parenthesized := false;
     ci_columns := [ {| k_view := KV_ident (bytes_of "a"); k_tree := idt "a" |};
                     {| k_view := KV_ident (bytes_of "b"); k_tree := idt "b" |} ] |}.

Lemma create_index_unparenthesized_columns_refuted :
  header_count (explain_create_index_query 0 w_create_index_two_columns)
  = direct_children (explain_create_index_query 0 w_create_index_two_columns) /\
  check_lines (explain_create_index_query 0 w_create_index_two_columns) = false.
Proof. vm_compute. repeat split. Qed.

(* ---------------------------------------------------------------------------------------- *)
(** * All modelled statements at once: the type switch of Node restricted to them *)

Inductive stmt :=
| St_insert (n : insert_query) | St_drop (n : drop_query) | St_undrop (n : undrop_query)
| St_rename (n : rename_query) | St_exchange (n : exchange_query) | St_truncate (n : truncate_query)
| St_optimize (n : optimize_query) | St_delete (n : delete_query) | St_check (n : check_query)
| St_use (database : list N) | St_describe (n : describe_query) | St_exists (n : exists_query)
| St_show (n : show_query) | St_system (n : system_query) | St_explain (n : explain_query)
| St_detach (n : detach_query) | St_attach (n : attach_query)
| St_backup (n : backup_query) | St_restore (n : backup_query) | St_kill (n : kill_query)
| St_create_index (n : create_index_query) | St_update (n : update_query)
| St_parallel_with (n : parallel_with_query)
| St_single_line (lab : list N)                        (* SET, SET ROLE, transactions, GRANT / REVOKE, ... *)
| St_format_child (lab1 lab0 format : list N)          (* SHOW CREATE QUOTA / PROFILE / ROW POLICY / ROLE, SHOW GRANTS *)
| St_create_resource (name : list N) | St_create_workload (name parent : list N).

Definition explain_stmt (d : nat) (s : stmt) : list line :=
  match s with
  | St_insert n => explain_insert_query d n | St_drop n => explain_drop_query d n
  | St_undrop n => explain_undrop_query d n | St_rename n => explain_rename_query d n
  | St_exchange n => explain_exchange_query d n | St_truncate n => explain_truncate_query d n
  | St_optimize n => explain_optimize_query d n | St_delete n => explain_delete_query d n
  | St_check n => explain_check_query d n | St_use db => explain_use_query d db
  | St_describe n => explain_describe_query d n | St_exists n => explain_exists_query d n
  | St_show n => explain_show_query d n | St_system n => explain_system_query d n
  | St_explain n => explain_explain_query d n | St_detach n => explain_detach_query d n
  | St_attach n => explain_attach_query d n | St_backup n => explain_backup_query d n
  | St_restore n => explain_restore_query d n | St_kill n => explain_kill_query d n
  | St_create_index n => explain_create_index_query d n | St_update n => explain_update_query d n
  | St_parallel_with n => explain_parallel_with_query d n
  | St_single_line lab => explain_single_line d lab
  | St_format_child l1 l0 f => explain_format_child d l1 l0 f
  | St_create_resource name => explain_create_resource d name
  | St_create_workload name parent => explain_create_workload d name parent
  end.

(* the conditions of the individual theorems *)
Definition inv_stmt (s : stmt) : Prop :=
  match s with
  | St_insert n => inv_insert n
  | St_rename n => inv_rename n
  | St_system n => inv_system n
  | St_explain n => inv_explain n
  | St_attach n => inv_attach n
  | St_create_index n => inv_create_index n
  | St_update n => inv_update n
  | _ => True
  end.

Theorem explain_stmt_tree d s : inv_stmt s -> exists t, nrm (explain_stmt d s) = render d t.
Proof.
  destruct s; cbn [inv_stmt explain_stmt]; intros Hi; eexists.
  - apply insert_tree, Hi.
  - apply drop_tree.
  - apply undrop_tree.
  - apply rename_tree, Hi.
  - apply exchange_tree.
  - apply truncate_tree.
  - apply optimize_tree.
  - apply delete_tree.
  - apply check_tree.
  - apply use_tree.
  - apply describe_tree.
  - apply exists_tree.
  - apply show_tree.
  - apply system_tree, Hi.
  - apply explain_tree, Hi.
  - apply detach_tree.
  - destruct Hi as [Hs Hc]. apply attach_tree; assumption.
  - apply backup_tree.
  - apply restore_tree.
  - apply kill_tree.
  - apply create_index_tree, Hi.
  - destruct Hi as [Ha Hc]. apply update_tree; assumption.
  - apply parallel_with_tree.
  - apply single_line_tree.
  - apply format_child_tree.
  - apply create_resource_tree.
  - apply create_workload_tree.
Qed.

Corollary explain_stmt_counts_agree d s :
  inv_stmt s -> header_count (explain_stmt d s) = direct_children (explain_stmt d s).
Proof. intros H. destruct (explain_stmt_tree d s H) as [t Ht]. eapply tree_counts_agree. exact Ht. Qed.

Corollary explain_stmt_check s : inv_stmt s -> check_lines (explain_stmt 0 s) = true.
Proof. intros H. apply check_lines_spec. exact (explain_stmt_tree 0 s H). Qed.
