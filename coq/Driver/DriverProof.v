(* DriverProof.v -- theorems about the driver model (DriverModel.v).

   Part A (C16): cancellation between statements.
   Part B (C06 driver half, C05 semicolon clause): a script of delimited statements is parsed
   statement by statement; extra semicolons do not matter.

   Everything is proved for EVERY statement parser `ps` (a Section variable, i.e. universally
   quantified in the closed theorems) under the two hypotheses
      ps_progress : forall ts, ts <> [] -> length (rem (ps ts)) < length ts
      ps_eof      : rem (ps []) = []
   (the statement parser consumes at least one token unless the current token is EOF, where it
   stays at EOF).  They are needed only to show that the fuel S (length ts) suffices; lemmas that
   do not mention fuel do not depend on them, and all of Part B except `leading_semicolons` is
   proved before they are declared (the `delimited` hypothesis gives progress on the segments).
   For the real parser they are the driver-level instance of property C02 (checked by hand for
   parser.go: every callee of parseStatementByKeyword consumes a token when dispatched on its
   keyword, the default branch consumes one; at EOF nextToken stays at EOF).
   File order: A.0 (no hypothesis), B, then the hypotheses, A.1 (fuel), A.2 (C16 theorems).  No assumption on `done` is needed: only the first index at which it
   is true matters, so monotonicity is never used (corollaries for monotone `done` are stated).

   "Nothing carries over from one statement to the next" is literal in the model: the state of
   `loop` is (k, remaining tokens, statements so far, errors so far) and `ps` receives the remaining
   tokens only. *)
From Coq Require Import List NArith Bool Arith Lia ZifyN ZifyNat ZifyBool.
From DC Require Import Base.Item Gen.TokenTable Driver.DriverModel.
Import ListNotations.

Definition rem {A B : Type} (x : A * list item * B) : list item := snd (fst x).

(* k is the first check at which the context is done *)
Definition first_done (done : nat -> bool) (k : nat) : Prop :=
  done k = true /\ forall j, j < k -> done j = false.

(* once closed, ctx.Done() stays closed *)
Definition monotone (done : nat -> bool) : Prop :=
  forall i j, i <= j -> done i = true -> done j = true.

Definition is_prefix {A : Type} (p l : list A) : Prop := exists more, l = p ++ more.

(* a statement boundary as seen by a statement parser: end of input or a SEMICOLON *)
Definition boundary (rest : list item) : bool :=
  match rest with [] => true | i :: _ => is_semi i end.

Definition all_semi (l : list item) : Prop := forallb is_semi l = true.

(* ------------------------------------------------------------------------------------------ *)
(* facts that do not depend on the statement parser                                            *)

Lemma first_done_unique : forall done k1 k2, first_done done k1 -> first_done done k2 -> k1 = k2.
Proof.
  intros done k1 k2 [H1 L1] [H2 L2].
  destruct (Nat.lt_trichotomy k1 k2) as [H | [H | H]]; auto.
  - rewrite (L2 _ H) in H1. discriminate.
  - rewrite (L1 _ H) in H2. discriminate.
Qed.

Lemma first_done_exists : forall done k, done k = true -> exists k', k' <= k /\ first_done done k'.
Proof.
  intros done k. induction k as [k IH] using lt_wf_ind. intros Hk.
  destruct (existsb done (seq 0 k)) eqn:E.
  - apply existsb_exists in E. destruct E as [j [Hin Hj]]. apply in_seq in Hin.
    destruct (IH j ltac:(lia) Hj) as [k' [Hle Hf]]. exists k'. split; [lia | exact Hf].
  - exists k. split; [lia |]. split; [exact Hk |]. intros j Hj.
    destruct (done j) eqn:Dj; auto.
    assert (existsb done (seq 0 k) = true) as C.
    { apply existsb_exists. exists j. split; [apply in_seq; lia | exact Dj]. }
    rewrite C in E. discriminate.
Qed.

Lemma first_done_monotone : forall done k,
  monotone done -> done k = true -> (k = 0 \/ done (k - 1) = false) -> first_done done k.
Proof.
  intros done k Hm Hk Hp. split; [exact Hk |]. intros j Hj.
  destruct Hp as [-> | Hp]; [lia |].
  destruct (done j) eqn:Dj; auto.
  rewrite (Hm j (k - 1) ltac:(lia) Dj) in Hp. discriminate.
Qed.

Lemma skip_semis_length : forall ts, length (skip_semis ts) <= length ts.
Proof.
  induction ts as [| i r IH]; cbn [skip_semis length]; [lia |].
  destruct (is_semi i); cbn [length]; lia.
Qed.

Lemma skip_semis_idem : forall ts, skip_semis (skip_semis ts) = skip_semis ts.
Proof.
  induction ts as [| i r IH]; cbn [skip_semis]; auto.
  destruct (is_semi i) eqn:E; auto. cbn [skip_semis]. rewrite E. reflexivity.
Qed.

Lemma skip_semis_all_semi : forall pre l, all_semi pre -> skip_semis (pre ++ l) = skip_semis l.
Proof.
  unfold all_semi. induction pre as [| i r IH]; intros l H; cbn [app]; auto.
  cbn [forallb] in H. apply andb_true_iff in H. destruct H as [Hi Hr].
  cbn [skip_semis]. rewrite Hi. apply IH. exact Hr.
Qed.

Lemma skip_semis_head : forall ts, cur_is T_SEMICOLON ts = false -> skip_semis ts = ts.
Proof.
  intros [| i r] H; cbn [skip_semis]; auto.
  cbn [cur_is] in H. unfold is_semi. rewrite H. reflexivity.
Qed.

Lemma all_semi_app : forall a b, all_semi a -> all_semi b -> all_semi (a ++ b).
Proof. unfold all_semi. intros a b Ha Hb. rewrite forallb_app, Ha, Hb. reflexivity. Qed.

Lemma boundary_all_semi : forall sep rest, all_semi sep -> (sep = [] -> boundary rest = true) ->
  boundary (sep ++ rest) = true.
Proof.
  unfold all_semi. intros [| i r] rest H Hn; cbn [app]; auto.
  cbn [forallb] in H. apply andb_true_iff in H. cbn [boundary]. tauto.
Qed.

Lemma boundary_not_parallel : forall rest, boundary rest = true -> at_parallel_with rest = false.
Proof.
  intros [| i r] H; auto. cbn [boundary] in H. unfold is_semi in H.
  unfold at_parallel_with. cbn [cur_is]. apply N.eqb_eq in H. rewrite H. reflexivity.
Qed.

Section DriverProof.
  Variables stmt err : Type.
  Variable ps : list item -> option stmt * list item * list err.
  Variable mk_parallel : stmt -> list stmt -> stmt.
  Variable ctx_err : ctx_error.
  Variable read_failed : bool.

  Local Notation Loop done := (loop ps mk_parallel done ctx_err read_failed).
  Local Notation Run done := (run ps mk_parallel done ctx_err read_failed).
  Local Notation Step := (step ps mk_parallel).
  Local Notation Statement := (statement ps mk_parallel).
  Local Notation After := (after ps mk_parallel).
  Local Notation Finish := (finish (stmt:=stmt) (err:=err) read_failed).

  (* the result for a context that is never cancelled *)
  Definition full (ts : list item) : outcome stmt err := Run never ts.

  (* ---------------------------------------------------------------------------------------- *)
  (* A.0  lemmas about the loop that need no assumption on ps                                  *)

  Lemma loop_ext : forall d1 d2 f k ts acc errs,
    (forall j, k <= j -> d1 j = d2 j) -> Loop d1 f k ts acc errs = Loop d2 f k ts acc errs.
  Proof.
    intros d1 d2. induction f as [| f IH]; intros k ts acc errs H; cbn [loop]; auto.
    destruct ts as [| t ts]; auto.
    rewrite (H k (le_n k)). destruct (d2 k); auto.
    destruct (Step (t :: ts)) as [| r ts' es |]; auto.
    apply IH. intros j Hj. apply H. lia.
  Qed.

  Lemma finish_rest : forall acc errs ss e rest,
    Finish acc errs = Finished ss e rest ->
    ss = acc /\ rest = [] /\ (forall c, e <> CtxErr c) /\
    (e = NoErr -> read_failed = false /\ errs = []).
  Proof.
    unfold finish. intros acc errs ss e rest H.
    destruct read_failed.
    - inversion H; subst. repeat split; auto; try discriminate.
    - destruct errs as [| x errs]; inversion H; subst; repeat split; auto; discriminate.
  Qed.

  (* what `rest` and the error say about each other *)
  Lemma loop_rest : forall done f k ts acc errs ss e rest,
    Loop done f k ts acc errs = Finished ss e rest ->
    match e with
    | CtxErr c => c = ctx_err /\ rest <> []
    | _ => rest = []
    end.
  Proof.
    intros done. induction f as [| f IH]; intros k ts acc errs ss e rest H; cbn [loop] in H.
    - discriminate.
    - assert (forall a b, Finish a b = Finished ss e rest ->
              match e with CtxErr c => c = ctx_err /\ rest <> [] | _ => rest = [] end) as HF.
      { intros a b HF. apply finish_rest in HF. destruct HF as [_ [Hr [Hc _]]].
        destruct e; auto. exfalso. eapply Hc. reflexivity. }
      destruct ts as [| t ts]; [eapply HF; eauto |].
      destruct (done k).
      + inversion H; subst. split; [reflexivity | discriminate].
      + destruct (Step (t :: ts)) as [| r ts' es |]; [eapply HF; eauto | eapply IH; eauto | discriminate].
  Qed.

  Lemma loop_noerr_read : forall done f k ts acc errs ss rest,
    Loop done f k ts acc errs = Finished ss NoErr rest -> read_failed = false.
  Proof.
    intros done. induction f as [| f IH]; intros k ts acc errs ss rest H; cbn [loop] in H.
    - discriminate.
    - destruct ts as [| t ts]; [apply finish_rest in H; tauto |].
      destruct (done k); [discriminate |].
      destruct (Step (t :: ts)) as [| r ts' es |];
        [apply finish_rest in H; tauto | eapply IH; eauto | discriminate].
  Qed.

  Lemma loop_never_not_ctx : forall f k ts acc errs ss e rest,
    Loop never f k ts acc errs = Finished ss e rest -> forall c, e <> CtxErr c.
  Proof.
    induction f as [| f IH]; intros k ts acc errs ss e rest H; cbn [loop] in H.
    - discriminate.
    - destruct ts as [| t ts]; [apply finish_rest in H; tauto |].
      unfold never at 1 in H.
      destruct (Step (t :: ts)) as [| r ts' es |];
        [apply finish_rest in H; tauto | eapply IH; eauto | discriminate].
  Qed.

  Lemma loop_prefix : forall done f k ts acc errs ss e rest,
    Loop done f k ts acc errs = Finished ss e rest -> is_prefix acc ss.
  Proof.
    intros done. induction f as [| f IH]; intros k ts acc errs ss e rest H; cbn [loop] in H.
    - discriminate.
    - assert (forall b, Finish acc b = Finished ss e rest -> is_prefix acc ss) as HF.
      { intros b HF. apply finish_rest in HF. destruct HF as [-> _]. exists []. now rewrite app_nil_r. }
      destruct ts as [| t ts]; [eapply HF; eauto |].
      destruct (done k).
      + inversion H; subst. exists []. now rewrite app_nil_r.
      + destruct (Step (t :: ts)) as [| r ts' es |]; [eapply HF; eauto | | discriminate].
        apply IH in H. destruct H as [more ->]. exists (opt_list r ++ more). now rewrite app_assoc.
  Qed.

  Lemma loop_fuel_mono : forall done f k ts acc errs ss e rest,
    Loop done f k ts acc errs = Finished ss e rest ->
    forall f', f <= f' -> Loop done f' k ts acc errs = Finished ss e rest.
  Proof.
    intros done. induction f as [| f IH]; intros k ts acc errs ss e rest H f' Hf; cbn [loop] in H.
    - discriminate.
    - destruct f' as [| f']; [lia |]. cbn [loop].
      destruct ts as [| t ts]; auto.
      destruct (done k); auto.
      destruct (Step (t :: ts)) as [| r ts' es |]; auto.
      eapply IH; eauto. lia.
  Qed.

  (* n iterations without cancellation are n unfoldings of the loop *)
  Lemma loop_after : forall done n f k ts acc errs acc' ts' errs',
    After n ts acc errs = Some (acc', ts', errs') ->
    (forall j, j < n -> done (k + j) = false) ->
    Loop done (n + f) k ts acc errs = Loop done f (k + n) ts' acc' errs'.
  Proof.
    intros done. induction n as [| n IH]; intros f k ts acc errs acc' ts' errs' HA HD; cbn [after] in HA.
    - inversion HA; subst. rewrite Nat.add_0_r. reflexivity.
    - destruct ts as [| t ts]; [discriminate |].
      cbn [Nat.add loop]. rewrite <- (Nat.add_0_r k) at 1. rewrite (HD 0 ltac:(lia)).
      destruct (Step (t :: ts)) as [| r ts1 es |]; try discriminate.
      rewrite (IH f (S k) _ _ _ _ _ _ HA).
      + f_equal. lia.
      + intros j Hj. replace (S k + j) with (k + S j) by lia. apply HD. lia.
  Qed.

  Lemma after_prefix : forall n ts acc errs acc' ts' errs',
    After n ts acc errs = Some (acc', ts', errs') -> is_prefix acc acc'.
  Proof.
    induction n as [| n IH]; intros ts acc errs acc' ts' errs' H; cbn [after] in H.
    - inversion H; subst. exists []. now rewrite app_nil_r.
    - destruct ts as [| t ts]; [discriminate |].
      destruct (Step (t :: ts)) as [| r ts1 es |]; try discriminate.
      apply IH in H. destruct H as [more ->]. exists (opt_list r ++ more). now rewrite app_assoc.
  Qed.

  Lemma after_add : forall n m ts acc errs,
    After (n + m) ts acc errs =
    match After n ts acc errs with
    | Some (acc', ts', errs') => After m ts' acc' errs'
    | None => None
    end.
  Proof.
    induction n as [| n IH]; intros m ts acc errs; cbn [Nat.add after]; auto.
    destruct ts as [| t ts]; auto.
    destruct (Step (t :: ts)) as [| r ts1 es |]; auto.
  Qed.

  (* later cancellation, longer prefix; and if check m is reached then so is check n <= m *)
  Lemma after_mono : forall n m ts acc errs a2 t2 e2,
    n <= m -> After m ts acc errs = Some (a2, t2, e2) ->
    exists a1 t1 e1, After n ts acc errs = Some (a1, t1, e1) /\ is_prefix a1 a2 /\
                     (t2 <> [] -> t1 <> []).
  Proof.
    intros n m ts acc errs a2 t2 e2 Hle H.
    replace m with (n + (m - n)) in H by lia. rewrite after_add in H.
    destruct (After n ts acc errs) as [[[a1 t1] e1] |]; [| discriminate].
    exists a1, t1, e1. split; [reflexivity |]. split; [eapply after_prefix; eauto |].
    intros Hn ->. destruct (m - n); cbn [after] in H; [inversion H; subst; auto | discriminate].
  Qed.

  (* every run is the uncancelled run, or the cut at the first done check that the loop reaches *)
  Lemma loop_cases : forall done f k ts acc errs,
    Loop done f k ts acc errs = Loop never f k ts acc errs \/
    exists n acc' ts' errs',
      (forall j, j < n -> done (k + j) = false) /\ done (k + n) = true /\
      After n ts acc errs = Some (acc', ts', errs') /\ ts' <> [] /\
      Loop done f k ts acc errs = Finished acc' (CtxErr ctx_err) ts'.
  Proof.
    intros done. induction f as [| f IH]; intros k ts acc errs; cbn [loop]; auto.
    destruct ts as [| t ts]; auto.
    destruct (done k) eqn:Dk.
    - right. exists 0, acc, (t :: ts), errs. rewrite Nat.add_0_r.
      repeat split; auto; [intros j Hj; lia | discriminate].
    - unfold never at 1.
      destruct (Step (t :: ts)) as [| r ts1 es |] eqn:ES; auto.
      destruct (IH (S k) ts1 (acc ++ opt_list r) (errs ++ es)) as [H | H]; auto.
      destruct H as [n [acc' [ts' [errs' [H1 [H2 [H3 [H4 H5]]]]]]]].
      right. exists (S n), acc', ts', errs'. cbn [after]. rewrite ES.
      repeat split; auto.
      + intros j Hj. destruct j as [| j]; [now rewrite Nat.add_0_r |].
        replace (k + S j) with (S k + j) by lia. apply H1. lia.
      + replace (k + S n) with (S k + n) by lia. exact H2.
  Qed.

  (* the loop ended before reaching check n: cancellation at or after n is not observed *)
  Lemma loop_not_reached : forall done n f k ts acc errs,
    (forall j, j < n -> done (k + j) = false) ->
    (After n ts acc errs = None \/ exists a e, After n ts acc errs = Some (a, [], e)) ->
    Loop done f k ts acc errs = Loop never f k ts acc errs.
  Proof.
    intros done. induction n as [| n IH]; intros f k ts acc errs HD HA; cbn [after] in HA.
    - destruct HA as [HA | [a [e HA]]]; [discriminate |]. inversion HA; subst.
      destruct f; reflexivity.
    - destruct f as [| f]; [reflexivity |]. cbn [loop].
      destruct ts as [| t ts]; auto.
      rewrite <- (Nat.add_0_r k) at 1. rewrite (HD 0 ltac:(lia)). unfold never at 1.
      destruct (Step (t :: ts)) as [| r ts1 es |]; auto.
      apply IH; auto. intros j Hj. replace (S k + j) with (k + S j) by lia. apply HD. lia.
  Qed.

  (* leading semicolons are invisible to an uncancelled loop, with the same fuel *)
  Lemma loop_skip_semis : forall f k ts acc errs,
    Loop never f k ts acc errs = Loop never f k (skip_semis ts) acc errs.
  Proof.
    intros [| f] k ts acc errs; [reflexivity |]. cbn [loop]. unfold never at 1 3.
    unfold step. rewrite skip_semis_idem.
    destruct ts as [| t ts]; [reflexivity |].
    destruct (skip_semis (t :: ts)) as [| t1 ts1] eqn:E; reflexivity.
  Qed.

  (* ---------------------------------------------------------------------------------------- *)
  (* B.  scripts: s1 ; s2 ; ... ; sn with arbitrary extra semicolons                           *)

  (* The driver's unit is `statement` = parseStatement + PARALLEL WITH chaining.  It is
     delimiter-respecting on the segment s with result (r, es) when, followed by a statement
     boundary (end of input or a semicolon and anything after it), it consumes exactly s and
     returns (r, es).  Taking rest = [] gives what it returns on s alone.  s must be non-empty
     and must not start with a semicolon (the driver would skip it).  Nothing is required about
     semicolons INSIDE s, nor about errors: es may be non-empty and r may be None. *)
  Definition delimited (s : list item) (r : option stmt) (es : list err) : Prop :=
    s <> [] /\ cur_is T_SEMICOLON s = false /\
    forall rest, boundary rest = true -> Statement (s ++ rest) = Some (r, rest, es).

  (* the same for the bare statement parser; it implies `delimited` because a boundary is never
     the PARALLEL of PARALLEL WITH *)
  Definition ps_delimited (s : list item) (r : option stmt) (es : list err) : Prop :=
    s <> [] /\ cur_is T_SEMICOLON s = false /\
    forall rest, boundary rest = true -> ps (s ++ rest) = (r, rest, es).

  Lemma ps_delimited_delimited : forall s r es, ps_delimited s r es -> delimited s r es.
  Proof.
    intros s r es [H1 [H2 H3]]. split; [exact H1 |]. split; [exact H2 |].
    intros rest Hb. unfold statement. rewrite (H3 rest Hb).
    destruct r; [| reflexivity]. rewrite (boundary_not_parallel rest Hb). reflexivity.
  Qed.

  (* a script: leading semicolons `pre`, then segments each followed by its separator *)
  Record segment := { sg_toks : list item; sg_sep : list item;
                      sg_res : option stmt; sg_errs : list err }.

  Fixpoint join (segs : list segment) : list item :=
    match segs with
    | [] => []
    | g :: r => sg_toks g ++ sg_sep g ++ join r
    end.

  (* separators are semicolons only; every separator but the last is non-empty *)
  Fixpoint seps_ok (segs : list segment) : Prop :=
    match segs with
    | [] => True
    | g :: r => all_semi (sg_sep g) /\ (r <> [] -> sg_sep g <> []) /\ seps_ok r
    end.

  Definition segs_delimited (segs : list segment) : Prop :=
    Forall (fun g => delimited (sg_toks g) (sg_res g) (sg_errs g)) segs.

  Definition script_stmts (segs : list segment) : list stmt :=
    flat_map (fun g => opt_list (sg_res g)) segs.
  Definition script_errs (segs : list segment) : list err :=
    flat_map (fun g => sg_errs g) segs.

  Lemma join_length : forall segs, segs_delimited segs -> length segs <= length (join segs).
  Proof.
    induction segs as [| g r IH]; intros H; cbn [join length]; [lia |].
    inversion H as [| ? ? Hg Hr]; subst. destruct Hg as [Hne _].
    rewrite !app_length. specialize (IH Hr).
    destruct (sg_toks g); [congruence | cbn [length]; lia].
  Qed.

  Lemma step_delimited : forall s r es rest,
    delimited s r es -> boundary rest = true -> Step (s ++ rest) = StepNext r (skip_semis rest) es.
  Proof.
    intros s r es rest [Hne [Hhd Hst]] Hb. unfold step.
    assert (cur_is T_SEMICOLON (s ++ rest) = false) as Hhd'.
    { destruct s; [congruence | exact Hhd]. }
    rewrite (skip_semis_head _ Hhd').
    destruct (s ++ rest) as [| t ts] eqn:E.
    - destruct s; [congruence | discriminate].
    - rewrite <- E, (Hst rest Hb). reflexivity.
  Qed.

  Lemma loop_never_unfold : forall f k ts acc errs, ts <> [] ->
    Loop never (S f) k ts acc errs =
    match Step ts with
    | StepExit => Finish acc errs
    | StepFuel => OutOfFuel
    | StepNext r ts' es => Loop never f (S k) ts' (acc ++ opt_list r) (errs ++ es)
    end.
  Proof. intros f k [| t ts] acc errs H; [congruence | reflexivity]. Qed.

  Lemma loop_script : forall segs pre f k acc errs,
    all_semi pre -> seps_ok segs -> segs_delimited segs -> length segs < f ->
    Loop never f k (pre ++ join segs) acc errs =
    Finish (acc ++ script_stmts segs) (errs ++ script_errs segs).
  Proof.
    induction segs as [| g r IH]; intros pre f k acc errs Hpre Hsep Hdel Hf.
    - cbn [join script_stmts script_errs flat_map]. rewrite !app_nil_r.
      destruct f as [| f]; [cbn in Hf; lia |].
      destruct pre as [| p pre]; [reflexivity |].
      rewrite loop_never_unfold by discriminate. unfold step.
      replace (p :: pre) with ((p :: pre) ++ []) by apply app_nil_r.
      rewrite (skip_semis_all_semi _ _ Hpre). reflexivity.
    - inversion Hdel as [| ? ? Hg Hr]; subst.
      destruct Hsep as [Hs1 [Hs2 Hs3]].
      destruct f as [| f]; [cbn in Hf; lia |].
      assert (boundary (sg_sep g ++ join r) = true) as Hb.
      { apply boundary_all_semi; [exact Hs1 |]. intros Hnil.
        destruct r as [| g' r']; [reflexivity |]. exfalso. apply Hs2; [discriminate | exact Hnil]. }
      rewrite loop_skip_semis. cbn [join]. rewrite (skip_semis_all_semi _ _ Hpre).
      rewrite <- loop_skip_semis.
      rewrite loop_never_unfold.
      2:{ destruct Hg as [Hne _]. destruct (sg_toks g); [congruence | discriminate]. }
      rewrite (step_delimited _ _ _ _ Hg Hb).
      rewrite <- loop_skip_semis.
      rewrite (IH (sg_sep g) f (S k)); auto; [| cbn [length] in Hf; lia].
      cbn [script_stmts script_errs flat_map]. rewrite !app_assoc. reflexivity.
  Qed.

  (* C06 (driver half) + C05 (semicolon clause): for EVERY placement of extra semicolons --
     any number of leading ones, one or more between two statements, any number after the last --
     the uncancelled driver returns the statements of the segments in order (nil statements
     dropped) and reports the segments' errors in order. *)
  Theorem script_parse : forall pre segs,
    all_semi pre -> seps_ok segs -> segs_delimited segs ->
    full (pre ++ join segs) = Finish (script_stmts segs) (script_errs segs).
  Proof.
    intros pre segs Hpre Hsep Hdel. unfold full, run.
    rewrite (loop_script segs pre _ 0 [] []); auto.
    rewrite app_length. pose proof (join_length segs Hdel). lia.
  Qed.

  (* parsing one delimited statement on its own *)
  Theorem single_parse : forall s r es,
    delimited s r es -> full s = Finish (opt_list r) es.
  Proof.
    intros s r es H.
    pose proof (script_parse [] [ {| sg_toks := s; sg_sep := []; sg_res := r; sg_errs := es |} ]) as P.
    cbn [join sg_toks sg_sep app script_stmts script_errs flat_map sg_res sg_errs] in P.
    rewrite !app_nil_r in P. apply P.
    - reflexivity.
    - cbn. repeat split; auto; congruence.
    - constructor; [exact H | constructor].
  Qed.

  (* "exactly the statements obtained by parsing each si on its own, in the same order" *)
  Theorem script_is_concat_of_singles : forall pre segs,
    all_semi pre -> seps_ok segs -> segs_delimited segs ->
    stmts_of (full (pre ++ join segs)) = flat_map (fun g => stmts_of (full (sg_toks g))) segs.
  Proof.
    intros pre segs Hpre Hsep Hdel. rewrite (script_parse pre segs Hpre Hsep Hdel).
    assert (forall a b, stmts_of (Finish a b) = a) as HS.
    { intros a b. unfold finish. destruct read_failed; [reflexivity |]. destruct b; reflexivity. }
    rewrite HS. unfold script_stmts. clear Hsep.
    induction Hdel as [| g r Hg Hr IH]; cbn [flat_map]; [reflexivity |].
    rewrite IH. rewrite (single_parse _ _ _ Hg), HS. reflexivity.
  Qed.

  (* C16 on scripts: the "statement boundaries" at which the driver can stop are exactly the
     segment boundaries.  Cancellation first observed at check k < n returns the statements of
     the first k segments and the context's error; the unconsumed input starts at segment k. *)
  Lemma step_all_semi : forall pre ts, all_semi pre -> Step (pre ++ ts) = Step ts.
  Proof. intros pre ts H. unfold step. rewrite (skip_semis_all_semi _ _ H). reflexivity. Qed.

  Lemma join_nonempty : forall segs, segs_delimited segs -> segs <> [] -> join segs <> [].
  Proof.
    intros [| g r] H Hne; [congruence |]. inversion H as [| ? ? [Hg _] _]; subst.
    cbn [join]. destruct (sg_toks g); [congruence | discriminate].
  Qed.

  Lemma skip_semis_join : forall sep segs,
    all_semi sep -> segs_delimited segs -> skip_semis (sep ++ join segs) = join segs.
  Proof.
    intros sep segs Hs Hd. rewrite (skip_semis_all_semi _ _ Hs).
    destruct segs as [| g r]; [reflexivity |]. inversion Hd as [| ? ? [Hne [Hhd _]] _]; subst.
    apply skip_semis_head. cbn [join]. destruct (sg_toks g); [congruence | exact Hhd].
  Qed.

  Definition rest_at (k : nat) (pre : list item) (segs : list segment) : list item :=
    match k with O => pre ++ join segs | S _ => join (skipn k segs) end.

  Lemma after_script : forall k segs pre acc errs,
    all_semi pre -> seps_ok segs -> segs_delimited segs -> k <= length segs ->
    After k (pre ++ join segs) acc errs =
    Some (acc ++ script_stmts (firstn k segs), rest_at k pre segs, errs ++ script_errs (firstn k segs)).
  Proof.
    induction k as [| k IH]; intros segs pre acc errs Hpre Hsep Hdel Hk.
    - cbn [after firstn script_stmts script_errs flat_map rest_at]. now rewrite !app_nil_r.
    - destruct segs as [| g r]; [cbn in Hk; lia |].
      inversion Hdel as [| ? ? Hg Hr]; subst. destruct Hsep as [Hs1 [Hs2 Hs3]].
      assert (boundary (sg_sep g ++ join r) = true) as Hb.
      { apply boundary_all_semi; [exact Hs1 |]. intros Hnil.
        destruct r as [| g' r']; [reflexivity |]. exfalso. apply Hs2; [discriminate | exact Hnil]. }
      cbn [after].
      destruct (pre ++ join (g :: r)) as [| t ts] eqn:E.
      { exfalso. apply (join_nonempty (g :: r) Hdel); [discriminate |].
        destruct pre; [exact E | discriminate]. }
      rewrite <- E. rewrite (step_all_semi _ _ Hpre). cbn [join].
      rewrite (step_delimited _ _ _ _ Hg Hb), (skip_semis_join _ _ Hs1 Hr).
      change (join r) with ([] ++ join r).
      rewrite (IH r [] _ _ eq_refl Hs3 Hr ltac:(cbn [length] in Hk; lia)).
      cbn [firstn script_stmts script_errs flat_map rest_at skipn]. rewrite !app_assoc.
      destruct k; reflexivity.
  Qed.

  Theorem cancelled_script : forall done k pre segs,
    all_semi pre -> seps_ok segs -> segs_delimited segs ->
    first_done done k -> k < length segs ->
    Run done (pre ++ join segs) =
    Finished (script_stmts (firstn k segs)) (CtxErr ctx_err) (rest_at k pre segs).
  Proof.
    intros done k pre segs Hpre Hsep Hdel [Hk Hlt] Hn.
    pose proof (after_script k segs pre [] [] Hpre Hsep Hdel ltac:(lia)) as HA. cbn [app] in HA.
    pose proof (join_length segs Hdel) as HL.
    assert (rest_at k pre segs <> []) as Hne.
    { unfold rest_at. destruct k.
      - intros E. apply app_eq_nil in E. destruct E as [_ E].
        apply (join_nonempty segs Hdel); [| exact E]. destruct segs; [cbn in Hn; lia | discriminate].
      - apply join_nonempty.
        + unfold segs_delimited in *. rewrite Forall_forall in *. intros g Hg. apply Hdel.
          rewrite <- (firstn_skipn (S k) segs). apply in_or_app. right. exact Hg.
        + intros E. pose proof (skipn_length (S k) segs) as HS. rewrite E in HS. cbn [length] in HS. lia. }
    unfold run. rewrite app_length.
    replace (S (length pre + length (join segs))) with (k + S (length pre + length (join segs) - k)) by lia.
    rewrite (loop_after done k _ 0 _ _ _ _ _ _ HA) by (intros j Hj; apply Hlt; exact Hj).
    cbn [loop Nat.add]. destruct (rest_at k pre segs) as [| t ts]; [congruence |].
    rewrite Hk. reflexivity.
  Qed.

  (* C05 semicolon clause: two placements of semicolons around the same segments *)
  Definition same_segments (a b : list segment) : Prop :=
    map (fun g => (sg_toks g, sg_res g, sg_errs g)) a = map (fun g => (sg_toks g, sg_res g, sg_errs g)) b.

  Theorem semicolons_irrelevant : forall pre1 segs1 pre2 segs2,
    all_semi pre1 -> seps_ok segs1 -> segs_delimited segs1 ->
    all_semi pre2 -> seps_ok segs2 -> segs_delimited segs2 ->
    same_segments segs1 segs2 ->
    full (pre1 ++ join segs1) = full (pre2 ++ join segs2).
  Proof.
    intros pre1 segs1 pre2 segs2 A1 B1 C1 A2 B2 C2 HS.
    rewrite (script_parse _ _ A1 B1 C1), (script_parse _ _ A2 B2 C2).
    assert (script_stmts segs1 = script_stmts segs2 /\ script_errs segs1 = script_errs segs2) as [-> ->];
      [| reflexivity].
    unfold same_segments in HS. clear -HS. revert segs2 HS.
    induction segs1 as [| g r IH]; intros [| g' r'] HS; cbn [map] in HS; try discriminate; auto.
    inversion HS as [[H1 H2 H3 H4]]. destruct (IH r' H4) as [E1 E2].
    unfold script_stmts, script_errs in *. cbn [flat_map]. rewrite H2, H3, E1, E2. auto.
  Qed.

  (* ---------------------------------------------------------------------------------------- *)
  (* A.1  progress: the fuel is sufficient                                                     *)

  Hypothesis ps_progress : forall ts, ts <> [] -> length (rem (ps ts)) < length ts.
  Hypothesis ps_eof : rem (ps []) = [].

  Lemma ps_le : forall ts, length (rem (ps ts)) <= length ts.
  Proof.
    intros [| t ts]; [rewrite ps_eof; cbn; lia |].
    apply Nat.lt_le_incl, ps_progress. discriminate.
  Qed.

  Lemma par_loop_ok : forall fuel ts acc errs, length ts <= fuel ->
    exists ss ts' es, par_loop ps fuel ts acc errs = Some (ss, ts', es) /\ length ts' <= length ts.
  Proof.
    induction fuel as [| f IH]; intros ts acc errs Hf.
    - destruct ts; [| cbn [length] in Hf; lia]. cbn. eauto 6.
    - cbn [par_loop]. destruct (at_parallel_with ts) eqn:E; [| eauto 6].
      destruct ts as [| a [| b r]]; try discriminate.
      { unfold at_parallel_with, peek_is in E. cbn [tl cur_is] in E. rewrite andb_false_r in E. discriminate. }
      cbn [skipn]. pose proof (ps_le r) as Hle.
      destruct (ps r) as [[r0 ts1] es1]. cbn [rem fst snd] in Hle. cbn [length] in Hf.
      destruct (IH ts1 (acc ++ opt_list r0) (errs ++ es1) ltac:(lia)) as [ss [ts' [es [H1 H2]]]].
      exists ss, ts', es. split; [exact H1 |]. cbn [length]. lia.
  Qed.

  Lemma statement_ok : forall ts, ts <> [] ->
    exists r ts' es, Statement ts = Some (r, ts', es) /\ length ts' < length ts.
  Proof.
    intros ts Hne. unfold statement. pose proof (ps_progress ts Hne) as Hp.
    destruct (ps ts) as [[r ts1] es]. cbn [rem fst snd] in Hp.
    destruct r as [s |]; [| eauto 6].
    destruct (at_parallel_with ts1); [| eauto 6].
    destruct (par_loop_ok (length ts1) ts1 [] [] (le_n _)) as [ss [ts2 [es2 [H1 H2]]]].
    rewrite H1. do 3 eexists. split; [reflexivity | lia].
  Qed.

  Lemma step_ok : forall ts, ts <> [] ->
    Step ts = StepExit \/ exists r ts' es, Step ts = StepNext r ts' es /\ length ts' < length ts.
  Proof.
    intros ts Hne. unfold step. pose proof (skip_semis_length ts) as Hl.
    destruct (skip_semis ts) as [| t ts1]; auto. right.
    destruct (statement_ok (t :: ts1) ltac:(discriminate)) as [r [ts2 [es [H1 H2]]]].
    rewrite H1. do 3 eexists. split; [reflexivity |].
    pose proof (skip_semis_length ts2). lia.
  Qed.

  Lemma loop_finishes : forall done f k ts acc errs, length ts < f ->
    exists ss e rest, Loop done f k ts acc errs = Finished ss e rest.
  Proof.
    intros done. induction f as [| f IH]; intros k ts acc errs Hf; [lia |]. cbn [loop].
    assert (forall a b, exists ss e rest, Finish a b = Finished ss e rest) as HF.
    { intros a b. unfold finish. destruct read_failed; [eauto |]. destruct b; eauto. }
    destruct ts as [| t ts]; auto.
    destruct (done k); [eauto |].
    destruct (step_ok (t :: ts) ltac:(discriminate)) as [-> | [r [ts' [es [-> Hl]]]]]; auto.
    apply IH. lia.
  Qed.

  Lemma after_length : forall n ts acc errs acc' ts' errs',
    After n ts acc errs = Some (acc', ts', errs') -> n + length ts' <= length ts.
  Proof.
    induction n as [| n IH]; intros ts acc errs acc' ts' errs' H; cbn [after] in H.
    - inversion H; subst. lia.
    - destruct ts as [| t ts]; [discriminate |].
      destruct (step_ok (t :: ts) ltac:(discriminate)) as [E | [r [ts1 [es [E Hl]]]]];
        rewrite E in H; [discriminate |].
      apply IH in H. lia.
  Qed.

  (* ---------------------------------------------------------------------------------------- *)
  (* A.2  the C16 theorems                                                                     *)

  (* the model never runs out of fuel, whatever the cancellation oracle *)
  Theorem run_finishes : forall done ts, exists ss e rest, Run done ts = Finished ss e rest.
  Proof. intros done ts. apply loop_finishes. lia. Qed.

  (* (i) a context that is never done never causes an error of its own: the result is `full`,
     whose error is not a context error, and all input is consumed *)
  Theorem never_cancelled : forall done ts,
    (forall j, done j = false) ->
    Run done ts = full ts /\
    exists ss e, full ts = Finished ss e [] /\ forall c, e <> CtxErr c.
  Proof.
    intros done ts H. split.
    - apply loop_ext. intros j _. apply H.
    - destruct (run_finishes never ts) as [ss [e [rest HR]]]. unfold full.
      pose proof (loop_never_not_ctx _ _ _ _ _ _ _ _ HR) as Hc.
      pose proof (loop_rest _ _ _ _ _ _ _ _ _ HR) as Hr.
      exists ss, e. split; [| exact Hc].
      destruct e; try (subst; exact HR). exfalso. eapply Hc. reflexivity.
  Qed.

  (* (ii) k is the first done check and the loop reaches it (after k complete iterations the
     current token is not EOF): the result is exactly the statements of the first k iterations,
     which are a prefix of the statements of `full`, with the context's error, and the input is
     not finished *)
  Theorem cancelled_at : forall done k ts acc tsk errsk,
    first_done done k ->
    After k ts [] [] = Some (acc, tsk, errsk) -> tsk <> [] ->
    Run done ts = Finished acc (CtxErr ctx_err) tsk /\ is_prefix acc (stmts_of (full ts)).
  Proof.
    intros done k ts acc tsk errsk [Hk Hlt] HA Hne.
    pose proof (after_length _ _ _ _ _ _ _ HA) as Hlen.
    assert (length tsk > 0) as Hpos by (destruct tsk; [congruence | cbn; lia]).
    unfold full, run. replace (S (length ts)) with (k + (S (length ts) - k)) by lia.
    split.
    - rewrite (loop_after done k _ 0 _ _ _ _ _ _ HA) by (intros j Hj; apply Hlt; exact Hj).
      destruct (S (length ts) - k) as [| f] eqn:Ef; [lia |]. cbn [loop Nat.add].
      destruct tsk as [| t tsk]; [congruence |]. rewrite Hk. reflexivity.
    - rewrite (loop_after never k _ 0 _ _ _ _ _ _ HA) by reflexivity.
      destruct (loop_finishes never (S (length ts) - k) (0 + k) tsk acc errsk ltac:(lia))
        as [ss [e [rest HR]]].
      rewrite HR. cbn [stmts_of]. eapply loop_prefix; eauto.
  Qed.

  (* (ii, complement) the loop ends before the first done check: cancellation is not observed *)
  Theorem cancelled_too_late : forall done k ts,
    first_done done k ->
    (After k ts [] [] = None \/ exists a e, After k ts [] [] = Some (a, [], e)) ->
    Run done ts = full ts.
  Proof.
    intros done k ts [Hk Hlt] HA. unfold full, run.
    apply (loop_not_reached done k); auto.
  Qed.

  (* the complete case analysis, for an arbitrary oracle *)
  Theorem run_cases : forall done ts,
    Run done ts = full ts \/
    exists k acc tsk errsk,
      first_done done k /\ After k ts [] [] = Some (acc, tsk, errsk) /\ tsk <> [] /\
      Run done ts = Finished acc (CtxErr ctx_err) tsk /\ is_prefix acc (stmts_of (full ts)).
  Proof.
    intros done ts. destruct (loop_cases done (S (length ts)) 0 ts [] []) as [H | H]; auto.
    destruct H as [n [acc' [ts' [errs' [H1 [H2 [H3 [H4 H5]]]]]]]].
    right. exists n, acc', ts', errs'. cbn [Nat.add] in *.
    assert (first_done done n) as Hf by (split; auto).
    repeat split; auto. eapply cancelled_at; eauto.
  Qed.

  (* the statements are always a prefix of the uncancelled result *)
  Theorem always_prefix : forall done ts, is_prefix (stmts_of (Run done ts)) (stmts_of (full ts)).
  Proof.
    intros done ts. destruct (run_cases done ts) as [-> | H].
    - exists []. now rewrite app_nil_r.
    - destruct H as [k [acc [tsk [errsk [_ [_ [_ [-> H]]]]]]]]. exact H.
  Qed.

  (* (iii) a nil error means that the whole input was consumed (and nothing was cut: the result
     is the uncancelled one, no read error, no parse error) *)
  Theorem no_error_means_finished : forall done ts ss rest,
    Run done ts = Finished ss NoErr rest ->
    rest = [] /\ full ts = Finished ss NoErr [] /\ read_failed = false.
  Proof.
    intros done ts ss rest H.
    pose proof (loop_rest _ _ _ _ _ _ _ _ _ H) as Hr. cbn in Hr. subst rest.
    destruct (run_cases done ts) as [E | E].
    - rewrite E in H. split; [reflexivity |]. split; [exact H |].
      eapply loop_noerr_read; eauto.
    - destruct E as [k [acc [tsk [errsk [_ [_ [_ [E _]]]]]]]]. rewrite E in H. discriminate.
  Qed.

  (* (iii, converse side) a context error means: not finished, and a real first done check *)
  Theorem ctx_error_means_cut : forall done ts ss c rest,
    Run done ts = Finished ss (CtxErr c) rest ->
    c = ctx_err /\ rest <> [] /\
    exists k errs, first_done done k /\ After k ts [] [] = Some (ss, rest, errs) /\
                   is_prefix ss (stmts_of (full ts)).
  Proof.
    intros done ts ss c rest H.
    pose proof (loop_rest _ _ _ _ _ _ _ _ _ H) as [Hc Hr]. split; [exact Hc |]. split; [exact Hr |].
    destruct (run_cases done ts) as [E | E].
    - exfalso. rewrite E in H. eapply loop_never_not_ctx; eauto.
    - destruct E as [k [acc [tsk [errsk [H1 [H2 [H3 [H4 H5]]]]]]]].
      rewrite H4 in H. inversion H; subst. eauto.
  Qed.

  (* (iv) pre-cancelled context *)
  Theorem pre_cancelled_nonempty : forall done t ts,
    done 0 = true -> Run done (t :: ts) = Finished [] (CtxErr ctx_err) (t :: ts).
  Proof. intros done t ts H. unfold run. cbn [loop length]. rewrite H. reflexivity. Qed.

  Theorem pre_cancelled_empty : forall done, Run done [] = Finish [] [].
  Proof. reflexivity. Qed.

  Theorem pre_cancelled_empty_ok : forall done,
    read_failed = false -> Run done [] = Finished [] NoErr [].
  Proof. intros done H. unfold run. cbn [loop length]. unfold finish. rewrite H. reflexivity. Qed.

  (* cancelling later never yields fewer statements (what the harness checks as "monotone in b") *)
  Theorem cancel_monotone : forall d1 d2 k1 k2 ts,
    first_done d1 k1 -> first_done d2 k2 -> k1 <= k2 ->
    is_prefix (stmts_of (Run d1 ts)) (stmts_of (Run d2 ts)).
  Proof.
    intros d1 d2 k1 k2 ts F1 F2 Hle.
    destruct (run_cases d2 ts) as [E2 | E2].
    - rewrite E2. apply always_prefix.
    - destruct E2 as [k [acc2 [t2 [e2 [G2 [A2 [N2 [R2 _]]]]]]]].
      pose proof (first_done_unique _ _ _ F2 G2). subst k.
      destruct (after_mono k1 k2 ts [] [] acc2 t2 e2 Hle A2) as [a1 [t1 [e1 [A1 [P N1]]]]].
      destruct (cancelled_at d1 k1 ts a1 t1 e1 F1 A1 (N1 N2)) as [R1 _].
      rewrite R1, R2. exact P.
  Qed.

  (* corollary in the form of the property text, for a monotone oracle *)
  Corollary monotone_cancelled : forall done k ts acc tsk errsk,
    monotone done -> done k = true ->
    After k ts [] [] = Some (acc, tsk, errsk) -> tsk <> [] ->
    exists ss rest, Run done ts = Finished ss (CtxErr ctx_err) rest /\ rest <> [] /\
                    is_prefix ss acc /\ is_prefix ss (stmts_of (full ts)).
  Proof.
    intros done k ts acc tsk errsk _ Hk HA Hne.
    destruct (first_done_exists done k Hk) as [k' [Hle Hf]].
    destruct (after_mono k' k ts [] [] acc tsk errsk Hle HA) as [a1 [t1 [e1 [A1 [P N1]]]]].
    destruct (cancelled_at done k' ts a1 t1 e1 Hf A1 (N1 Hne)) as [R1 P1].
    exists a1, t1. auto.
  Qed.

  (* C16 in one statement (clauses as in DESIGN.md): for every oracle and every token list *)
  Theorem driver_C16 : forall done ts,
    (* the model terminates within its fuel *)
    (exists ss e rest, Run done ts = Finished ss e rest) /\
    (* (i) never done: the uncancelled result, which has no context error and consumes everything *)
    ((forall j, done j = false) ->
       Run done ts = full ts /\
       exists ss e, full ts = Finished ss e [] /\ forall c, e <> CtxErr c) /\
    (* (ii) first done check k: cut there if the loop reaches it, otherwise unobserved *)
    (forall k, first_done done k ->
       match After k ts [] [] with
       | Some (acc, t :: tsk, _) =>
           Run done ts = Finished acc (CtxErr ctx_err) (t :: tsk) /\
           is_prefix acc (stmts_of (full ts))
       | _ => Run done ts = full ts
       end) /\
    (* (iii) nil error only for finished input, and then nothing was cut *)
    (forall ss rest, Run done ts = Finished ss NoErr rest ->
       rest = [] /\ full ts = Finished ss NoErr [] /\ read_failed = false) /\
    (* (iv) pre-cancelled *)
    (done 0 = true ->
       Run done ts = match ts with
                     | [] => Finish [] []
                     | _ :: _ => Finished [] (CtxErr ctx_err) ts
                     end) /\
    (* whatever happens, the statements are a prefix of the uncancelled ones *)
    is_prefix (stmts_of (Run done ts)) (stmts_of (full ts)).
  Proof.
    intros done ts.
    split; [apply run_finishes |].
    split; [apply never_cancelled |].
    split.
    { intros k Hk. destruct (After k ts [] []) as [[[acc tsk] errsk] |] eqn:HA.
      - destruct tsk as [| t tsk].
        + apply (cancelled_too_late done k ts Hk). right. eauto.
        + apply (cancelled_at done k ts acc (t :: tsk) errsk Hk HA). discriminate.
      - apply (cancelled_too_late done k ts Hk). left. exact HA. }
    split; [apply no_error_means_finished |].
    split; [| apply always_prefix].
    intros H0. destruct ts as [| t ts]; [reflexivity | apply pre_cancelled_nonempty; exact H0].
  Qed.

  (* without ANY assumption on what the statement parser does with its input: semicolons in
     front of a script are ignored (leading semicolons, and -- since the driver is in this state
     after every statement -- the semicolons that follow a statement) *)
  Theorem leading_semicolons : forall pre ts,
    all_semi pre -> full (pre ++ ts) = full ts.
  Proof.
    intros pre ts Hpre. unfold full, run.
    destruct (loop_finishes never (S (length ts)) 0 ts [] [] ltac:(lia)) as [ss [e [rest HR]]].
    rewrite HR.
    rewrite loop_skip_semis, (skip_semis_all_semi _ _ Hpre), <- loop_skip_semis.
    eapply loop_fuel_mono; eauto. rewrite app_length. lia.
  Qed.
End DriverProof.

Arguments full {stmt err} ps mk_parallel ctx_err read_failed ts.
Arguments delimited {stmt err} ps mk_parallel s r es.
Arguments ps_delimited {stmt err} ps s r es.
Arguments segment : clear implicits.
Arguments sg_toks {stmt err} s.
Arguments sg_sep {stmt err} s.
Arguments sg_res {stmt err} s.
Arguments sg_errs {stmt err} s.
Arguments Build_segment {stmt err} sg_toks sg_sep sg_res sg_errs.
Arguments join {stmt err} segs.
Arguments seps_ok {stmt err} segs.
Arguments segs_delimited {stmt err} ps mk_parallel segs.
Arguments script_stmts {stmt err} segs.
Arguments script_errs {stmt err} segs.
Arguments same_segments {stmt err} a b.
Arguments rest_at {stmt err} k pre segs.
