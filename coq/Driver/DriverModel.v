(* DriverModel.v -- executable model of the statement driver of /repo/parser/parser.go:
     Parse and Parser.ParseStatements(ctx)     (lines 146-194)
     Parser.parseParallelWith                 (lines 196-213)
   over the token list that the parser's window (current, peek, peekPeek) slides over.

   Conventions of the model
   * Tokens: `list item` in source order, WHITESPACE and LINE_COMMENT tokens already removed (this is
     what `nextToken` does) and WITHOUT the final EOF item: end of input is the empty list.  The Go
     lexer returns EOF forever once it has returned it (property C12), which is what "the tail of []
     is []" models.  `current` is the head of the list, `peek` the second element.
   * The statement parser `parseStatement` is a parameter `ps`: it receives the whole remaining
     token list (so it may look ahead as far as it likes, as the real one does through peek /
     peekPeek) and returns
        - `option stmt`   the statement; None models the nil ast.Statement (parseStatement
                          normalises typed-nil pointers to nil, parser.go:215-223),
        - `list item`     the remaining tokens,
        - `list err`      the errors it APPENDED to p.errors.
     Nothing else is threaded from one call to the next: the Go Parser struct has no field besides
     lexer, the three-token window, errors (and the verif step counter, which nothing reads).
   * `done k` : is ctx.Done() closed at the k-th execution of the `select` at the top of the loop
     body (k counts from 0).  `ctx_err` is what ctx.Err() returns then (non-nil by the contract of
     context.Context once Done is closed).
   * `read_failed` : p.lexer.Err() != nil when the loop is left; it is tested exactly where Go tests
     it: after the loop, before the parse errors, and NOT on the cancellation return.
   * Model files contain definitions only; the proofs are in DriverProof.v. *)
From Coq Require Import List NArith Bool.
From DC Require Import Base.Item Gen.TokenTable.
Import ListNotations.
Local Open Scope N_scope.

(* ctx.Err(): context.Canceled or context.DeadlineExceeded *)
Inductive ctx_error := Canceled | DeadlineExceeded.

(* the error returned by ParseStatements *)
Inductive result_err (err : Type) :=
| NoErr                              (* nil *)
| CtxErr (c : ctx_error)             (* ctx.Err() *)
| ReadErr                            (* fmt.Errorf("read error: %w", p.lexer.Err()) *)
| ParseErrs (es : list err).         (* fmt.Errorf("parse errors: %v", p.errors), es <> [] *)
Arguments NoErr {err}.
Arguments CtxErr {err} c.
Arguments ReadErr {err}.
Arguments ParseErrs {err} es.

(* `rest` = the tokens not consumed when ParseStatements returned (not observable through the API,
   but it is what "has finished the input" means). *)
Inductive outcome (stmt err : Type) :=
| Finished (ss : list stmt) (e : result_err err) (rest : list item)
| OutOfFuel.
Arguments Finished {stmt err} ss e rest.
Arguments OutOfFuel {stmt err}.

(* one execution of the loop body after the ctx check *)
Inductive step_result (stmt err : Type) :=
| StepExit                                             (* `if p.currentIs(token.EOF) { break }` *)
| StepNext (r : option stmt) (ts' : list item) (es : list err)
| StepFuel.
Arguments StepExit {stmt err}.
Arguments StepNext {stmt err} r ts' es.
Arguments StepFuel {stmt err}.

(* p.currentIs(t) / p.peekIs(t) for t <> EOF *)
Definition cur_is (t : N) (ts : list item) : bool :=
  match ts with [] => false | i :: _ => it_tok i =? t end.
Definition peek_is (t : N) (ts : list item) : bool := cur_is t (tl ts).

Definition is_semi (i : item) : bool := it_tok i =? T_SEMICOLON.

(* for p.currentIs(token.SEMICOLON) { p.nextToken() } *)
Fixpoint skip_semis (ts : list item) : list item :=
  match ts with
  | [] => []
  | i :: r => if is_semi i then skip_semis r else ts
  end.

Definition at_parallel_with (ts : list item) : bool :=
  cur_is T_PARALLEL ts && peek_is T_WITH ts.

Definition opt_list {A : Type} (o : option A) : list A :=
  match o with Some a => [a] | None => [] end.

Section Driver.
  Variables stmt err : Type.
  Variable ps : list item -> option stmt * list item * list err.
  (* &ast.ParallelWithQuery{Position: first.Pos(), Statements: first :: rest} *)
  Variable mk_parallel : stmt -> list stmt -> stmt.
  Variable done : nat -> bool.
  Variable ctx_err : ctx_error.
  Variable read_failed : bool.

  (* the loop of parseParallelWith; `acc` = parallel.Statements without `first`.
     None = out of fuel. *)
  Fixpoint par_loop (fuel : nat) (ts : list item) (acc : list stmt) (errs : list err)
    {struct fuel} : option (list stmt * list item * list err) :=
    if at_parallel_with ts then
      match fuel with
      | O => None
      | S f =>
        let '(r, ts', es) := ps (skipn 2 ts) in          (* skip PARALLEL, skip WITH, parseStatement *)
        par_loop f ts' (acc ++ opt_list r) (errs ++ es)  (* a nil statement is skipped *)
      end
    else Some (acc, ts, errs).

  (* lines 171-178: stmt := p.parseStatement(); if stmt != nil { PARALLEL WITH chaining }.
     The result has the type of `ps` (wrapped in option for fuel): it is the "unit" that the
     driver appends.  ts <> [] and the head is not a SEMICOLON when the driver calls it. *)
  Definition statement (ts : list item) : option (option stmt * list item * list err) :=
    let '(r, ts1, es) := ps ts in
    match r with
    | None => Some (None, ts1, es)
    | Some s =>
      if at_parallel_with ts1 then
        match par_loop (length ts1) ts1 [] [] with
        | None => None
        | Some (ss, ts2, es2) => Some (Some (mk_parallel s ss), ts2, es ++ es2)
        end
      else Some (Some s, ts1, es)
    end.

  (* lines 163-183 *)
  Definition step (ts : list item) : step_result stmt err :=
    match skip_semis ts with
    | [] => StepExit
    | t :: ts1 =>
      match statement (t :: ts1) with
      | None => StepFuel
      | Some (r, ts2, es) => StepNext r (skip_semis ts2) es
      end
    end.

  (* lines 186-193 *)
  Definition finish (acc : list stmt) (errs : list err) : outcome stmt err :=
    if read_failed then Finished acc ReadErr []
    else match errs with
         | [] => Finished acc NoErr []
         | _ :: _ => Finished acc (ParseErrs errs) []
         end.

  (* the for loop; k = number of ctx checks executed so far; acc = statements; errs = p.errors *)
  Fixpoint loop (fuel k : nat) (ts : list item) (acc : list stmt) (errs : list err)
    : outcome stmt err :=
    match fuel with
    | O => OutOfFuel
    | S f =>
      match ts with
      | [] => finish acc errs                                   (* for !p.currentIs(token.EOF) *)
      | _ :: _ =>
        if done k then Finished acc (CtxErr ctx_err) ts         (* return statements, ctx.Err() *)
        else match step ts with
             | StepExit => finish acc errs
             | StepFuel => OutOfFuel
             | StepNext r ts' es => loop f (S k) ts' (acc ++ opt_list r) (errs ++ es)
             end
      end
    end.

  (* ParseStatements on a parser whose window is at the start of `ts`.  Every iteration but the
     last consumes a token when `ps` makes progress, so S (length ts) is enough fuel. *)
  Definition run (ts : list item) : outcome stmt err := loop (S (length ts)) 0 ts [] [].

  (* the API view: ([]ast.Statement, error) *)
  Definition parse_statements (ts : list item) : option (list stmt * result_err err) :=
    match run ts with
    | Finished ss e _ => Some (ss, e)
    | OutOfFuel => None
    end.

  (* state of the loop after n complete iterations in which the context was not done:
     (statements, remaining tokens, p.errors); None when the loop ends earlier. *)
  Fixpoint after (n : nat) (ts : list item) (acc : list stmt) (errs : list err)
    : option (list stmt * list item * list err) :=
    match n with
    | O => Some (acc, ts, errs)
    | S m =>
      match ts with
      | [] => None
      | _ :: _ =>
        match step ts with
        | StepNext r ts' es => after m ts' (acc ++ opt_list r) (errs ++ es)
        | _ => None
        end
      end
    end.
End Driver.

Arguments par_loop {stmt err} ps fuel ts acc errs.
Arguments statement {stmt err} ps mk_parallel ts.
Arguments step {stmt err} ps mk_parallel ts.
Arguments finish {stmt err} read_failed acc errs.
Arguments loop {stmt err} ps mk_parallel done ctx_err read_failed fuel k ts acc errs.
Arguments run {stmt err} ps mk_parallel done ctx_err read_failed ts.
Arguments parse_statements {stmt err} ps mk_parallel done ctx_err read_failed ts.
Arguments after {stmt err} ps mk_parallel n ts acc errs.

(* the context that is never cancelled (context.Background()) *)
Definition never : nat -> bool := fun _ => false.

Definition stmts_of {stmt err : Type} (o : outcome stmt err) : list stmt :=
  match o with Finished ss _ _ => ss | OutOfFuel => [] end.
