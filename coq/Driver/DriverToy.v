(* DriverToy.v -- a small concrete statement parser, used only to show that the hypotheses of the
   driver theorems are satisfiable and their conclusions non-trivial (Properties/C16.v and
   Properties/C06_driver.v instantiate the general theorems with it and run examples).

   toy_ps: at EOF report an error and stay; on an ILLEGAL token report an error, consume it and
   return no statement (the shape of parseStatement's default branch); otherwise consume the
   first token unconditionally and everything up to the next SEMICOLON or PARALLEL token.  A
   statement is the list of its token kinds. *)
From Coq Require Import List NArith Bool Arith Lia.
From DC Require Import Base.Item Gen.TokenTable Driver.DriverModel Driver.DriverProof.
Import ListNotations.
Local Open Scope N_scope.

Definition toy_stmt := list N.
Definition toy_err := N.

Definition tk (t : N) : item :=
  {| it_tok := t; it_val := []; it_pos := {| p_off := 0; p_line := 1; p_col := 1 |}; it_quoted := false |}.

Definition toy_stop (i : item) : bool := is_semi i || (it_tok i =? T_PARALLEL).

Fixpoint toy_span (ts : list item) : list item * list item :=
  match ts with
  | [] => ([], [])
  | i :: r => if toy_stop i then ([], ts) else let '(a, b) := toy_span r in (i :: a, b)
  end.

Definition toy_ps (ts : list item) : option toy_stmt * list item * list toy_err :=
  match ts with
  | [] => (None, [], [T_EOF])
  | t :: r =>
    if it_tok t =? T_ILLEGAL then (None, r, [T_ILLEGAL])
    else let '(a, b) := toy_span r in (Some (it_tok t :: map it_tok a), b, [])
  end.

Definition toy_par (s : toy_stmt) (ss : list toy_stmt) : toy_stmt :=
  s ++ flat_map (fun x => T_PARALLEL :: T_WITH :: x) ss.

Definition toy_run (done : nat -> bool) (c : ctx_error) (ts : list item) :=
  run toy_ps toy_par done c false ts.

Lemma toy_span_length : forall ts, (length (snd (toy_span ts)) <= length ts)%nat.
Proof.
  induction ts as [| i r IH]; cbn [toy_span]; [cbn; lia |].
  destruct (toy_stop i); [cbn; lia |].
  destruct (toy_span r) as [a b]. cbn [snd length] in *. lia.
Qed.

Lemma toy_progress : forall ts, ts <> [] -> (length (rem (toy_ps ts)) < length ts)%nat.
Proof.
  intros [| t r] H; [congruence |]. cbn [toy_ps].
  destruct (it_tok t =? T_ILLEGAL); [cbn; lia |].
  pose proof (toy_span_length r) as L. destruct (toy_span r) as [a b]. cbn in *. lia.
Qed.

Lemma toy_eof : rem (toy_ps []) = [].
Proof. reflexivity. Qed.

Lemma toy_span_boundary : forall body rest,
  forallb (fun i => negb (toy_stop i)) body = true -> boundary rest = true ->
  toy_span (body ++ rest) = (body, rest).
Proof.
  induction body as [| i r IH]; intros rest Hb Hr; cbn [app].
  - destruct rest as [| x rest]; [reflexivity |]. cbn [boundary] in Hr.
    cbn [toy_span]. unfold toy_stop. rewrite Hr. reflexivity.
  - cbn [forallb] in Hb. apply andb_true_iff in Hb. destruct Hb as [Hi Hb].
    cbn [toy_span]. apply negb_true_iff in Hi. rewrite Hi, (IH rest Hb Hr). reflexivity.
Qed.

(* a toy segment: a first token that is neither ILLEGAL nor a semicolon, then no stop token *)
Definition toy_segment (s : list item) : Prop :=
  match s with
  | [] => False
  | t :: body => (it_tok t =? T_ILLEGAL) = false /\ is_semi t = false /\
                 forallb (fun i => negb (toy_stop i)) body = true
  end.

Lemma toy_ps_delimited : forall s, toy_segment s -> ps_delimited toy_ps s (Some (map it_tok s)) [].
Proof.
  intros [| t body] H; [destruct H |]. destruct H as [H1 [H2 H3]].
  split; [discriminate |]. split; [exact H2 |].
  intros rest Hr. cbn [app toy_ps]. rewrite H1, (toy_span_boundary body rest H3 Hr). reflexivity.
Qed.

Definition toy_seg (s sep : list item) : segment toy_stmt toy_err :=
  {| sg_toks := s; sg_sep := sep; sg_res := Some (map it_tok s); sg_errs := [] |}.

(* the script theorem instantiated: for all toy segments and all semicolon placements *)
Theorem toy_script : forall pre (l : list (list item * list item)),
  let segs := map (fun x => toy_seg (fst x) (snd x)) l in
  all_semi pre -> seps_ok segs -> Forall (fun x => toy_segment (fst x)) l ->
  toy_run never Canceled (pre ++ join segs) = Finished (map (fun x => map it_tok (fst x)) l) NoErr [].
Proof.
  intros pre l segs Hpre Hsep Hl. unfold toy_run.
  change (run toy_ps toy_par never Canceled false) with (full toy_ps toy_par Canceled false).
  rewrite (script_parse toy_stmt toy_err toy_ps toy_par Canceled false pre segs Hpre Hsep).
  - unfold finish, script_stmts, script_errs, segs. clear.
    replace (flat_map (fun g => sg_errs g) (map (fun x => toy_seg (fst x) (snd x)) l)) with (@nil toy_err)
      by (induction l; [reflexivity | cbn; assumption]).
    f_equal. induction l as [| x l IH]; [reflexivity |]. cbn [map flat_map]. rewrite IH. reflexivity.
  - unfold segs_delimited, segs. rewrite Forall_map. eapply Forall_impl; [| exact Hl].
    intros x Hx. apply ps_delimited_delimited, toy_ps_delimited. exact Hx.
Qed.
