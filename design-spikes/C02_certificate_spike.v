(* DESIGN SPIKE, not part of any check: feasibility of the C02 "CFG + potential certificate" formulation
   (DESIGN.md, section C02). Proves, for a 6-instruction CFG language with calls, that a locally checked
   certificate implies steps <= P0 + B * consumed-tokens for every token list and every oracle.
   Compiles with coqc 8.16.1 in ~2 s; Print Assumptions: closed under the global context. *)
(* Spike 2: conditional-component potential certificate; preservation of the invariant by one step. *)
From Coq Require Import List Arith Lia Bool.
Import ListNotations.
Local Arguments Nat.sub : simpl never.
Local Arguments Nat.mul : simpl never.

Definition tok := nat. Definition node := nat. Definition fid := nat.

Inductive instr :=
| IGoto (n : node) | ITestEOF (nt nf : node) | IUnknown (n1 n2 : node)
| INext (n : node) | ICall (f : fid) (n : node) | IRet.

Record ann := { an_a : option nat; an_b : option nat; an_ne : bool }.
Record fspec := { fs_E : nat; fs_L : nat; fs_T : nat }.
Record func := { fn_code : list instr; fn_ann : list ann; fn_spec : fspec }.
Definition prog := list func.

Section S.
Variable Pg : prog.
Variable B : nat.

Definition getf f := nth_error Pg f.
Definition geti fn pc := nth_error (fn_code fn) pc.
Definition geta fn pc := nth_error (fn_ann fn) pc.

Record frame := { fr_f : fid; fr_pc : node }.
Record conf := { c_f : fid; c_pc : node; c_toks : list tok; c_orc : list bool; c_stack : list frame }.
Definition pop_orc (o : list bool) := match o with [] => (false, []) | b :: o' => (b, o') end.

Definition step (c : conf) : option conf :=
  match getf (c_f c) with None => None | Some fn =>
  match geti fn (c_pc c) with None => None | Some i =>
  let mk pc toks orc := Some {| c_f := c_f c; c_pc := pc; c_toks := toks; c_orc := orc; c_stack := c_stack c |} in
  match i with
  | IGoto n => mk n (c_toks c) (c_orc c)
  | ITestEOF nt nf => match c_toks c with [] => mk nt (c_toks c) (c_orc c) | _ => mk nf (c_toks c) (c_orc c) end
  | IUnknown n1 n2 => let '(b, o) := pop_orc (c_orc c) in mk (if b then n1 else n2) (c_toks c) o
  | INext n => mk n (tl (c_toks c)) (c_orc c)
  | ICall f n => Some {| c_f := f; c_pc := 0; c_toks := c_toks c; c_orc := c_orc c;
                         c_stack := {| fr_f := c_f c; fr_pc := n |} :: c_stack c |}
  | IRet => match c_stack c with
            | [] => None
            | fr :: stk => Some {| c_f := fr_f fr; c_pc := fr_pc fr; c_toks := c_toks c; c_orc := c_orc c; c_stack := stk |}
            end
  end end end.

(* ---- local checks (Prop-valued in the spike; bool + reflection in the real thing) ---- *)
Definition up (x y : option nat) (k : nat) : Prop :=
  forall v, x = Some v -> exists v', y = Some v' /\ v + k <= v'.

Definition edge (src tgt : ann) (ne_src : bool) : Prop :=
  up (an_a src) (an_a tgt) 1 /\ up (an_b src) (an_b tgt) 1 /\ (an_ne tgt = true -> ne_src = true).

Definition wf_ann (sg : fspec) (a : ann) : Prop :=
  (forall x, an_a a = Some x -> x <= fs_E sg) /\ (forall y, an_b a = Some y -> y <= B).

Definition instr_ok (g : func) (pc : node) (i : instr) (src : ann) : Prop :=
  let sg := fn_spec g in
  match i with
  | IGoto n => exists t, geta g n = Some t /\ edge src t (an_ne src)
  | ITestEOF nt nf => (exists t, geta g nt = Some t /\ edge src t false) /\ (exists t, geta g nf = Some t /\ edge src t true)
  | IUnknown n1 n2 => (exists t, geta g n1 = Some t /\ edge src t (an_ne src)) /\ (exists t, geta g n2 = Some t /\ edge src t (an_ne src))
  | INext n => exists t, geta g n = Some t /\ an_ne t = false /\
        (exists b', an_b t = Some b' /\ 1 <= b') /\
        (an_ne src = false -> up (an_a src) (an_a t) 1 /\ up (an_b src) (an_b t) 1)
  | ICall f n => exists fn t, getf f = Some fn /\ geta g n = Some t /\ an_ne t = false /\
        geta fn 0 = Some {| an_a := Some 0; an_b := None; an_ne := false |} /\
        (forall x, an_a src = Some x -> fs_E (fn_spec fn) + x + 1 <= fs_E sg) /\
        (forall y, an_b src = Some y -> fs_E (fn_spec fn) + y + 1 <= B) /\
        up (an_a src) (an_a t) (2 + fs_L (fn_spec fn)) /\ up (an_b src) (an_b t) (2 + fs_L (fn_spec fn)) /\
        (exists b', an_b t = Some b' /\ fs_T (fn_spec fn) + 1 <= b')
  | IRet => (forall x, an_a src = Some x -> x <= fs_L sg /\ x + 1 <= fs_E sg) /\
            (forall y, an_b src = Some y -> y <= fs_T sg /\ y + 1 <= B)
  end.

Definition can_pay (sg : fspec) (a : ann) : Prop :=
  (forall x, an_a a = Some x -> x + 1 <= fs_E sg) /\ (forall y, an_b a = Some y -> y + 1 <= B).

Definition func_ok (g : func) : Prop :=
  (forall pc a, geta g pc = Some a -> wf_ann (fn_spec g) a) /\
  (forall pc i, geti g pc = Some i -> exists src, geta g pc = Some src /\ can_pay (fn_spec g) src /\ instr_ok g pc i src).
Definition prog_ok : Prop := forall f g, getf f = Some g -> func_ok g.

(* ---- invariant ---- *)
Definition holds (a : ann) (e len0 : nat) (toks : list tok) (P : nat) : Prop :=
  length toks <= len0 /\
  (length toks = len0 -> exists x, an_a a = Some x /\ e <= P + x) /\
  (length toks < len0 -> exists y, an_b a = Some y /\ B <= P + y) /\
  (an_ne a = true -> toks <> []).

Fixpoint stack_inv (ef lenf : nat) (f : fid) (stk : list frame) : Prop :=
  match stk with
  | [] => True
  | fr :: stk' =>
      exists fn g t eg leng, getf f = Some fn /\ getf (fr_f fr) = Some g /\ geta g (fr_pc fr) = Some t /\
        fs_E (fn_spec g) <= eg /\ lenf <= leng /\
        (forall Pret toks', length toks' <= lenf ->
            (length toks' = lenf -> ef <= Pret + fs_L (fn_spec fn)) ->
            (length toks' < lenf -> B <= Pret + fs_T (fn_spec fn)) ->
            1 <= Pret -> holds t eg leng toks' (Pret - 1)) /\
        stack_inv eg leng (fr_f fr) stk'
  end.

Definition inv (c : conf) (P : nat) : Prop :=
  exists fn a e len0, getf (c_f c) = Some fn /\ geta fn (c_pc c) = Some a /\ fs_E (fn_spec fn) <= e /\
    holds a e len0 (c_toks c) P /\ stack_inv e len0 (c_f c) (c_stack c).

Definition credit' (c c' : conf) (P : nat) : nat := P + B * (length (c_toks c) - length (c_toks c')) - 1.

Lemma pay : forall sg a e len0 toks P, fs_E sg <= e -> can_pay sg a -> holds a e len0 toks P -> 1 <= P.
Proof.
  intros sg a e len0 toks P He (Pa & Pb) (Hle & Hca & Hcb & _).
  destruct (Nat.eq_dec (length toks) len0) as [Heq|Hneq].
  - destruct (Hca Heq) as (x & Hx & Hp). pose proof (Pa _ Hx). lia.
  - assert (Hlt : length toks < len0) by lia. destruct (Hcb Hlt) as (y & Hy & Hp). pose proof (Pb _ Hy). lia.
Qed.

Lemma edge_holds : forall src t ne e len0 toks P,
  edge src t ne -> (ne = true -> toks <> []) -> 1 <= P ->
  holds src e len0 toks P -> holds t e len0 toks (P - 1).
Proof.
  intros src t ne e len0 toks P (Ua & Ub & Une) Hne HP (Hle & Hca & Hcb & _).
  split; [lia|]. split; [|split].
  - intros Heq. destruct (Hca Heq) as (x & Hx & Hp). destruct (Ua _ Hx) as (x' & Hx' & Hxx). exists x'. split; [assumption|lia].
  - intros Hlt. destruct (Hcb Hlt) as (y & Hy & Hp). destruct (Ub _ Hy) as (y' & Hy' & Hyy). exists y'. split; [assumption|lia].
  - intros Ht. apply Hne. apply Une. exact Ht.
Qed.

Theorem step_preserves : forall c c' P,
  prog_ok -> inv c P -> step c = Some c' -> 1 <= P /\ inv c' (credit' c c' P).
Proof.
  intros c c' P Hok (fn & a & e & len0 & Hf & Ha & He & Hh & Hst) Hstep.
  unfold step in Hstep. rewrite Hf in Hstep.
  destruct (geti fn (c_pc c)) as [i|] eqn:Hi; [|discriminate].
  destruct (Hok _ _ Hf) as (Hwfall & Hinstr).
  destruct (Hinstr _ _ Hi) as (src & Hsrc & Hpay & Hio). rewrite Ha in Hsrc. inversion Hsrc; subst src; clear Hsrc.
  pose proof (pay _ _ _ _ _ _ He Hpay Hh) as HP. split; [exact HP|].
  assert (Hsame : forall pc t toks orc ne, geta fn pc = Some t -> edge a t ne -> (ne = true -> toks <> []) -> toks = c_toks c ->
     inv {| c_f := c_f c; c_pc := pc; c_toks := toks; c_orc := orc; c_stack := c_stack c |} (P + B * (length (c_toks c) - length toks) - 1)).
  { intros pc t toks orc ne Ht Hedge Hne ->. rewrite Nat.sub_diag, Nat.mul_0_r, Nat.add_0_r.
    exists fn, t, e, len0. cbn. split; [exact Hf|]. split; [exact Ht|]. split; [exact He|].
    split; [|exact Hst]. eapply edge_holds; eauto. }
  destruct i as [n|nt nf|n1 n2|n|f n|]; cbn in Hio, Hstep.
  - destruct Hio as (t & Ht & Hedge). inversion Hstep; subst c'; clear Hstep. unfold credit'; cbn.
    eapply Hsame; eauto. apply Hh.
  - destruct Hio as ((t1 & Ht1 & He1) & (t2 & Ht2 & He2)).
    assert (Hc : c' = {| c_f := c_f c; c_pc := (match c_toks c with [] => nt | _ => nf end); c_toks := c_toks c; c_orc := c_orc c; c_stack := c_stack c |}).
    { destruct (c_toks c); inversion Hstep; reflexivity. }
    subst c'. unfold credit'; cbn [c_toks].
    destruct (c_toks c) as [|tk tks] eqn:Htoks in |- * at 1.
    + eapply Hsame with (ne := false); eauto. discriminate.
    + eapply Hsame with (ne := true); eauto. intros _. rewrite Htoks. discriminate.
  - destruct Hio as ((t1 & Ht1 & He1) & (t2 & Ht2 & He2)).
    destruct (pop_orc (c_orc c)) as [b o]. inversion Hstep; subst c'; clear Hstep; unfold credit'; cbn [c_toks].
    destruct b; eapply Hsame; eauto; apply Hh.
  - (* Next *)
    destruct Hio as (t & Ht & Htne & (b' & Hb' & Hb1) & Hnc).
    inversion Hstep; subst c'; clear Hstep; unfold credit'; cbn [c_toks].
    destruct (c_toks c) as [|tk tks] eqn:Htoks.
    + destruct Hh as (Hle & Hca & Hcb & Hne).
      assert (Hane : an_ne a = false) by (destruct (an_ne a); [exfalso; apply Hne; reflexivity|reflexivity]).
      destruct (Hnc Hane) as (Ua & Ub). cbn [tl length]. rewrite Nat.sub_diag, Nat.mul_0_r, Nat.add_0_r.
      exists fn, t, e, len0. cbn. split; [exact Hf|]. split; [exact Ht|]. split; [exact He|]. split; [|exact Hst].
      assert (Hedge : edge a t false).
      { split; [exact Ua|]. split; [exact Ub|]. rewrite Htne. intros Hx; discriminate Hx. }
      assert (Hsrc : holds a e len0 [] P) by (repeat split; assumption).
      refine (edge_holds a t false e len0 [] P Hedge _ HP Hsrc). intros Hx; discriminate Hx.
    + destruct Hh as (Hle & Hca & Hcb & Hne).
      exists fn, t, e, len0. cbn. split; [exact Hf|]. split; [exact Ht|]. split; [exact He|]. split; [|exact Hst].
      cbn in Hle. split; [lia|]. split; [intros; lia|]. split.
      * intros _. exists b'. split; [exact Hb'|].
        cbn [length]. replace (S (length tks) - length tks) with 1 by lia. lia.
      * rewrite Htne. discriminate.
  - (* Call *)
    destruct Hio as (fn' & t & Hf' & Ht & Htne & Hentry & Hna & Hnb & Ua & Ub & (b' & Hb' & HbT)).
    inversion Hstep; subst c'; clear Hstep; unfold credit'; cbn [c_toks c_f c_pc c_stack].
    rewrite Nat.sub_diag, Nat.mul_0_r, Nat.add_0_r.
    destruct Hh as (Hle & Hca & Hcb & Hne).
    exists fn', {| an_a := Some 0; an_b := None; an_ne := false |}, (P - 1), (length (c_toks c)).
    split; [exact Hf'|]. split; [exact Hentry|].
    assert (HeP : fs_E (fn_spec fn') <= P - 1).
    { destruct (Nat.eq_dec (length (c_toks c)) len0) as [Heq|Hneq].
      - destruct (Hca Heq) as (x & Hx & Hp). pose proof (Hna _ Hx). lia.
      - assert (Hlt : length (c_toks c) < len0) by lia. destruct (Hcb Hlt) as (y & Hy & Hp). pose proof (Hnb _ Hy). lia. }
    split; [exact HeP|]. split.
    + unfold holds; cbn. split; [lia|]. split; [intros _; exists 0; split; [reflexivity|lia]|]. split; [intros; lia|]. intros Hx; discriminate Hx.
    + cbn. exists fn', fn, t, e, len0. split; [exact Hf'|]. split; [exact Hf|]. split; [exact Ht|]. split; [exact He|]. split; [exact Hle|].
      split; [|exact Hst].
      intros Pret toks' Hl' Hnc' Hc' HPr. split; [lia|]. split; [|split].
      * intros Heq'. assert (length toks' = length (c_toks c)) by lia.
        assert (Heq : length (c_toks c) = len0) by lia.
        destruct (Hca Heq) as (x & Hx & Hp). destruct (Ua _ Hx) as (x' & Hx' & Hxx). exists x'. split; [exact Hx'|].
        pose proof (Hnc' H). lia.
      * intros Hlt'. exists b'. split; [exact Hb'|].
        destruct (Nat.eq_dec (length toks') (length (c_toks c))) as [Hs|Hd].
        -- pose proof (Hnc' Hs). assert (Hlt : length (c_toks c) < len0) by lia.
           destruct (Hcb Hlt) as (y & Hy & Hp). destruct (Ub _ Hy) as (y' & Hy' & Hyy). rewrite Hb' in Hy'. inversion Hy'; subst y'. lia.
        -- assert (Hl2 : length toks' < length (c_toks c)) by lia. pose proof (Hc' Hl2). lia.
      * rewrite Htne. discriminate.
  - (* Ret *)
    destruct Hio as (Ra & Rb).
    destruct (c_stack c) as [|fr stk] eqn:Hstk; [discriminate|].
    inversion Hstep; subst c'; clear Hstep; unfold credit'; cbn [c_toks c_f c_pc c_stack].
    rewrite Nat.sub_diag, Nat.mul_0_r, Nat.add_0_r.
    cbn in Hst. destruct Hst as (fn0 & g & t & eg & leng & Hf0 & Hg & Ht & Heg & Hll & Hpost & Hst').
    rewrite Hf in Hf0. inversion Hf0; subst fn0; clear Hf0.
    destruct Hh as (Hle & Hca & Hcb & Hne).
    exists g, t, eg, leng. cbn. split; [exact Hg|]. split; [exact Ht|]. split; [exact Heg|]. split; [|exact Hst'].
    apply Hpost; try assumption.
    + intros Heq. destruct (Hca Heq) as (x & Hx & Hp). destruct (Ra _ Hx). lia.
    + intros Hlt. destruct (Hcb Hlt) as (y & Hy & Hp). destruct (Rb _ Hy). lia.
Qed.

Lemma step_len : forall c c', step c = Some c' -> length (c_toks c') <= length (c_toks c).
Proof.
  intros c c' H. unfold step in H.
  destruct (getf (c_f c)) as [fn|]; [|discriminate].
  destruct (geti fn (c_pc c)) as [i|]; [|discriminate].
  destruct i; cbn in H.
  - inversion H; cbn; lia.
  - destruct (c_toks c); inversion H; cbn; lia.
  - destruct (pop_orc (c_orc c)); inversion H; cbn; lia.
  - inversion H; cbn. destruct (c_toks c); cbn; lia.
  - inversion H; cbn; lia.
  - destruct (c_stack c); [discriminate|]. inversion H; cbn; lia.
Qed.

Fixpoint run (n : nat) (c : conf) : conf * nat :=
  match n with
  | 0 => (c, 0)
  | S n' => match step c with None => (c, 0) | Some c' => let '(c'', k) := run n' c' in (c'', S k) end
  end.

Theorem linear_bound : forall n c0 P0 c k,
  prog_ok -> inv c0 P0 -> run n c0 = (c, k) ->
  k <= P0 + B * (length (c_toks c0) - length (c_toks c)) /\ length (c_toks c) <= length (c_toks c0).
Proof.
  induction n as [|n IH]; intros c0 P0 c k Hok Hinv Hrun; cbn in Hrun.
  - inversion Hrun; subst. split; lia.
  - destruct (step c0) as [c1|] eqn:Hs.
    + destruct (run n c1) as [c2 k2] eqn:Hr. inversion Hrun; subst c2 k; clear Hrun.
      destruct (step_preserves _ _ _ Hok Hinv Hs) as (HP & Hinv1).
      pose proof (step_len _ _ Hs) as Hl1.
      destruct (IH _ _ _ _ Hok Hinv1 Hr) as (Hk & Hl2). unfold credit' in Hk.
      split; [|lia].
      assert (Hsplit : B * (length (c_toks c0) - length (c_toks c)) =
              B * (length (c_toks c0) - length (c_toks c1)) + B * (length (c_toks c1) - length (c_toks c))) by nia.
      rewrite Hsplit.
      set (X := B * (length (c_toks c0) - length (c_toks c1))) in *.
      set (Y := B * (length (c_toks c1) - length (c_toks c))) in *.
      clearbody X Y. lia.
    + inversion Hrun; subst. split; lia.
Qed.

(* hence: with fuel > P0 + B * n0 the run has halted *)
Corollary terminates : forall c0 P0, prog_ok -> inv c0 P0 ->
  let N := P0 + B * length (c_toks c0) + 1 in
  forall c k, run N c0 = (c, k) -> k < N.
Proof.
  intros c0 P0 Hok Hinv N c k Hrun.
  destruct (linear_bound _ _ _ _ _ Hok Hinv Hrun) as (Hk & Hl). unfold N.
  assert (Hm : B * (length (c_toks c0) - length (c_toks c)) <= B * length (c_toks c0)) by nia.
  set (X := B * (length (c_toks c0) - length (c_toks c))) in *. set (Y := B * length (c_toks c0)) in *. clearbody X Y. lia.
Qed.

End S.
Print Assumptions linear_bound.
